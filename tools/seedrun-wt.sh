#!/bin/bash
# usage: tools/seedrun-wt.sh <worktree-id e.g. C03c> [check ids]
# Runs the quick check(s) against the scratch worktree /tmp/wt-<id> (where the agent left its change applied)
# WITHOUT touching /repo; evidence and replays go to /tmp/out-<id>. For quick triage only: the recorded
# results come from tools/seedrun.sh, which applies the patch to /repo as the procedure prescribes.
ID=$1; shift
P=$(echo $ID | cut -c1-3)
CHECKS="$@"; [ -z "$CHECKS" ] && CHECKS=$P
mkdir -p /tmp/out-$ID
for c in $CHECKS; do
  out=$(cd /verif && VERIF_REPO=/tmp/wt-$ID VERIF_OUT=/tmp/out-$ID ./check $c quick 2>&1); rc=$?
  echo "wt=$ID check=$c exit=$rc violations=$(echo "$out" | grep -c '^VIOLATION') :: $(echo "$out" | tail -1 | cut -c1-150)"
  echo "$out" | grep -A1 "^VIOLATION" | grep -v "^VIOLATION\|^--" | head -2 | cut -c1-260
done
