#!/bin/bash
# usage: tools/seedrun.sh <seed-id> [check-id ...]
# Applies /verif/seeded/<seed-id>/patch.diff to /repo, runs the quick checks
# (default: the property named in meta.json), prints their verdicts and
# reverts /repo (git checkout -- . ; untracked files from the patch removed).
export GOFLAGS=-mod=mod GOPROXY=off GOSUMDB=off GOTOOLCHAIN=local
S=/verif/seeded/$1
shift
[ -f "$S/patch.diff" ] || { echo "no patch in $S"; exit 2; }
CHECKS="$@"
[ -z "$CHECKS" ] && CHECKS=$(python3 -c "import json;print(json.load(open('$S/meta.json'))['property'])")
cd /repo || exit 2
if [ -n "$(git status --porcelain --untracked-files=no)" ]; then echo "/repo is dirty, refusing"; exit 2; fi
git apply "$S/patch.diff" || { echo "patch does not apply"; exit 2; }
trap 'cd /repo && git checkout -q -- . && git clean -fdq -- . >/dev/null 2>&1' EXIT
for c in $CHECKS; do
  out=$(cd /verif && VERIF_TIER=${TIER:-quick} ./check $c ${TIER:-quick} 2>&1)
  rc=$?
  nv=$(echo "$out" | grep -c "^VIOLATION")
  echo "seed=$(basename $S) check=$c exit=$rc violations=$nv :: $(echo "$out" | tail -1)"
  echo "$out" | grep -A1 "^VIOLATION" | grep -v "^VIOLATION\|^--" | head -3 | cut -c1-300
done
