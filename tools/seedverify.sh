#!/bin/bash
# usage: tools/seedverify.sh <Cxx>   -- verifies the seed produced in /tmp/wt-<Cxx> and copies it to /verif/seeded/<Cxx>/
export GOFLAGS=-mod=mod GOPROXY=off GOSUMDB=off GOTOOLCHAIN=local
ID=$1; W=/tmp/wt-$ID
[ -d "$W/SEED" ] || { echo "$ID: no SEED dir"; exit 2; }
cd "$W" || exit 2
cmd=$(grep -v '^#' SEED/demo_cmd.txt | grep "go \(test\|run\)" | tail -1)
[ -z "$cmd" ] && cmd=$(tail -1 SEED/demo_cmd.txt)
# 1. demo fails with the change
( eval "$cmd" ) >/tmp/sv-$ID-with.log 2>&1; rc_with=$?
# 2. library suite passes with the change (demo files moved aside)
mkdir -p /tmp/sv-$ID-aside; 
for f in $(git status --porcelain | grep '^??' | awk '{print $2}' | grep -v '^SEED/'); do mkdir -p /tmp/sv-$ID-aside/$(dirname $f); mv "$f" /tmp/sv-$ID-aside/$f; done
/verif/tools/baseline.sh "$W" >/tmp/sv-$ID-suite.log 2>&1; rc_suite=$?
# restore demo files
(cd /tmp/sv-$ID-aside && find . -type f | while read f; do mkdir -p "$W/$(dirname $f)"; mv "$f" "$W/$f"; done); rm -rf /tmp/sv-$ID-aside
# 3. demo passes without the change
git diff > /tmp/sv-$ID.patch
git checkout -q -- .
( eval "$cmd" ) >/tmp/sv-$ID-without.log 2>&1; rc_without=$?
git apply /tmp/sv-$ID.patch
echo "$ID: demo_with_change_rc=$rc_with suite_rc=$rc_suite ($(tail -1 /tmp/sv-$ID-suite.log | cut -c1-80)) demo_without_change_rc=$rc_without"
if [ $rc_with -ne 0 ] && [ $rc_suite -eq 0 ] && [ $rc_without -eq 0 ]; then
  mkdir -p /verif/seeded/$ID
  cp /tmp/sv-$ID.patch /verif/seeded/$ID/patch.diff
  cp -r SEED/* /verif/seeded/$ID/ 2>/dev/null
  cp /tmp/sv-$ID.patch /verif/seeded/$ID/patch.diff
  rm -f /verif/seeded/$ID/go.mod
  echo "$ID: VERIFIED -> /verif/seeded/$ID"
else
  echo "$ID: NOT verified"
fi
