#!/bin/bash
# Runs the repository's own suite with the verif guard OFF and compares with
# /root/.vp/BASELINE.json: every stable_pass test must pass.
# usage: tools/baseline.sh [repo-dir]
export GOFLAGS=-mod=mod GOPROXY=off GOSUMDB=off GOTOOLCHAIN=local
REPO=${1:-/repo}
OUT=$(mktemp)
(cd "$REPO" && go test -json -vet=off -count=1 -timeout 25m ./... > "$OUT" 2>/dev/null)
python3 - "$OUT" <<'PY'
import json,sys
passed=set(); failed=set()
for l in open(sys.argv[1]):
    try: e=json.loads(l)
    except Exception: continue
    if e.get('Test') and e.get('Action') in ('pass','fail'):
        (passed if e['Action']=='pass' else failed).add(e['Package']+'::'+e['Test'])
b=json.load(open('/root/.vp/BASELINE.json'))
missing=[t for t in b['stable_pass'] if t not in passed]
print(f"passed={len(passed)} failed={len(failed)} baseline={len(b['stable_pass'])} baseline_missing={len(missing)}")
for t in missing[:20]: print("  MISSING/FAILED:",t)
unexpected=[t for t in failed if t not in b.get('always_fail',[])]
for t in unexpected[:20]: print("  FAILED:",t)
sys.exit(1 if missing else 0)
PY
rc=$?
rm -f "$OUT"
exit $rc
