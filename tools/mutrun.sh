#!/bin/bash
# usage: tools/mutrun.sh <dir-with-patch.diff+meta.json> [check ids]
export GOFLAGS=-mod=mod GOPROXY=off GOSUMDB=off GOTOOLCHAIN=local
S=$(cd "$1" && pwd); shift
CHECKS="$@"
[ -z "$CHECKS" ] && CHECKS=$(python3 -c "import json;print(json.load(open('$S/meta.json'))['property'])")
cd /repo || exit 2
if [ -n "$(git status --porcelain --untracked-files=no)" ]; then echo "/repo is dirty, refusing"; exit 2; fi
git apply "$S/patch.diff" || { echo "patch does not apply: $S"; exit 2; }
trap 'cd /repo && git checkout -q -- . && git clean -fdq -- . >/dev/null 2>&1' EXIT
for c in $CHECKS; do
  out=$(cd /verif && ./check $c ${TIER:-quick} 2>&1)
  rc=$?
  nv=$(echo "$out" | grep -c "^VIOLATION")
  echo "mutant=$(basename $S) check=$c exit=$rc violations=$nv :: $(echo "$out" | tail -1 | cut -c1-160)"
  echo "$out" | grep -A1 "^VIOLATION" | grep -v "^VIOLATION\|^--" | head -2 | cut -c1-260
done
