#!/usr/bin/env python3
"""usage: seedprompt.py <Cxx> <suffix>  -- prints the prompt for a seed-writing sub-agent working in /tmp/wt-<Cxx><suffix>.
The prompt holds the property text, the worktree path and one-line summaries of the changes earlier agents
proposed for the same property (so that rounds differ); nothing about the machinery in /verif."""
import json, os, subprocess, sys
pid, suf = sys.argv[1], sys.argv[2]
wid = pid + suf
props = {}
for l in open('/verif/properties.jsonl'):
    p = json.loads(l); props[p['id']] = p
p = props[pid]
prop = f"Property {pid}: {p['title']}\n\nStatement: {p['statement']}\n\nQuantified over: {p['quantifier']['text']}\n\nCode the property is anchored in: {', '.join(p['anchors']['files'])}\n"
open(f'/tmp/prop-{pid}.txt', 'w').write(prop)
base = subprocess.run(['python3', os.path.join(os.path.dirname(os.path.abspath(__file__)), 'agent_prompt.py'), pid, wid], capture_output=True, text=True).stdout
prior = []
for d in sorted(os.listdir('/verif/seeded')):
    if d[:3] != pid or not os.path.isfile(f'/verif/seeded/{d}/meta.json'):
        continue
    try:
        m = json.load(open(f'/verif/seeded/{d}/meta.json'))
    except Exception:
        continue
    files = m.get('files', [])
    if isinstance(files, list):
        files = ', '.join(str(f) for f in files)[:160]
    prior.append(f"- ({files}) {str(m.get('summary',''))[:330]}")
print(base)
if prior:
    print("\nChanges that OTHER people already proposed for this property - do NOT repeat them or close variants of them (not the same function, not the same idea, not the same mechanism); find a genuinely different way to break the property, preferably through a clause of its statement, an API entry point, an input size or a combination of language features that none of these touches. The change must break what the property STATES (do not rely on behaviour the statement leaves open):")
    print("\n".join(prior))
