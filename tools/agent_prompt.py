import sys
pid=sys.argv[1]
wid=sys.argv[2] if len(sys.argv)>2 else pid
prop=open(f"/tmp/prop-{pid}.txt").read()
print(f"""You are testing a verification setup by producing ONE realistic, subtle defect ("seeded change") in a Go library. Work ONLY inside the git worktree /tmp/wt-{wid} (a checkout of the library jsightapi/jsight-schema-go-library). Do NOT read, list or use anything under /verif or /repo, and do not look for any existing verification machinery: your change must be independent of it.

Environment: no network. Before every go command run: export GOFLAGS=-mod=mod GOPROXY=off GOSUMDB=off GOTOOLCHAIN=local . The library's own test suite is: cd /tmp/wt-{wid} && go test -vet=off -count=1 ./...  (one test, TestEnum_String in notations/jschema/internal/schema/constraint, fails on the unchanged tree too - ignore it). Files with the build tag `verif` (verif_hooks.go, verifhooks/) are test hooks: do not touch them.

The property that must be BROKEN by your change:

{prop}
Task:
1. Read the relevant code. Design a small change (a few lines, the kind of slip a maintainer could really make: an off-by-one in cursor/offset logic, a flag not reset, a shared scratch buffer, a check moved after the act, a wrong comparison operator at a boundary, a cache not keyed completely, a lock dropped around two operations ...) that makes the library violate the property above, but
   - the library still compiles, and the library's existing test suite still passes exactly as before (run it to be sure; only TestEnum_String may fail);
   - the breakage needs something SPECIFIC to manifest - a particular input shape, a particular interleaving of goroutines, a particular sequence of API calls, an unusual value, or two cooperating code sites that each look fine alone - not something ordinary use would expose at once.
2. Write a demonstration: a Go test file placed in the worktree (e.g. /tmp/wt-{wid}/seed_demo_test.go in package jschema_test or another suitable package, or a small main program under /tmp/wt-{wid}/seeddemo/) that FAILS with your change and PASSES on the unchanged tree. Verify both: run it with the change applied, then `git stash` (or `git diff > x; git checkout -- .`) run it again, then re-apply.
3. Leave these files in /tmp/wt-{wid}/SEED/ :
   - patch.diff : output of `git diff` for the library change only (not the demo files);
   - the demonstration file(s) (a copy), plus demo_cmd.txt with the exact command to run it from the worktree root;
   - meta.json : {{"property": "{pid}", "summary": "...what the change does...", "needs": "...what specific input/interleaving/sequence is needed to manifest...", "files": [...], "verified": "what you ran and what you observed (suite passes, demo fails with / passes without)"}}
   Leave the worktree with the library change APPLIED and the demo file present.
4. Final answer: a short report (what you changed, why the existing tests do not notice, how it manifests).

There are many ways to break this property; choose one that a reviewer who concentrates on the most obvious function would overlook - a helper, a constructor, a rarely taken branch, a cache, or the interplay of two packages. Prefer a change in the code anchoring the property, not in comments or error texts. Do not edit existing test files. Do not make the change trivially detectable (e.g. breaking the simplest possible input).""")
