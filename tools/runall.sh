#!/bin/bash
# usage: tools/runall.sh <quick|thorough> [ids...] -- runs the checks on the current tree, prints one line each
cd /verif
T=${1:-quick}; shift
IDS="$@"; [ -z "$IDS" ] && IDS=$(jq -r '.checks[].property_id' MANIFEST.json)
for id in $IDS; do
  s=$(date +%s)
  out=$(./check $id $T 2>&1); rc=$?
  e=$(( $(date +%s) - s ))
  echo "$id rc=$rc wall=${e}s violations=$(echo "$out" | grep -c '^VIOLATION') known=$(echo "$out" | grep -c '^KNOWN-FINDING') :: $(echo "$out" | tail -1 | cut -c1-150)"
done
