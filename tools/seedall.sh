#!/bin/bash
# usage: tools/seedall.sh [ids...]  -- runs every seeded change against the check of its own property (quick tier),
# writes /verif/seeded/RESULTS.tsv (id, exit code, violations, last line)
cd /verif
IDS="$@"; [ -z "$IDS" ] && IDS=$(ls seeded | grep '^C')
for id in $IDS; do
  line=$(tools/seedrun.sh $id 2>&1 | grep "^seed=" | head -1)
  echo "$line"
  grep -v "^$id	" seeded/RESULTS.tsv 2>/dev/null > seeded/.r.tmp; mv seeded/.r.tmp seeded/RESULTS.tsv
  rc=$(echo "$line" | sed -n 's/.*exit=\([0-9]*\).*/\1/p'); nv=$(echo "$line" | sed -n 's/.*violations=\([0-9]*\) ::.*/\1/p')
  printf "%s\t%s\t%s\t%s\n" "$id" "$rc" "$nv" "$(echo "$line" | sed 's/.*:: //')" >> seeded/RESULTS.tsv
done
sort -o seeded/RESULTS.tsv seeded/RESULTS.tsv
