#!/bin/bash
# usage: tools/mutall.sh  -- runs every patch under /verif/mutants against the check named in its meta.json (quick),
# writes /verif/mutants/RESULTS.tsv
cd /verif
: > mutants/RESULTS.tsv
for d in mutants/*/; do
  [ -f $d/patch.diff ] || continue
  line=$(tools/mutrun.sh $d 2>&1 | grep "^mutant=\|does not apply\|dirty" | head -1)
  echo "$line" | cut -c1-200
  rc=$(echo "$line" | sed -n 's/.*exit=\([0-9]*\).*/\1/p'); nv=$(echo "$line" | sed -n 's/.*violations=\([0-9]*\) ::.*/\1/p')
  printf "%s\t%s\t%s\t%s\n" "$(basename $d)" "$(python3 -c "import json;print(json.load(open('$d/meta.json'))['property'])")" "${rc:-?}" "${nv:-?}" >> mutants/RESULTS.tsv
done
