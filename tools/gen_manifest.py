#!/usr/bin/env python3
"""Generates /verif/MANIFEST.json from the table below (kept in one place so
that the manifest is always valid)."""
import json, os, sys

V = os.path.dirname(os.path.dirname(os.path.abspath(__file__)))

CHECKS = {
 "C05": dict(
   category="model_checking", engine="A explicit-state product + B small-scope strings",
   technique="explicit-state BFS of the product (real scanner x reference PDA) with validated state merging; exhaustive string enumeration",
   text="All reachable product states of the real JSON scanner (driven byte-wise through a verif hook) and a reference RFC 8259 pushdown automaton are enumerated for nesting <= 4 (quick) / 6 (thorough) in both modes; in each state the public Document.Check verdict of the state's shortest history must equal the reference verdict, so acceptance is decided for strings of any length within the nesting bound. State merging is validated by recomputing successors of merged histories. In addition every string of <= 5 (6) symbols over the 30-class alphabet is compared three ways, and every single-symbol edit and truncation of a corpus of structured long texts (deep nesting, 4 KiB strings, long numerals). Every product-state text and byte-sweep text is also checked on documents with a history (after a first Check, after Len, after 1, 2, 3, 5 lexemes read with NextLexeme): the verdict must not depend on it; containers of n copies of 12 units for n in 1..10 and around every power of two up to 256, 300, 1000. One raw character per UTF-8 byte-class combination (and DEL) in values and keys.",
   note="Trusted: the reference PDA (cross-checked against encoding/json on every enumerated string), the hook's control key being a bisimulation (checked on merges). Not asserted: invalid UTF-8; in trailing mode inputs where the maximal munch of a top-level number ends inside an incomplete number (1.x, 1e+).",
   design="4/C05"),
}

CHECKS["C19"] = dict(
   category="model_checking", engine="A explicit-state over the real maps + C controlled scheduler for the concurrent clause",
   technique="explicit-state BFS to a fixpoint of canonical heap states of the real generated maps, reference insertion-ordered map as oracle",
   text="Breadth-first search over ALL operation sequences of the 19-operation alphabet (3 keys, 2 values, 4 predicates, failing Map callback) on the real ASTNodes, RuleASTNodes (zero value, New..., Make...) and Constraints objects until no new canonical state (order backing array incl. stale tail, len, data) appears; this covers histories of any length, not only 6. Every observer and every callback visit log is compared with a 30-line reference map in every state; merges are validated by recomputing successors. Concurrent clause (merged from the scheduler variant): all 4-tuples (2 threads x 2 ops) and triples (3 x 1) over a 12-operation alphabet (incl. MarshalJSON, Find, Has) on the three real maps from two initial states, ALL interleavings at lock points, each history checked for linearizability by brute force and by the race detector as per-execution monitor. Big maps: every real map filled with n keys (n around slice capacities up to 1025) and emptied in five ways, all observers compared after every operation. Every sequential history runs in its own goroutine: a call that never returns (leaked lock) is a violation.",
   note="Trusted: the reference map; the state key is validated as a bisimulation on every merge. Map's behaviour on callback error (earlier entries stay updated) is taken from the generated code's documented contract.",
   design="4/C19")
CHECKS["C10"] = dict(
   category="exploration", engine="B small-scope enumeration with exact reference",
   technique="exhaustive enumeration of all numerals up to 6/7 chars and all pairs up to 4/5 chars against math/big; greedy reduction of counterexamples to minimal cores",
   text="Every string of <= 6 (thorough 7) characters over {-,0,1,5,9,.,e,E,+} is classified; every RFC 8259 numeral among them goes through the internal Number (hook) and is compared with math/big on normalised expansion, fractional length and order against a 46-numeral probe set in both directions; all ordered pairs of numerals <= 4 (5) characters are compared; at API level 9 rule forms (float, integer, min, max, exclusive true/false, precision) x all exponent-free bounds <= 4 chars x all numerals <= 5 (6) chars are validated and compared with exact arithmetic; a structured family of long numerals (digit blocks up to 60 digits, exponents to +-400) is compared pairwise. Counterexamples are reduced to minimal cores which identify known findings. Integer-ness decided by the root package (additionalProperties: integer; the public GuessSchemaType) on all numerals; reductions keep the kind of failure and never enter the recorded 0e0 class from outside.",
   note="Trusted: math/big and the 40-line decimal reference. Not asserted: integer-ness of 1.0-style numerals; the internal parser's behaviour on strings that are not RFC numerals.",
   design="4/C10")

CHECKS["C17"] = dict(
   category="exploration", engine="B small-scope exhaustive + BFS over reference PDA states",
   technique="exhaustive enumeration of all file contents up to 7/8 bytes over 5 symbols x all positions against a reference renderer; BFS over reference PDA states for error positions",
   text="(a) Every file content of length 0..7 (thorough 8) over {a,space,tab,LF,CR} with every position inside it is rendered through the public DocumentError API; no rendering may panic, and for consistently terminated files line number, left-trimmed text and caret column must equal a reference renderer; line-length families around the 200-byte cut. (b) For every reference-PDA state (nesting <= 4/6) and every string <= 4/5 symbols: the error position of the first dead byte and of an early end of input. (c) every rule-free schema <= 3/4 nodes and every depth-5 spine with ONE planted violation at every node (value of another kind, unknown key) plus 14 single-rule breakers in 9 contexts: the reported position is the start of the planted value / key. (e) errors passed through kit.ConvertError keep file, position, code and rendering, for named and unnamed documents. (d) one error value rendered, moved with SetIndex and rendered again must show what a fresh error shows (all contents <= 5/6 bytes x all position pairs). Files of up to 4097 lines with lines of up to 210 bytes (line numbers around powers of ten and two). 32 schema texts that end early x blank paddings: structured end-of-file error at the last byte.",
   note="Trusted: the 100-line reference renderer. Not asserted: mixed LF/CR files' line numbers, caret inside leading blanks or on blank-only lines, positions for blank-only input.",
   design="4/C17")
CHECKS["C01"] = dict(
   category="exploration", engine="B small-scope enumeration with reference shape matcher",
   technique="exhaustive small-scope enumeration of (schema, config, document) triples against a three-valued reference validator; greedy counterexample reduction",
   text="All rule-free schemas with <= 3 (thorough 4) nodes and every legal flag assignment x all documents with <= 3 (4) nodes (<= 4 (5) for schemas up to 2 nodes) in every key order x both key-optionality configurations, plus depth-5 spines with all documents within 2 structural edits of the example; the library verdict must equal the reference shape matcher, and optional-by-default must equal default with every unmarked key marked optional. A further family places a type-any position before/after siblings in 7 contexts and fills it with 16 nested values (arrays of 0..3 items, arrays in arrays, objects holding arrays) crossed with every variation of the nodes that follow it. Every document with members is also validated with its keys spelled with \\uXXXX escapes; wide and deep documents (n items / n required properties / n levels, n around every power of two).",
   note="Trusted: the reference validator ref/refv (written from the statement, stdlib only). Not asserted: duplicate keys, numerals other than 1 / 1.5.",
   design="4/C01")

CHECKS["C02"] = dict(
   category="exploration", engine="B small-scope enumeration with reference rule semantics",
   technique="exhaustive enumeration of rule sets x parameter variants x examples x boundary probes against a three-valued reference (math/big, regexp, calendar)",
   text="For every scalar kind, all rule sets of up to 5 (thorough 7) distinct rule names with all parameter variants from boundary sets, for every example candidate that satisfies them, validated against probe values on, just inside and just outside every bound, alternative numeral spellings, escaped strings, exhaustive date grids, datetime field boundaries, uuid shapes and curated email/uri lists, and every other JSON kind; the verdict must equal the reference rule semantics. Second family: every ordered pair of annotated scalar slots as sibling properties and sibling array items, validated against every combination of (good | each rule-breaking value) for both siblings. String probes include values that carry escaped quotes at both ends. Anchored literal patterns (^ab$, \\Aab\\z) with probes that contain the literal.",
   note="Trusted: ref/refv + ref/decimal. Not asserted: non-ASCII string lengths, alternative spellings for const/enum, RFC 3339 corners left to the Go standard library, email/uri beyond curated lists.",
   design="4/C02")

CHECKS["C08"] = dict(
   category="exploration", engine="B small-scope enumeration, permutation-invariance + reference predicate",
   technique="exhaustive enumeration of rule subsets x parameter variants x ALL permutations; metamorphic order-invariance plus three-valued reference applicability predicate",
   text="10 node kinds x 3 positions x all subsets of <= 3 (thorough 4) of 18 rule names plus an unknown name and duplicated names x parameter variants, each compiled in every permutation and under both key-optionality configurations (Check asked twice per object): Check's verdict must not depend on the order, and must equal the applicability/consistency predicate written from the statement wherever that predicate is decided; plus scalar examples with rule sets of <= 3 (4) names from the kind's applicable pool with boundary parameters, which supply the well-formed (accept-side) cases. The statement's exclusions inside or rule-sets (format types with length/regex rules, any with const) in every position, with accepted controls. Empty-object parents among the allOf values. Every rule name padded with blanks inside its quotes must be unknown (annotation, property, or rule-set); the exact quoted name is the accepted control.",
   note="Trusted: ref/wf predicate and ref/refv. Error codes are not compared; statement-silent combinations are Unspecified (listed in the evidence assumptions).",
   design="4/C08")

CHECKS["C04"] = dict(
   category="exploration", engine="B small-scope enumeration of slots x contexts x single-rule corruptions",
   technique="exhaustive enumeration of annotated slots in nesting contexts with every single-rule corruption of the example; renderer offset map as position oracle",
   text="annotated slots (every rule family incl. formats, enum, or, type references - each also with nullable: true -, item counts, empty containers under type lists; a systematic family of every rule set <= 3/4 names x every example candidate the reference rejects) x 17 nesting contexts (incl. siblings carrying type lists of their own) x every single-rule corruption of the example: Check must fail and report the byte offset of the corrupted value; conversely all shapes <= 3 (4) nodes with every scalar leaf replaced by every slot, and every slot in every context: whenever Check succeeds, validating the example text succeeds; EVERY ordered pair of slots as siblings (both good; one of the two corrupted in every way: Check must fail at the corrupted one, also when asked a second time on the same object).",
   note="Trusted: the renderer's offset map. Error codes are not asserted; positions inside added types are not asserted.",
   design="4/C04")

CHECKS["C14"] = dict(
   category="exploration", engine="B small-scope enumeration of texts x separators x trailing texts",
   technique="exhaustive product of accepted texts x separators x directive-like trailing texts; every truncation classified by the reference PDA",
   text="Every accepted text of a corpus built from all rule-free JS-core renderings <= 3 (4) nodes in two layouts, annotated and noted variants ending in every token class, type shortcuts, enum texts and every regex token with a body <= 4 symbols over {a, \\, /, .} (acceptance decided by the reference; a rejected corpus text is a violation), followed by each of 9 separators and 11 trailing texts admitted by the statement: Len must be exactly len(S) for schema, JSON document (trailing characters allowed), enum and regex roles, on fresh objects and on objects used before (after Check/GetAST/Values/Pattern, after the document stream was read to its end); every lexically incomplete truncation must make Len fail. Separators are no blank and EVERY run of 1..3 blanks over {space, tab, LF, CRLF}. Trailing texts that themselves hold line breaks (a foreign byte, then the next line). Texts with multi-byte characters in every role.",
   note="Trusted: reference PDA for incompleteness. Not generated: trailing text that could continue S; blank-only inputs.",
   design="4/C14")

CHECKS["C06"] = dict(
   category="exploration", engine="B exhaustive strings/values x whitespace placements, reference tokenizer, cross-scanner differential",
   technique="exhaustive enumeration of valid JSON texts (all strings <= 5/6 symbols; all values <= 4/5 nodes x all placements of <= 2/3 whitespace gaps; depth-8 families; every escape form in values and keys) with an event-automaton oracle and a three-scanner differential",
   text="For every enumerated valid JSON text the public NextLexeme stream (of a fresh document and of one on which Len or Check ran before) is replayed through an event automaton that checks nesting, termination by io.EOF, spans inside the input, literal/key spans equal to the reference tokenizer's, container spans bracket to bracket, and that the value rebuilt from events alone equals the reference parse; the schema scanner and (for arrays of scalars) the enum scanner, driven through verif hooks on the same text in four embeddings, must produce the same (type, begin, end) sequence modulo new-line events; for pairs of small documents read in turns, ALL merges of the two NextLexeme call sequences must deliver each document's own events. Containers of n copies of each of 12 units (empty and one-item containers, scalars) for n in 1..10 and around every power of two up to 256, 300 and 1000.",
   note="Trusted: ref/jsonpda tokenizer/parser (cross-checked against encoding/json on every input). Exponent numerals are excluded from the cross-scanner relation.",
   design="4/C06")

CHECKS["C18"] = dict(
   category="exploration", engine="B small-scope enumeration, named-vs-inline differential",
   technique="exhaustive enumeration of enum value lists x layouts and of all compilable regex sources up to 4/5 symbols; metamorphic named == inline == regexp",
   text="All enum value lists of <= 3 (4) items over 10 literals (duplicates, a string spelling a float, escapes) in 9 layouts (incl. empty comments): the named rule and the inline list must give identical verdicts on 14 probes, duplicates must make the rule's Check fail, Values()/GetAST() must list the literals in source order; one rule object referenced twice in a schema and added to a second schema must behave like the inline list and be unchanged afterwards. All strings <= 4 (5) over a 16-symbol regex alphabet that regexp.Compile accepts: the regex type, the inline {regex} rule and regexp.MatchString must agree on all 156 probe strings <= 3 over {a,b,/,\",\\}; Example() matches the pattern; Len equals the /P/ token length with trailing text. Enum literals include floats with zero digits in the fraction (1.50, 20.05, -0.100). 315 patterns whose matches begin or end with blanks. Patterns holding characters that mean something to formats, JSON and the schema language (%, #, //, @, quotes).",
   note="Trusted: Go regexp. The third-party example generator ignores anchors, so 'Example matches P' is asserted only for patterns without inner anchors.",
   design="4/C18")

CHECKS["C09"] = dict(
   category="exploration", engine="B small-scope enumeration of type graphs with a least-fixpoint reference; worker-death = non-termination",
   technique="exhaustive enumeration of all type graphs over 1-3 (4) user types x edge forms x missing-node subsets against a least-fixpoint inhabitation model; process-level crash/hang detection",
   text="Every type graph over a root (5 forms) and up to 3 (thorough 4) user types whose bodies range over scalar, alias, or-shortcut, array, allOf parent (at the type's root, on an array element, on a property value), additionalProperties type, key shortcut and one/two-slot objects (required / optional / array / or / nested / nullable references), with every subset (quick n=3: every single type) left un-added, plus ring / chain-into-ring / diamond families up to 6 types: Check must fail with 1302 naming a missing type exactly when a reachable type is missing, UsedUserTypes must equal the names in the root text, Check must reject exactly when the least-fixpoint model leaves the root uninhabited and must not report recursion when every type is inhabited, and on every accepted graph Check, Validate and Example must return (a worker death or 40 s without progress is a violation). UsedUserTypes first asked after Check / Validate / Example / GetAST / Len, on the object itself and on an object serving as added type of a schema used before.",
   note="Trusted: ref/typegraph. Not asserted: graphs whose uninhabited types are not required by the root; which of several problems of one graph is reported first. Known finding: multi-hop required recursion is accepted (pinned by the repository's own TestSchema_Example).",
   design="4/C09")

CHECKS["C03"] = dict(
   category="exploration", engine="B small-scope enumeration of type environments x root constructs x documents",
   technique="exhaustive enumeration of four construct families (type references/or, allOf, additionalProperties, key shortcuts) x all small documents against a three-valued set-semantics reference, plus union differential",
   text="All ordered pairs of user types from a 10-body pool plus a derived third type (alias, or, nullable alias, nullable or-alias) x 15 root constructs (also rule-sets with nullable next to a type reference) x nullable x 6 positions x all documents <= 3 nodes (all arrays <= 3 elements for array positions); 9 allOf configurations x 4 additionalProperties settings x both configs x all 1024 objects over 5 keys; 13 additionalProperties settings x shapes x 150 objects; 5 key types x optionality x layouts x all objects with <= 3 members over 6 keys. The library verdict must equal the reference union/conjunction semantics and verdict(@A|@B) must equal verdict(@A) or verdict(@B). Nested extension: an extending object owning (directly, as array item, two levels down, through a user type or an heir) a property whose object extends types itself, 5 inner bodies x 7 shapes x all member combinations. Document keys spelled like type names (@K) and examples holding a shortcut next to a property of the same spelling. Parents that declare additionalProperties themselves (directly and one level up) under every own setting of the heir. Nested-or family: every pair of 8 container bodies that hold unions themselves, as @A | @B, as property and as array item.",
   note="Trusted: ref/refv. Unspecified (counted in the evidence): cardinality/precedence of shortcut matches, presence of non-optional shortcut entries, rule-less key types, integer under additionalProperties float.",
   design="4/C03")

CHECKS["C15"] = dict(
   category="exploration", engine="B small-scope enumeration over the merged schema corpus (C01/C03/C04/C09 generators + hostile keys)",
   technique="exhaustive enumeration of all Check-accepted generated schemas; well-formedness by reference PDA + encoding/json, self-validation, compact-equality",
   text="Every Check-accepted case of the merged generators (all rule-free schemas <= 3/4 nodes in both configs, type-reference/or/allOf/additionalProperties/key-shortcut families, 34 rule slots x 13 contexts, all fully inhabited type graphs over 1-2 types (arrays with the reference first / last) and ring/diamond families with optional/array/terminating edges, the deep family of two types with every pair of slots per object body, hostile keys and strings with every control character): Example() must succeed, be well-formed JSON, be accepted by its own schema, and equal the compact example for plain-JSON schemas. C16's rule family as input (every kind of rule value). Big examples: objects of 20..1200 properties and arrays of as many items, followed by a small sibling, through a type, and twice in a row.",
   note="Trusted: reference PDA, encoding/json. Known finding (class decided by the check: a simulation of the documented cut-off policy itself yields a rejected example): recursion cut-off at required positions / first alternative gives self-rejected or empty examples.",
   design="4/C15")

CHECKS["C16"] = dict(
   category="exploration", engine="B small-scope enumeration over the merged schema corpus with an expected-AST model",
   technique="exhaustive enumeration of generated schemas; structural equality of GetAST with the AST computed from the generator's abstract schema",
   text="For every Check-accepted case of the merged generators plus an AST-specific family covering every rule name, notes, nested or/enum/allOf items, decimal/precision, value/key shortcuts with manual rules: the tree returned by GetAST (keys, shortcut flags, token kinds, literal values, schema types by the documented precedence, rules with names/values/order/nested items and manual/generated marks, notes) must equal the model tree, for the canonical spelling and for the same schema aligned with tabs; inherited allOf properties must be absent. Shortcuts that also carry a written or rule of JSON types are in the family (the synthesised type rule must stay marked generated). Or rules of bare type names (all 13) on examples of every JSON kind.",
   note="Trusted: ref/astmodel, whose naming conventions are calibrated on the pinned tree (the statement fixes what must be present, not the spelling of token types).",
   design="4/C16")

CHECKS["C13"] = dict(
   category="exploration", engine="B small-scope enumeration x full product of spelling dimensions (metamorphic)",
   technique="exhaustive product of 324 schema spellings + notes + rule permutations over generated accepted and rejected schemas; document re-spellings x property permutations x escape spellings; reference-free equality of verdicts and ASTs",
   text="Accepted and rejected schemas (rule slots x contexts x corruptions, construct families, rule sets on 10 node kinds, or rule-sets with every nested rule name, the AST family, every kind of rule value as first / last rule) are rendered in the full product of line end x indentation x user comments x annotation form x quoted/bare rule names x trailing comma (a # comment also follows inline annotations and notes), with notes added under the full product of line end x comments x annotation form, and in every rule order: Check's verdict, the AST with comments blanked and the verdict of 22 probe documents plus the example must equal the canonical spelling's. Probe documents are re-spelled (4 whitespace layouts x all property orders x plain / \\uXXXX / \\/ string spellings): the verdict must not change under any schema. Blanks inside annotations (tab, runs, none) after the opening mark, before the closing mark and as body indentation. Multi-byte words as values and keys under content-sensitive schemas in every mixed spelling (each character escaped alone, every prefix, every suffix).",
   note="Reference-free. Not generated: comments inside rule objects, blanks inside empty brackets.",
   design="4/C13")

CHECKS["C07"] = dict(
   category="exploration", engine="B exhaustive strings + bounded-deviation corpus edits + grammar-directed product + E construction-site enumeration; isolated memory-capped processes",
   technique="exhaustive enumeration of all short inputs, all 1-edit neighbours of a corpus and a grammar-directed product of hostile rule values through every public method; go/parser enumeration of every error construction site; process-level crash detection",
   text="Every string of <= 4 (thorough 5) symbols over a 26-symbol schema alphabet in each role (schema, user type under 7 usages: alias, property, item, key shortcut, allOf parent, type rule, or rule; enum rule, regex type, document in 2 modes and under 4 schemas) through every public method on fresh objects and in sequence; every truncation and every single-byte deletion, insertion and substitution at every offset of all corpus files (repository testdata + generator outputs); a grammar-directed product of 7 examples x 21 rule names x 46 hostile rule values x 6 annotation positions (+ second rules in both orders), 140 type bodies over self/other/missing references, enum and regex bodies x 18 comment/literal tails; huge-exponent numerals, deep nesting and megabyte inputs in isolated processes under a 2.5 GB cap; every errors.Format call site and every template row executed. No call may panic, kill the process or hang; every error must expose ErrCode()+Message(), a Position() inside the source it names, and render without panicking. Several calls on ONE object (stream read to its first error, then Check / Len / NextLexeme; sequences on enums, regexes, schemas). Single-line texts of 300-500 bytes in every role (errors on lines longer than the rendered excerpt).",
   note="Not asserted: API misuse that is not input-driven. Defects that depend on map iteration order are found deterministically only by C11's map-order scenarios. Known findings: infinite-recursion error is a bare Errorf (text pinned by a repository test); huge exponents are expanded into memory (OOM).",
   design="4/C07")

CHECKS["C12"] = dict(
   category="model_checking", engine="C controlled scheduler (sync shim injected by go-build overlay) + race detector as per-execution monitor",
   technique="stateless model checking of the real library: exhaustive DFS over thread schedules with a preemption bound at every sync.Once/Mutex/RWMutex/Pool operation, plus exhaustive pool-answer deviations; sequential-result oracle and happens-before race monitor on every execution",
   text="60 closed scenarios (first use of an uncompiled shared schema by 2 threads for every pair of 7 operations and by 3 threads, 2 threads x 2 operations, 3 threads on a compiled schema, two roots sharing an added type, shared validation next to a private compile+Example, enum/regex first use, 2 and 3 goroutines each creating/compiling/using private schemas) are executed under a cooperative scheduler injected into the library by a build overlay; ALL interleavings with <= 2 preemptions (light 2-thread scenarios; 1 for scenarios containing a whole compilation or 3 threads; thorough +1) and ALL pool-answer deviations <= 2 are explored; in every execution every call must return its sequential result, every Once body must run once, no deadlock/livelock may occur and the race detector (which sees no happens-before edge from the scheduler's norace hand-off) must stay silent. S3b repeats S3 with a shared added type made of ruled literals only (none of the recorded S3 findings can cover it). S8: documents lacking required keys or holding unknown keys validated concurrently against a compiled shared schema.",
   note="Trusted: the shim scheduler (replay of a schedule is checked for divergence), the Go race detector. 2-3 goroutines, bounded preemptions. Known finding: roots sharing an added type that uses allOf corrupt it when compiled concurrently.",
   design="4/C12")

CHECKS["C11"] = dict(
   category="model_checking", engine="A/D exhaustive operation histories on live objects + environment-choice exploration (pool answers, map iteration orders) through the build overlay",
   technique="exhaustive enumeration of all operation histories up to depth 3/4 over a pool of live objects against fresh-object results with returned-value snapshots; exhaustive single (thorough: double) deviations of every sync.Pool answer and of every dynamic range-over-map order",
   text="All histories of <= 3 (thorough 4) operations from a 59-operation alphabet over live Schema/Document/Enum/Regex objects (incl. lexically broken schema and enum rule, an enum rule object shared with the schema that uses it, an embedded document with trailing text, Validate / NextLexeme on live document objects and Len/Check on consumed ones) (plus 12-fold repetitions and round-robins): every result must equal the fresh-object result and every value handed out must be unchanged at the end; for histories <= 2 every pool answer is additionally deviated (fresh / oldest object); ALL merges of the NextLexeme call sequences of two live documents must deliver each document's own events. The library is built through an overlay that rewrites every range-over-map into iteration over an explicitly ordered key list: for a corpus of scenarios (a fixed slice of the C03/C09 generators in quick, all in thorough; multi-shortcut objects, allOf chains, errors located inside added types and allOf parents) every single (thorough: pair of) dynamic iteration order deviation (descending, rotations) must leave verdict, code, position, file and renderability of errors, AST, example and used types unchanged; static sites never reached with two keys are reported as uncovered. A third alphabet: a type object that extends @base used alone (where every call fails) and through a schema that knows both. A fourth alphabet (schemas without an example next to loads that fail half-way) and a construction-path family: every case of C16's rule family and a sample of C03's built through five constructors (string, []byte, bytes.Bytes, FromFile on both) must give identical results. Twin comparison: the enum rule attached to a schema and the type object shared by two schemas against detached objects made from the same text, before and after each use.",
   note="Trusted: the overlay rewrite (sound: every produced order is a legal Go order). Message text is not compared. Consumed Document objects are not re-validated.",
   design="4/C11")

NOT_YET = {
}

# round 10 (see DESIGN 5.1)
ROUND10 = {
 "C02": " Numeral probes with point and exponent (mantissa digits and true fractional digits on either side of every precision bound).",
 "C03": " Undeclared values whose raw text looks like another kind, ends in an escaped backslash or quote, or is the empty string, under every additionalProperties setting.",
 "C09": " A worker reduces at most 24 violating cases and reports later ones as enumerated.",
 "C11": " Map-order scenarios with two erroneous added types whose names a non-total comparator would tie (letter case only, prefix, equal length, punctuation only, order flipping under case folding).",
 "C13": " Blank runs at every place inside the rule object (behind the brace, around colons, before commas and the closing brace) with bare and quoted rule names in the three annotation forms.",
 "C14": " All numeral spellings (sign, fraction, exponent) alone and nested; for cuts inside a number that has a complete prefix (1e, 1.): if Len answers n, the first n bytes must be one complete JSON text.",
 "C15": " Heirs family: two types extending one base (or one another) whose inherited node - nested object, body, two levels deep, array - holds every non-empty subset of optional references to the heirs and the base, 6 roots.",
 "C17": " (f) Check-time errors about a key: objects of 1..3 members with one key shortcut that cannot be a key (type integer / array / object / boolean / never added) at every member position, 3 nesting contexts, LF and CRLF: the error points at the first byte of that key.",
 "C18": " The empty string and a blank string among the enum literals and probes.",
}
for _k, _v in ROUND10.items():
    CHECKS[_k]["text"] += _v

def main():
    props = [json.loads(l) for l in open(os.path.join(V, "properties.jsonl"))]
    checks = []
    na = []
    for p in props:
        pid = p["id"]
        if pid in CHECKS:
            c = CHECKS[pid]
            checks.append({
                "property_id": pid,
                "quick_cmd": f"./check {pid} quick",
                "thorough_cmd": f"./check {pid} thorough",
                "evidence_file": f"/verif/evidence/{pid}.json",
                "replay_cmd_template": f"./check {pid} --replay {{path}}",
                "engine": c["engine"],
                "level_claimed": {"category": c["category"], "text": c["text"], "design_ref": "DESIGN.md section " + c["design"]},
                "level_note": c["note"],
                "technique": c["technique"],
            })
        else:
            na.append({"property_id": pid, "reason": NOT_YET.get(pid, "check not built yet in this round (planned in DESIGN.md; model checking applies)")})
    m = {
        "version": 1,
        "setup_cmd": "./setup.sh",
        "hooks": {
            "guard": "verif",
            "enable": "go build -tags verif (add-only tagged files in /repo: formats/json/verif_hooks.go, rules/enum/verif_hooks.go, notations/jschema/verifhooks/); the sync shim and range-over-map rewrites are NOT in /repo: they are go-build overlays generated at check time from the current working tree by engine/overlay",
            "baseline_off_cmd": "cd /repo && GOFLAGS=-mod=mod GOPROXY=off GOSUMDB=off go test -vet=off -count=1 ./...",
            "source_commits": ["8b39e17", "5d88732", "336a6be"],
            "add_only": True,
        },
        "engines": [
            {"name": "vcheck", "path": "/verif/engine", "serves_properties": sorted(CHECKS), "kind_free_text": "hand-written Go explorer: explicit-state BFS with canonical keys (A), small-scope exhaustive enumeration against reference models (B), controlled scheduler over a sync shim (C), environment-choice DFS (D); 16 worker processes"},
        ],
        "checks": checks,
        "not_applicable": na,
        "notes": "All checks rebuild the harness against /repo's working tree on every invocation (./check). Known findings: /verif/known_findings.json.",
    }
    json.dump(m, open(os.path.join(V, "MANIFEST.json"), "w"), indent=1)
    print("MANIFEST.json written:", len(checks), "checks,", len(na), "not_applicable")

main()
