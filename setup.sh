#!/bin/bash
# Offline setup: pre-build every harness variant so that checks start warm.
export GOFLAGS=-mod=mod GOPROXY=off GOSUMDB=off GOTOOLCHAIN=local
cd "$(dirname "$0")"
mkdir -p .build evidence replays
cd engine && cp /repo/go.sum ./go.sum
go build -tags verif -o ../.build/vcheck-plain ./cmd/vcheck || exit 1
for v in variants/build-*.sh; do
  [ -x "$v" ] || continue
  n=$(basename "$v" .sh); n=${n#build-}
  "$v" verif "$(cd .. && pwd)/.build/vcheck-$n" || exit 1
done
echo setup ok
