package gen

import (
	stdjson "encoding/json"
	"fmt"
	"strings"
)

// JV is a JSON document value. Scalars keep their literal text.
type JV struct {
	Kind Kind     `json:"-"` // KInt..KArr (KInt for integral numerals without '.', 'e'; KFloat otherwise)
	Lit  string   `json:"lit,omitempty"`
	Mem  []Member `json:"mem,omitempty"`
	Arr  []*JV    `json:"arr,omitempty"`
}

type Member struct {
	Key string `json:"key"` // decoded
	Val *JV    `json:"val"`
}

func JInt(l string) *JV    { return &JV{Kind: KInt, Lit: l} }
func JFloat(l string) *JV  { return &JV{Kind: KFloat, Lit: l} }
func JStr(l string) *JV    { return &JV{Kind: KStr, Lit: l} } // with quotes
func JBool(l string) *JV   { return &JV{Kind: KBool, Lit: l} }
func JNull() *JV           { return &JV{Kind: KNull, Lit: "null"} }
func JObj(m ...Member) *JV { return &JV{Kind: KObj, Mem: m} }
func JArr(a ...*JV) *JV    { return &JV{Kind: KArr, Arr: a} }

func (v *JV) Size() int {
	s := 1
	for _, m := range v.Mem {
		s += m.Val.Size()
	}
	for _, a := range v.Arr {
		s += a.Size()
	}
	return s
}

// Compact renders the value as compact JSON.
func (v *JV) Compact() string {
	var b strings.Builder
	v.write(&b)
	return b.String()
}

// CompactKeys renders the value as compact JSON with every object key spelled by spell (which receives the
// decoded key and returns the quoted JSON string to write).
func (v *JV) CompactKeys(spell func(key string) string) string {
	var b strings.Builder
	v.writeKeys(&b, spell)
	return b.String()
}

// HasKeys reports whether the value holds an object member anywhere.
func (v *JV) HasKeys() bool {
	if v.Kind == KObj && len(v.Mem) > 0 {
		return true
	}
	for _, m := range v.Mem {
		if m.Val.HasKeys() {
			return true
		}
	}
	for _, a := range v.Arr {
		if a.HasKeys() {
			return true
		}
	}
	return false
}

// EscapedKey spells a key with its first character as a \uXXXX escape (keys of ASCII letters, digits and
// punctuation; other keys are written plainly).
func EscapedKey(key string) string {
	if key == "" || key[0] < 0x20 || key[0] >= 0x7f {
		return QuoteJSON(key)
	}
	rest := QuoteJSON(key[1:])
	return fmt.Sprintf("\"\\u%04x%s", key[0], rest[1:])
}

func (v *JV) writeKeys(b *strings.Builder, spell func(string) string) {
	switch v.Kind {
	case KObj:
		b.WriteString("{")
		for i, m := range v.Mem {
			if i > 0 {
				b.WriteString(",")
			}
			b.WriteString(spell(m.Key) + ":")
			m.Val.writeKeys(b, spell)
		}
		b.WriteString("}")
	case KArr:
		b.WriteString("[")
		for i, a := range v.Arr {
			if i > 0 {
				b.WriteString(",")
			}
			a.writeKeys(b, spell)
		}
		b.WriteString("]")
	default:
		b.WriteString(v.Lit)
	}
}

func (v *JV) write(b *strings.Builder) {
	switch v.Kind {
	case KObj:
		b.WriteString("{")
		for i, m := range v.Mem {
			if i > 0 {
				b.WriteString(",")
			}
			b.WriteString(QuoteJSON(m.Key) + ":")
			m.Val.write(b)
		}
		b.WriteString("}")
	case KArr:
		b.WriteString("[")
		for i, a := range v.Arr {
			if i > 0 {
				b.WriteString(",")
			}
			a.write(b)
		}
		b.WriteString("]")
	default:
		b.WriteString(v.Lit)
	}
}

// StrValue decodes a string literal.
func StrValue(lit string) string {
	var s string
	if err := stdjson.Unmarshal([]byte(lit), &s); err != nil {
		return lit
	}
	return s
}

// HasDupKeys reports whether any object in v has duplicate keys.
func (v *JV) HasDupKeys() bool {
	seen := map[string]bool{}
	for _, m := range v.Mem {
		if seen[m.Key] {
			return true
		}
		seen[m.Key] = true
		if m.Val.HasDupKeys() {
			return true
		}
	}
	for _, a := range v.Arr {
		if a.HasDupKeys() {
			return true
		}
	}
	return false
}

// EnumDocs enumerates all documents with at most maxNodes nodes over the given
// scalars and keys (objects with distinct keys, every key order).
func EnumDocs(maxNodes int, scalars []*JV, keys []string, f func(*JV)) {
	for n := 1; n <= maxNodes; n++ {
		enumDocsN(n, scalars, keys, f)
	}
}

func enumDocsN(n int, scalars []*JV, keys []string, f func(*JV)) {
	if n == 1 {
		for _, s := range scalars {
			f(s)
		}
		f(JObj())
		f(JArr())
		return
	}
	// arrays: compositions of n-1 into k>=1 parts
	var arr func(rem int, cur []*JV)
	arr = func(rem int, cur []*JV) {
		if rem == 0 {
			f(JArr(append([]*JV{}, cur...)...))
			return
		}
		for s := 1; s <= rem; s++ {
			enumDocsN(s, scalars, keys, func(v *JV) {
				arr(rem-s, append(cur, v))
			})
		}
	}
	arr(n-1, nil)
	var obj func(rem int, cur []Member, used map[string]bool)
	obj = func(rem int, cur []Member, used map[string]bool) {
		if rem == 0 {
			f(JObj(append([]Member{}, cur...)...))
			return
		}
		for _, k := range keys {
			if used[k] {
				continue
			}
			used[k] = true
			for s := 1; s <= rem; s++ {
				enumDocsN(s, scalars, keys, func(v *JV) {
					obj(rem-s, append(cur, Member{k, v}), used)
				})
			}
			used[k] = false
		}
	}
	obj(n-1, nil, map[string]bool{})
}
