// Package gen holds the abstract schema language ("JS-core") used by all
// generators, its renderers (with byte offsets and spelling options), the JSON
// document values and their enumerators.
package gen

import (
	"fmt"
	"strings"
)

type Kind int

const (
	KInt Kind = iota
	KFloat
	KStr
	KBool
	KNull
	KObj
	KArr
	KRef // value shortcut: @A or @A | @B
)

func (k Kind) String() string {
	return [...]string{"integer", "float", "string", "boolean", "null", "object", "array", "ref"}[k]
}

// RuleItem is one element of a list-valued rule (or / enum / allOf).
type RuleItem struct {
	Lit string `json:"lit,omitempty"` // literal text: "@T", "integer", 1, "a" ...
	Set []Rule `json:"set,omitempty"` // {type: "...", min: 0}
}

// Rule is one rule of an annotation, in source order.
type Rule struct {
	Name  string     `json:"name"`
	Val   string     `json:"val,omitempty"`   // raw text for scalar-valued rules
	Items []RuleItem `json:"items,omitempty"` // list-valued rules
	List  bool       `json:"list,omitempty"`  // value is a list (even if empty)
}

func (r Rule) ValText() string { return r.valText(false) }

func (r Rule) valText(quoteNames bool) string {
	if !r.List {
		return r.Val
	}
	var parts []string
	for _, it := range r.Items {
		if it.Set != nil {
			parts = append(parts, "{"+rulesText(it.Set, quoteNames, false)+"}")
		} else {
			parts = append(parts, it.Lit)
		}
	}
	return "[" + strings.Join(parts, ", ") + "]"
}

func rulesText(rs []Rule, quoteNames, trailingComma bool) string {
	var parts []string
	for _, r := range rs {
		n := r.Name
		if quoteNames {
			n = `"` + n + `"`
		}
		parts = append(parts, n+": "+r.valText(quoteNames))
	}
	s := strings.Join(parts, ", ")
	if trailingComma && len(parts) > 0 {
		s += ","
	}
	return s
}

// rulesTextGap is rulesText with the blank run gap written at every place of the
// top-level rule object where insignificant blanks may stand: behind the opening
// brace, between a rule name and its colon, between the colon and the value (in
// place of the single space), in front of every comma and of the closing brace.
func rulesTextGap(rs []Rule, quoteNames, trailingComma bool, gap string) string {
	if gap == "" {
		return rulesText(rs, quoteNames, trailingComma)
	}
	var parts []string
	for _, r := range rs {
		n := r.Name
		if quoteNames {
			n = `"` + n + `"`
		}
		before := gap
		if !quoteNames {
			// a bare rule name ends at a space or at the colon; the language refuses a tab right
			// behind it with a structured error (not a re-spelling): spaces only at this place
			before = strings.ReplaceAll(gap, "\t", " ")
		}
		parts = append(parts, n+before+":"+gap+r.valText(quoteNames))
	}
	s := gap + strings.Join(parts, gap+", ")
	if trailingComma && len(parts) > 0 {
		s += gap + ","
	}
	return s + gap
}

// Prop is an object property of the example.
type Prop struct {
	Key      string `json:"key"` // decoded key text, or @K for a shortcut
	Shortcut bool   `json:"shortcut,omitempty"`
	Val      *Node  `json:"val"`
}

// Node is one example value with its rules.
type Node struct {
	Kind  Kind    `json:"kind"`
	Lit   string  `json:"lit,omitempty"` // scalars: literal as written; KRef: "@A | @B"
	Props []Prop  `json:"props,omitempty"`
	Items []*Node `json:"items,omitempty"`
	Rules []Rule  `json:"rules,omitempty"`
	Note  string  `json:"note,omitempty"`
}

func (n *Node) Rule(name string) *Rule {
	for i := range n.Rules {
		if n.Rules[i].Name == name {
			return &n.Rules[i]
		}
	}
	return nil
}

func (n *Node) HasTrue(name string) bool {
	r := n.Rule(name)
	return r != nil && r.Val == "true"
}

// Clone deep-copies a node.
func (n *Node) Clone() *Node {
	if n == nil {
		return nil
	}
	c := *n
	c.Rules = cloneRules(n.Rules)
	c.Props = nil
	for _, p := range n.Props {
		c.Props = append(c.Props, Prop{p.Key, p.Shortcut, p.Val.Clone()})
	}
	c.Items = nil
	for _, it := range n.Items {
		c.Items = append(c.Items, it.Clone())
	}
	return &c
}

func cloneRules(rs []Rule) []Rule {
	if rs == nil {
		return nil
	}
	out := make([]Rule, len(rs))
	for i, r := range rs {
		out[i] = r
		if r.Items != nil {
			out[i].Items = make([]RuleItem, len(r.Items))
			for j, it := range r.Items {
				out[i].Items[j] = RuleItem{Lit: it.Lit, Set: cloneRules(it.Set)}
			}
		}
	}
	return out
}

// Size is the number of example nodes.
func (n *Node) Size() int {
	s := 1
	for _, p := range n.Props {
		s += p.Val.Size()
	}
	for _, it := range n.Items {
		s += it.Size()
	}
	return s
}

// Walk visits all nodes in source order.
func (n *Node) Walk(f func(*Node)) {
	f(n)
	for _, p := range n.Props {
		p.Val.Walk(f)
	}
	for _, it := range n.Items {
		it.Walk(f)
	}
}

// Scalar constructors.
func Int(lit string) *Node   { return &Node{Kind: KInt, Lit: lit} }
func Float(lit string) *Node { return &Node{Kind: KFloat, Lit: lit} }
func Str(lit string) *Node   { return &Node{Kind: KStr, Lit: lit} } // lit includes quotes
func Bool(lit string) *Node  { return &Node{Kind: KBool, Lit: lit} }
func Null() *Node            { return &Node{Kind: KNull, Lit: "null"} }
func Obj(ps ...Prop) *Node   { return &Node{Kind: KObj, Props: ps} }
func Arr(it ...*Node) *Node  { return &Node{Kind: KArr, Items: it} }
func Ref(names ...string) *Node {
	return &Node{Kind: KRef, Lit: strings.Join(names, " | ")}
}
func P(key string, v *Node) Prop  { return Prop{Key: key, Val: v} }
func PS(key string, v *Node) Prop { return Prop{Key: key, Shortcut: true, Val: v} }

func (n *Node) With(rs ...Rule) *Node {
	n.Rules = append(n.Rules, rs...)
	return n
}

func R(name, val string) Rule { return Rule{Name: name, Val: val} }
func RL(name string, items ...RuleItem) Rule {
	return Rule{Name: name, Items: items, List: true}
}

// Spelling options of the renderer (C13).
type Spelling struct {
	EOL          string // "\n", "\r\n", "\r"
	Indent       string // "", "  ", "\t"
	Comments     int    // 0 none, 1 "# c" at line ends, 2 "###" block on own lines
	MultiLine    int    // 0 inline "// {..}", 1 "/* {..} */" on one line, 2 spanning 3 lines
	QuoteNames   bool
	TrailComma   bool
	NoteOnlyForm bool // when a node has a note and no rules: "// note"
	Compact      bool // render without line breaks where no annotation is present
	// Blank, when not "", replaces the single space the renderer writes in front
	// of an annotation or comment, and is ALSO written between a value and the
	// comma behind it and at the end of a line that has no annotation
	// (alignment with tabs, trailing blanks).
	Blank string
	// Inner, when not "", is the blank INSIDE annotations: between the opening mark (// or /*) and the
	// rule object or note, in front of the closing */, and as the indentation of the body line of the
	// three-line form. "-" stands for no blank at all. Default: one space (none in the three-line form).
	Inner string `json:",omitempty"`
	// RuleGap, when not "", is a run of blanks written at every place INSIDE the rule object where
	// insignificant blanks may stand (behind "{", around every colon, in front of commas and of "}").
	RuleGap string `json:",omitempty"`
}

var Canonical = Spelling{EOL: "\n", Indent: "  "}

// Rendered is the result of rendering a schema.
type Rendered struct {
	Text   string
	ValOff map[*Node]int // byte offset of the first byte of each example value
	KeyOff map[*Node]int // byte offset of the key (opening quote or @) of a property's value node
}

type renderer struct {
	sp  Spelling
	b   strings.Builder
	out Rendered
}

// Render renders the schema with one annotatable node per annotated line.
func Render(root *Node, sp Spelling) Rendered {
	if sp.EOL == "" {
		sp.EOL = "\n"
	}
	r := &renderer{sp: sp}
	r.out.ValOff = map[*Node]int{}
	r.out.KeyOff = map[*Node]int{}
	if sp.Comments == 2 {
		r.b.WriteString("###" + sp.EOL + "block comment" + sp.EOL + "###" + sp.EOL)
	}
	r.value(root, 0, "")
	if sp.Comments == 2 {
		r.b.WriteString(sp.EOL + "###" + sp.EOL + "tail" + sp.EOL + "###")
	}
	r.out.Text = r.b.String()
	return r.out
}

func (r *renderer) indent(d int) string { return strings.Repeat(r.sp.Indent, d) }

// annotation returns the annotation text for a node ("" if none), starting
// with a space.
func (r *renderer) annotation(n *Node) string {
	if len(n.Rules) == 0 && n.Note == "" {
		if r.sp.Comments == 1 {
			return r.blank() + "# c"
		}
		return r.sp.Blank // trailing blank at the end of the line
	}
	var body string
	if len(n.Rules) > 0 {
		body = "{" + rulesTextGap(n.Rules, r.sp.QuoteNames, r.sp.TrailComma, r.sp.RuleGap) + "}"
		if n.Note != "" {
			body += " - " + n.Note
		}
	} else {
		body = n.Note
	}
	in, inOwn := " ", ""
	switch r.sp.Inner {
	case "":
	case "-":
		in, inOwn = "", ""
	default:
		in, inOwn = r.sp.Inner, r.sp.Inner
	}
	var s string
	switch r.sp.MultiLine {
	case 0:
		s = r.blank() + "//" + in + body
	case 1:
		s = r.blank() + "/*" + in + body + in + "*/"
	default:
		s = r.blank() + "/*" + r.sp.EOL + inOwn + body + r.sp.EOL + inOwn + "*/"
	}
	if r.sp.Comments == 1 {
		// a user comment may follow an annotation of either form (after an inline
		// one it ends the rule object / the note text)
		s += r.blank() + "# c"
	}
	return s
}

// blank is the separator in front of an annotation or comment.
func (r *renderer) blank() string {
	if r.sp.Blank != "" {
		return r.sp.Blank
	}
	return " "
}

// comma is the tail behind a value (with the alignment blank in front of it).
func (r *renderer) comma(tail string) string {
	if tail == "" {
		return ""
	}
	return r.sp.Blank + tail
}

func keyText(p Prop) string {
	if p.Shortcut {
		return p.Key
	}
	return QuoteJSON(p.Key)
}

// value writes the node; tail is what follows the value on its line before the
// annotation (a comma or nothing).
func (r *renderer) value(n *Node, depth int, tail string) {
	r.out.ValOff[n] = r.b.Len()
	switch n.Kind {
	case KObj:
		if len(n.Props) == 0 {
			r.b.WriteString("{}" + r.comma(tail) + r.annotation(n))
			return
		}
		r.b.WriteString("{" + r.annotation(n) + r.sp.EOL)
		for i, p := range n.Props {
			r.b.WriteString(r.indent(depth + 1))
			r.out.KeyOff[p.Val] = r.b.Len()
			r.b.WriteString(keyText(p) + ": ")
			t := ","
			if i == len(n.Props)-1 {
				t = ""
			}
			r.value(p.Val, depth+1, t)
			r.b.WriteString(r.sp.EOL)
		}
		r.b.WriteString(r.indent(depth) + "}" + tail)
	case KArr:
		if len(n.Items) == 0 {
			r.b.WriteString("[]" + r.comma(tail) + r.annotation(n))
			return
		}
		r.b.WriteString("[" + r.annotation(n) + r.sp.EOL)
		for i, it := range n.Items {
			r.b.WriteString(r.indent(depth + 1))
			t := ","
			if i == len(n.Items)-1 {
				t = ""
			}
			r.value(it, depth+1, t)
			r.b.WriteString(r.sp.EOL)
		}
		r.b.WriteString(r.indent(depth) + "]" + tail)
	default:
		r.b.WriteString(n.Lit + r.comma(tail) + r.annotation(n))
	}
}

// QuoteJSON renders a decoded string as a JSON string literal (minimal escapes).
func QuoteJSON(s string) string {
	var b strings.Builder
	b.WriteByte('"')
	for i := 0; i < len(s); i++ {
		c := s[i]
		switch {
		case c == '"':
			b.WriteString(`\"`)
		case c == '\\':
			b.WriteString(`\\`)
		case c == '\n':
			b.WriteString(`\n`)
		case c == '\r':
			b.WriteString(`\r`)
		case c == '\t':
			b.WriteString(`\t`)
		case c < 0x20:
			fmt.Fprintf(&b, `\u%04x`, c)
		default:
			b.WriteByte(c)
		}
	}
	b.WriteByte('"')
	return b.String()
}

// ExampleJSON renders the example as compact JSON (rules dropped). ok is false
// if the example is not plain JSON (contains shortcuts).
func ExampleJSON(n *Node) (string, bool) {
	var b strings.Builder
	ok := exampleJSON(n, &b)
	return b.String(), ok
}

func exampleJSON(n *Node, b *strings.Builder) bool {
	switch n.Kind {
	case KRef:
		return false
	case KObj:
		b.WriteString("{")
		for i, p := range n.Props {
			if p.Shortcut {
				return false
			}
			if i > 0 {
				b.WriteString(",")
			}
			b.WriteString(QuoteJSON(p.Key) + ":")
			if !exampleJSON(p.Val, b) {
				return false
			}
		}
		b.WriteString("}")
	case KArr:
		b.WriteString("[")
		for i, it := range n.Items {
			if i > 0 {
				b.WriteString(",")
			}
			if !exampleJSON(it, b) {
				return false
			}
		}
		b.WriteString("]")
	default:
		b.WriteString(n.Lit)
	}
	return true
}
