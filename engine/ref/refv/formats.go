package refv

import (
	"regexp"
	"strconv"
)

var (
	dateRE     = regexp.MustCompile(`^(\d{4})-(\d{2})-(\d{2})$`)
	uuidRE     = regexp.MustCompile(`^[0-9a-fA-F]{8}-[0-9a-fA-F]{4}-[0-9a-fA-F]{4}-[0-9a-fA-F]{4}-[0-9a-fA-F]{12}$`)
	datetimeRE = regexp.MustCompile(`^(\d{4})-(\d{2})-(\d{2})T(\d{2}):(\d{2}):(\d{2})(\.\d+)?(Z|[+-](\d{2}):(\d{2}))$`)
	hexish     = regexp.MustCompile(`^[0-9a-fA-F-]*$`)
	hex32      = regexp.MustCompile(`^[0-9a-fA-F]{32}$`)
)

func daysIn(y, m int) int {
	switch m {
	case 1, 3, 5, 7, 8, 10, 12:
		return 31
	case 4, 6, 9, 11:
		return 30
	case 2:
		if (y%4 == 0 && y%100 != 0) || y%400 == 0 {
			return 29
		}
		return 28
	}
	return 0
}

func validDate(ys, ms, ds string) bool {
	y, _ := strconv.Atoi(ys)
	m, _ := strconv.Atoi(ms)
	d, _ := strconv.Atoi(ds)
	return m >= 1 && m <= 12 && d >= 1 && d <= daysIn(y, m)
}

// formatOK is deliberately partial: Accept/Reject only on unambiguous inputs.
func formatOK(name, s string) Verdict {
	switch name {
	case "date":
		m := dateRE.FindStringSubmatch(s)
		if m == nil {
			return Reject
		}
		if m[1] == "0000" {
			return Unspecified
		}
		return fromBool(validDate(m[1], m[2], m[3]))
	case "datetime":
		m := datetimeRE.FindStringSubmatch(s)
		if m == nil {
			// lowercase t/z, missing zone etc: only clearly malformed shapes are rejected
			if len(s) < 20 || s[4] != '-' || s[7] != '-' {
				return Reject
			}
			return Unspecified
		}
		if m[1] == "0000" || !validDate(m[1], m[2], m[3]) {
			if m[1] == "0000" {
				return Unspecified
			}
			return Reject
		}
		hh, _ := strconv.Atoi(m[4])
		mi, _ := strconv.Atoi(m[5])
		ss, _ := strconv.Atoi(m[6])
		if hh > 23 || mi > 59 {
			return Reject
		}
		if ss == 60 {
			return Unspecified
		}
		if ss > 60 {
			return Reject
		}
		if m[9] != "" {
			zh, _ := strconv.Atoi(m[9])
			zm, _ := strconv.Atoi(m[10])
			if zh > 23 || zm > 59 {
				// zone-offset range checks are the Go standard library's (they
				// changed between Go releases): treated as environment
				return Unspecified
			}
		}
		return Accept
	case "uuid":
		if uuidRE.MatchString(s) {
			return Accept
		}
		// well-known alternative spellings: whether they are admitted is not fixed
		if len(s) == 38 && s[0] == '{' && s[37] == '}' && uuidRE.MatchString(s[1:37]) {
			return Unspecified
		}
		if len(s) == 45 && (s[:9] == "urn:uuid:" || s[:9] == "URN:UUID:") && uuidRE.MatchString(s[9:]) {
			return Unspecified
		}
		if len(s) == 32 && hex32.MatchString(s) {
			return Unspecified
		}
		return Reject
	}
	return Unspecified // email, uri: curated probes decide in the check itself
}
