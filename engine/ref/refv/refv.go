// Package refv is the reference validator: the set semantics of C01, C02 and
// C03 written from the property statements. Three-valued: where the
// statements do not decide a case the verdict is Unspecified.
package refv

import (
	"regexp"
	"strconv"
	"strings"

	"verif/gen"
	"verif/ref/decimal"
)

type Verdict int

const (
	Reject Verdict = iota
	Accept
	Unspecified
)

func (v Verdict) String() string { return [...]string{"reject", "accept", "unspecified"}[v] }

// Env is the type environment of a schema.
type Env struct {
	Types             map[string]*gen.Node // user types (@name -> body)
	Enums             map[string][]string  // enum rules (@name -> literals)
	OptionalByDefault bool
}

func or(a, b Verdict) Verdict {
	if a == Accept || b == Accept {
		return Accept
	}
	if a == Unspecified || b == Unspecified {
		return Unspecified
	}
	return Reject
}

func and(a, b Verdict) Verdict {
	if a == Reject || b == Reject {
		return Reject
	}
	if a == Unspecified || b == Unspecified {
		return Unspecified
	}
	return Accept
}

func fromBool(b bool) Verdict {
	if b {
		return Accept
	}
	return Reject
}

type ctx struct {
	env   *Env
	depth int
}

// Accepts: does the schema position n accept the document value d?
func Accepts(env *Env, n *gen.Node, d *gen.JV) Verdict {
	c := &ctx{env: env}
	return c.node(n, d)
}

var jsonTypeNames = map[string]bool{"integer": true, "float": true, "string": true, "boolean": true, "null": true, "object": true, "array": true}
var formatNames = map[string]bool{"email": true, "uri": true, "uuid": true, "date": true, "datetime": true}

func unq(s string) string {
	if len(s) >= 2 && s[0] == '"' && s[len(s)-1] == '"' {
		return gen.StrValue(s)
	}
	return s
}

func isNull(d *gen.JV) bool { return d.Kind == gen.KNull }

func (c *ctx) node(n *gen.Node, d *gen.JV) Verdict {
	c.depth++
	defer func() { c.depth-- }()
	if c.depth > 64 {
		return Unspecified
	}
	// nullable:true admits null whatever other rules are present
	if n.HasTrue("nullable") && isNull(d) {
		return Accept
	}
	// alternatives named by the position
	var alts []func(*gen.JV) Verdict
	hasAlts := false
	if n.Kind == gen.KRef {
		hasAlts = true
		for _, name := range strings.Split(n.Lit, "|") {
			name := strings.TrimSpace(name)
			alts = append(alts, func(d *gen.JV) Verdict { return c.typeRef(name, d) })
		}
	}
	if t := n.Rule("type"); t != nil {
		tv := unq(t.Val)
		switch {
		case strings.HasPrefix(tv, "@"):
			hasAlts = true
			alts = append(alts, func(d *gen.JV) Verdict { return c.typeRef(tv, d) })
		case tv == "any":
			return Accept
		}
	}
	if o := n.Rule("or"); o != nil {
		hasAlts = true
		for _, it := range o.Items {
			it := it
			alts = append(alts, func(d *gen.JV) Verdict { return c.orItem(it, d) })
		}
	}
	if hasAlts {
		v := Reject
		for _, a := range alts {
			v = or(v, a(d))
			if v == Accept {
				return Accept
			}
		}
		return v
	}
	switch n.Kind {
	case gen.KObj:
		return c.object(n, d)
	case gen.KArr:
		return c.array(n, d)
	}
	return c.scalar(n.Kind, n.Lit, n.Rules, d)
}

func (c *ctx) typeRef(name string, d *gen.JV) Verdict {
	t, ok := c.env.Types[name]
	if !ok {
		return Unspecified
	}
	return c.node(t, d)
}

// orItem: "@T", "integer", {type: "...", rules...}
func (c *ctx) orItem(it gen.RuleItem, d *gen.JV) Verdict {
	if it.Set == nil {
		name := unq(it.Lit)
		if strings.HasPrefix(name, "@") {
			return c.typeRef(name, d)
		}
		return c.byTypeName(name, nil, d)
	}
	// rule-set
	var tname string
	var rest []gen.Rule
	for _, r := range it.Set {
		if r.Name == "type" {
			tname = unq(r.Val)
		} else {
			rest = append(rest, r)
		}
	}
	if strings.HasPrefix(tname, "@") {
		// next to a type reference only nullable is decided by the statement
		// ("plus null when nullable:true"); other rules there are not
		for _, r := range rest {
			if r.Name != "nullable" {
				return Unspecified
			}
			if r.Val == "true" && isNull(d) {
				return Accept
			}
		}
		return c.typeRef(tname, d)
	}
	if tname == "" {
		// type inferred from the rules
		for _, r := range rest {
			switch r.Name {
			case "min", "max", "exclusiveMinimum", "exclusiveMaximum":
				tname = "float"
			case "precision":
				tname = "decimal"
			case "minLength", "maxLength", "regex":
				tname = "string"
			case "minItems", "maxItems":
				tname = "array"
			case "additionalProperties":
				tname = "object"
			case "enum":
				tname = "enum"
			}
		}
		if tname == "" {
			return Unspecified
		}
		if tname == "float" {
			// could be integer or float: statement does not fix the inference
			return Unspecified
		}
	}
	return c.byTypeName(tname, rest, d)
}

// byTypeName: an inline alternative given by a JSON/schema type name and rules.
func (c *ctx) byTypeName(name string, rules []gen.Rule, d *gen.JV) Verdict {
	for _, r := range rules {
		if r.Name == "nullable" && r.Val == "true" && isNull(d) {
			return Accept
		}
	}
	switch name {
	case "any":
		return Accept
	case "integer":
		return c.scalar(gen.KInt, "", rules, d)
	case "float":
		return c.scalar(gen.KFloat, "", rules, d)
	case "decimal":
		return c.scalar(gen.KFloat, "", rules, d)
	case "string":
		return c.scalar(gen.KStr, "", rules, d)
	case "boolean":
		return c.scalar(gen.KBool, "", rules, d)
	case "null":
		return c.scalar(gen.KNull, "", rules, d)
	case "email", "uri", "uuid", "date", "datetime":
		return c.scalar(gen.KStr, "", append([]gen.Rule{{Name: "type", Val: `"` + name + `"`}}, rules...), d)
	case "enum":
		return c.scalar(gen.KStr, "", append([]gen.Rule{{Name: "type", Val: `"enum"`}}, rules...), d)
	case "object":
		if d.Kind != gen.KObj {
			return Reject
		}
		if len(rules) == 0 {
			// a bare "object" alternative: the statements say "one JSON kind"; which
			// objects beyond the empty one is not fixed for or-items
			if len(d.Mem) == 0 {
				return Accept
			}
			return Unspecified
		}
		return Unspecified
	case "array":
		if d.Kind != gen.KArr {
			return Reject
		}
		if len(rules) == 0 {
			if len(d.Arr) == 0 {
				return Accept
			}
			return Unspecified
		}
		return Unspecified
	}
	return Unspecified
}

func numKind(d *gen.JV) bool { return d.Kind == gen.KInt || d.Kind == gen.KFloat }

// scalar: a scalar example of the given kind carrying rules.
func (c *ctx) scalar(kind gen.Kind, exampleLit string, rules []gen.Rule, d *gen.JV) Verdict {
	get := func(name string) *gen.Rule {
		for i := range rules {
			if rules[i].Name == name {
				return &rules[i]
			}
		}
		return nil
	}
	isTrue := func(name string) bool { r := get(name); return r != nil && r.Val == "true" }
	if isTrue("nullable") && isNull(d) {
		return Accept
	}
	tname := ""
	if t := get("type"); t != nil {
		tname = unq(t.Val)
	}
	if tname == "any" {
		return Accept
	}
	// enum decides alone (type-sensitive membership)
	if e := get("enum"); e != nil {
		var lits []string
		if !e.List {
			name := strings.TrimSpace(e.Val)
			l, ok := c.env.Enums[name]
			if !ok {
				return Unspecified
			}
			lits = l
		} else {
			for _, it := range e.Items {
				lits = append(lits, it.Lit)
			}
		}
		if d.Kind == gen.KObj || d.Kind == gen.KArr {
			return Reject
		}
		v := Reject
		for _, l := range lits {
			v = or(v, sameScalar(l, d))
		}
		if v == Accept && isTrue("const") && exampleLit != "" {
			return and(v, sameScalar(exampleLit, d))
		}
		return v
	}
	// admissible kind
	switch tname {
	case "integer":
		kind = gen.KInt
	case "float", "decimal":
		kind = gen.KFloat
	case "string", "email", "uri", "uuid", "date", "datetime":
		kind = gen.KStr
	case "boolean":
		kind = gen.KBool
	case "null":
		kind = gen.KNull
	case "":
	default:
		return Unspecified
	}
	if d.Kind == gen.KObj || d.Kind == gen.KArr {
		return Reject
	}
	switch kind {
	case gen.KInt:
		if !numKind(d) {
			return Reject
		}
		dv, ok := decimal.Parse(d.Lit)
		if !ok {
			return Unspecified
		}
		if !dv.IsIntegral() {
			return Reject
		}
		if strings.Contains(d.Lit, ".") && !strings.ContainsAny(d.Lit, "eE") {
			return Unspecified // 1.0 where an integer is expected
		}
	case gen.KFloat:
		if !numKind(d) {
			return Reject
		}
	case gen.KStr:
		if d.Kind != gen.KStr {
			return Reject
		}
	case gen.KBool:
		if d.Kind != gen.KBool {
			return Reject
		}
	case gen.KNull:
		if d.Kind != gen.KNull {
			return Reject
		}
	default:
		return Unspecified
	}
	v := Accept
	for _, r := range rules {
		v = and(v, c.rule(r, rules, kind, exampleLit, d))
		if v == Reject {
			return Reject
		}
	}
	if formatNames[tname] {
		v = and(v, formatOK(tname, gen.StrValue(d.Lit)))
	}
	return v
}

// sameScalar: type-sensitive equality of a schema literal and a document scalar.
func sameScalar(lit string, d *gen.JV) Verdict {
	lit = strings.TrimSpace(lit)
	switch {
	case strings.HasPrefix(lit, `"`):
		if d.Kind != gen.KStr {
			return Reject
		}
		return fromBool(gen.StrValue(lit) == gen.StrValue(d.Lit))
	case lit == "true" || lit == "false":
		return fromBool(d.Kind == gen.KBool && d.Lit == lit)
	case lit == "null":
		return fromBool(d.Kind == gen.KNull)
	}
	if !numKind(d) {
		return Reject
	}
	if lit == d.Lit {
		return Accept
	}
	a, ok1 := decimal.Parse(lit)
	b, ok2 := decimal.Parse(d.Lit)
	if !ok1 || !ok2 {
		return Unspecified
	}
	if a.Cmp(b) != 0 {
		return Reject
	}
	return Unspecified // same value, different spelling
}

func (c *ctx) rule(r gen.Rule, all []gen.Rule, kind gen.Kind, exampleLit string, d *gen.JV) Verdict {
	isTrue := func(name string) bool {
		for _, x := range all {
			if x.Name == name && x.Val == "true" {
				return true
			}
		}
		return false
	}
	switch r.Name {
	case "min", "max":
		b, ok := decimal.Parse(r.Val)
		dv, ok2 := decimal.Parse(d.Lit)
		if !ok || !ok2 {
			return Unspecified
		}
		cmp := dv.Cmp(b)
		if r.Name == "min" {
			if isTrue("exclusiveMinimum") {
				return fromBool(cmp > 0)
			}
			return fromBool(cmp >= 0)
		}
		if isTrue("exclusiveMaximum") {
			return fromBool(cmp < 0)
		}
		return fromBool(cmp <= 0)
	case "precision":
		p, err := strconv.Atoi(r.Val)
		dv, ok := decimal.Parse(d.Lit)
		if err != nil || !ok {
			return Unspecified
		}
		return fromBool(dv.FracLen() <= p)
	case "minLength", "maxLength":
		n, err := strconv.Atoi(r.Val)
		if err != nil {
			return Unspecified
		}
		s := gen.StrValue(d.Lit)
		for i := 0; i < len(s); i++ {
			if s[i] >= 0x80 {
				return Unspecified // bytes vs code points
			}
		}
		if r.Name == "minLength" {
			return fromBool(len(s) >= n)
		}
		return fromBool(len(s) <= n)
	case "regex":
		re, err := regexp.Compile(gen.StrValue(r.Val))
		if err != nil {
			return Unspecified
		}
		return fromBool(re.MatchString(gen.StrValue(d.Lit)))
	case "const":
		if r.Val != "true" {
			return Accept
		}
		if exampleLit == "" {
			return Unspecified
		}
		if exampleLit == d.Lit {
			return Accept
		}
		return sameScalar(exampleLit, d) // different spelling of the same value: unspecified
	case "exclusiveMinimum", "exclusiveMaximum", "nullable", "optional", "type", "enum":
		return Accept
	}
	return Unspecified
}

func (c *ctx) array(n *gen.Node, d *gen.JV) Verdict {
	if d.Kind != gen.KArr {
		return Reject
	}
	v := Accept
	for _, r := range n.Rules {
		switch r.Name {
		case "minItems", "maxItems":
			k, err := strconv.Atoi(r.Val)
			if err != nil {
				return Unspecified
			}
			if r.Name == "minItems" {
				v = and(v, fromBool(len(d.Arr) >= k))
			} else {
				v = and(v, fromBool(len(d.Arr) <= k))
			}
		case "nullable", "optional", "type":
		default:
			v = and(v, Unspecified)
		}
	}
	if v == Reject {
		return Reject
	}
	if len(n.Items) == 0 {
		return and(v, fromBool(len(d.Arr) == 0))
	}
	for i, e := range d.Arr {
		j := i
		if j >= len(n.Items) {
			j = len(n.Items) - 1
		}
		v = and(v, c.node(n.Items[j], e))
		if v == Reject {
			return Reject
		}
	}
	return v
}

// property requirement after allOf flattening
type propReq struct {
	p        gen.Prop
	optional bool
}

func (c *ctx) isOptional(v *gen.Node) bool {
	if r := v.Rule("optional"); r != nil {
		return r.Val == "true"
	}
	return c.env.OptionalByDefault
}

// collectProps returns the object's own and transitively inherited properties.
func (c *ctx) collectProps(n *gen.Node, seen map[string]bool) ([]propReq, Verdict) {
	var out []propReq
	for _, p := range n.Props {
		out = append(out, propReq{p, c.isOptional(p.Val)})
	}
	if a := n.Rule("allOf"); a != nil {
		var names []string
		if a.List {
			for _, it := range a.Items {
				names = append(names, unq(it.Lit))
			}
		} else {
			names = []string{unq(a.Val)}
		}
		for _, name := range names {
			if seen[name] {
				return out, Unspecified
			}
			seen[name] = true
			t, ok := c.env.Types[name]
			if !ok || t.Kind != gen.KObj {
				return out, Unspecified
			}
			inh, v := c.collectProps(t, seen)
			if v != Accept {
				return out, v
			}
			out = append(out, inh...)
			delete(seen, name)
		}
	}
	return out, Accept
}

func (c *ctx) object(n *gen.Node, d *gen.JV) Verdict {
	if d.Kind != gen.KObj {
		return Reject
	}
	if d.HasDupKeys() {
		return Unspecified
	}
	props, pv := c.collectProps(n, map[string]bool{})
	if pv != Accept {
		return pv
	}
	// duplicate keys among own+inherited properties: not defined
	names := map[string]bool{}
	for _, p := range props {
		if names[p.p.Key] {
			return Unspecified
		}
		names[p.p.Key] = true
	}
	for _, r := range n.Rules {
		switch r.Name {
		case "additionalProperties", "allOf", "nullable", "optional", "type":
		default:
			return Unspecified
		}
	}
	v := Accept
	matched := make([]int, len(props)) // how many doc keys matched each entry
	for _, m := range d.Mem {
		// named property?
		found := -1
		for i, p := range props {
			if !p.p.Shortcut && p.p.Key == m.Key {
				found = i
				break
			}
		}
		if found >= 0 {
			matched[found]++
			v = and(v, c.node(props[found].p.Val, m.Val))
			if v == Reject {
				return Reject
			}
			continue
		}
		// key shortcut entries
		var cands []int
		unspec := false
		for i, p := range props {
			if !p.p.Shortcut {
				continue
			}
			kv := c.keyAccepted(p.p.Key, m.Key)
			if kv == Accept {
				cands = append(cands, i)
			} else if kv == Unspecified {
				unspec = true
			}
		}
		if unspec {
			v = and(v, Unspecified)
			continue
		}
		if len(cands) > 1 {
			v = and(v, Unspecified) // one key matches two entries: precedence not fixed
			continue
		}
		if len(cands) == 1 {
			matched[cands[0]]++
			if matched[cands[0]] > 1 {
				v = and(v, Unspecified) // two keys under one shortcut entry: cardinality not fixed
				continue
			}
			v = and(v, c.node(props[cands[0]].p.Val, m.Val))
			if v == Reject {
				return Reject
			}
			continue
		}
		// additional property
		v = and(v, c.additional(n, m.Val))
		if v == Reject {
			return Reject
		}
	}
	for i, p := range props {
		if matched[i] == 0 && !p.optional {
			if p.p.Shortcut {
				v = and(v, Unspecified) // whether a non-optional shortcut entry must be present
				continue
			}
			return Reject
		}
	}
	return v
}

// keyAccepted: does the string type @K accept the key text?
func (c *ctx) keyAccepted(typeName, key string) Verdict {
	t, ok := c.env.Types[typeName]
	if !ok {
		return Unspecified
	}
	if t.Kind != gen.KStr {
		return Unspecified
	}
	hasConstraining := false
	for _, r := range t.Rules {
		switch r.Name {
		case "minLength", "maxLength", "regex", "enum":
			hasConstraining = true
		default:
			return Unspecified
		}
	}
	if !hasConstraining {
		return Unspecified // rule-less key type: the repository pins "equals the example"
	}
	return c.scalar(gen.KStr, t.Lit, t.Rules, gen.JStr(gen.QuoteJSON(key)))
}

// parentDeclaresAP: some type reached through allOf carries an additionalProperties rule.
func (c *ctx) parentDeclaresAP(n *gen.Node, seen map[string]bool) bool {
	a := n.Rule("allOf")
	if a == nil {
		return false
	}
	var names []string
	if a.List {
		for _, it := range a.Items {
			names = append(names, unq(it.Lit))
		}
	} else {
		names = []string{unq(a.Val)}
	}
	for _, name := range names {
		if seen[name] {
			continue
		}
		seen[name] = true
		t, ok := c.env.Types[name]
		if !ok {
			continue
		}
		if t.Rule("additionalProperties") != nil || c.parentDeclaresAP(t, seen) {
			return true
		}
	}
	return false
}

func (c *ctx) additional(n *gen.Node, val *gen.JV) Verdict {
	ap := n.Rule("additionalProperties")
	if ap == nil {
		// forbidden by default - unless a type the object inherits from declares the rule: whether an
		// heir without the rule takes over its parent's is not in the statement
		if c.parentDeclaresAP(n, map[string]bool{}) {
			return Unspecified
		}
		return Reject
	}
	v := unq(ap.Val)
	switch v {
	case "false":
		return Reject
	case "true", "any":
		return Accept
	case "integer":
		return c.byTypeName("integer", nil, val)
	case "float":
		if val.Kind == gen.KInt {
			return Unspecified
		}
		return c.byTypeName("float", nil, val)
	case "string", "boolean", "null":
		return c.byTypeName(v, nil, val)
	case "object":
		return fromBool(val.Kind == gen.KObj)
	case "array":
		return fromBool(val.Kind == gen.KArr)
	}
	if strings.HasPrefix(v, "@") {
		return c.typeRef(v, val)
	}
	return Unspecified
}
