// Package errrender is the reference for C17's rendering clause: 1-based line
// number (LF, CR, CRLF files), line text left-trimmed and truncated at 200
// bytes, caret under the offending column. Stdlib only.
package errrender

import "strings"

type Style int

const (
	NoNewline Style = iota
	LF
	CR
	CRLF
	Mixed
)

func (s Style) String() string { return [...]string{"none", "LF", "CR", "CRLF", "mixed"}[s] }

// Classify determines the (consistent) line-terminator style of content.
func Classify(content string) Style {
	hasLF, hasCR := strings.Contains(content, "\n"), strings.Contains(content, "\r")
	switch {
	case !hasLF && !hasCR:
		return NoNewline
	case hasLF && !hasCR:
		return LF
	case hasCR && !hasLF:
		return CR
	}
	// both: CRLF iff every \r is followed by \n and every \n preceded by \r
	for i := 0; i < len(content); i++ {
		if content[i] == '\r' && (i+1 >= len(content) || content[i+1] != '\n') {
			return Mixed
		}
		if content[i] == '\n' && (i == 0 || content[i-1] != '\r') {
			return Mixed
		}
	}
	return CRLF
}

// Info is the expected rendering data for one position.
type Info struct {
	Line      int    // 1-based
	Begin     int    // offset of the first byte of the line
	End       int    // offset one past the last byte of the line text (terminator excluded)
	Raw       string // the line without its terminator
	Trimmed   string // Raw without leading blanks (space, tab)
	Lead      int    // number of leading blanks removed
	AllBlank  bool   // the line consists of blanks only (or is empty)
	InLead    bool   // the position lies inside the leading blanks
	Column    int    // pos - Begin - Lead (caret offset) when !InLead
	OnTermin  bool   // the position is on a terminator byte
}

// Locate computes the line containing pos for a consistently terminated file.
// A terminator byte belongs to the line it terminates.
func Locate(content string, pos int, st Style) Info {
	var in Info
	// split into lines with their begin offsets
	type ln struct{ b, e, next int }
	var lines []ln
	i := 0
	b := 0
	for i < len(content) {
		switch {
		case st == CRLF && content[i] == '\r':
			lines = append(lines, ln{b, i, i + 2})
			i += 2
			b = i
		case (st == LF && content[i] == '\n') || (st == CR && content[i] == '\r'):
			lines = append(lines, ln{b, i, i + 1})
			i++
			b = i
		default:
			i++
		}
	}
	lines = append(lines, ln{b, len(content), len(content) + 1})
	for n, l := range lines {
		if pos < l.next {
			in.Line = n + 1
			in.Begin, in.End = l.b, l.e
			in.OnTermin = pos >= l.e
			break
		}
	}
	in.Raw = content[in.Begin:in.End]
	in.Trimmed = strings.TrimLeft(in.Raw, " \t")
	in.Lead = len(in.Raw) - len(in.Trimmed)
	in.AllBlank = in.Trimmed == ""
	in.InLead = pos < in.Begin+in.Lead
	in.Column = pos - in.Begin - in.Lead
	return in
}
