// Package jsonpda is the reference model for RFC 8259: an explicit pushdown
// recogniser that can be fed byte by byte (so that it can run in product with
// the library's scanner), plus a tokenizer/parser with spans. Stdlib only.
package jsonpda

import (
	"fmt"
	"strings"
)

type State uint8

const (
	SValue    State = iota // expecting a value (top level, after ':' or after ',' in an array)
	SArrFirst              // after '[': value or ']'
	SObjFirst              // after '{': key or '}'
	SObjKey                // after ',' in an object: key
	SColon                 // after a key: ':'
	SAfterVal              // after a value inside a container: ',' or closer
	SDone                  // top-level value complete
	SStr                   // inside a string
	SEsc                   // after backslash
	SU0                    // after \u
	SU1
	SU2
	SU3
	SNeg   // after '-'
	SZero  // after leading 0
	SInt   // after 1-9 digits
	SDot   // after '.'
	SFrac  // after '.' digits
	SE     // after e/E
	SESign // after e+/e-
	SExp   // exponent digits
	SWord  // inside true/false/null
	SDead
)

var stateNames = []string{"Value", "ArrFirst", "ObjFirst", "ObjKey", "Colon", "AfterVal", "Done", "Str", "Esc", "U0", "U1", "U2", "U3", "Neg", "Zero", "Int", "Dot", "Frac", "E", "ESign", "Exp", "Word", "Dead"}

func (s State) String() string { return stateNames[s] }

// PDA is the incremental recogniser. The zero value is not ready; use New.
type PDA struct {
	St    State
	Stack []byte // '{' or '['
	IsKey bool   // the string being read is an object key
	Word  string // remaining letters of a keyword
	// NumTop is set while the current token is a top-level number.
	// CompleteSeen: some prefix of the input was a complete top-level value
	// (possibly followed by blanks). MunchAmbiguous: after a complete top-level
	// number the input continued with bytes that could extend a number token
	// ('.', 'e', 'E', digits after a leading zero ...) without forming a longer
	// valid number so far.
	CompleteSeen bool
	AmbFinal     bool // a number-ish byte directly followed a complete top-level number
	AmbPending   bool // a complete top-level number was extended into a (so far) invalid longer token
	N              int // bytes consumed
}

func New() *PDA { return &PDA{St: SValue} }

func (p *PDA) Clone() *PDA {
	q := *p
	q.Stack = append([]byte(nil), p.Stack...)
	return &q
}

func (p *PDA) Depth() int { return len(p.Stack) }

func (p *PDA) Dead() bool { return p.St == SDead }

// Key is the canonical control state (everything that can influence future
// acceptance), without offsets.
func (p *PDA) Key() string {
	k := ""
	if p.IsKey {
		k = "k"
	}
	return fmt.Sprintf("%s%s/%s/%s", p.St, k, p.Word, string(p.Stack))
}

func isWS(c byte) bool    { return c == ' ' || c == '\t' || c == '\n' || c == '\r' }
func isDigit(c byte) bool { return '0' <= c && c <= '9' }
func isHex(c byte) bool {
	return isDigit(c) || ('a' <= c && c <= 'f') || ('A' <= c && c <= 'F')
}

func (p *PDA) numAccepting() bool {
	return p.St == SZero || p.St == SInt || p.St == SFrac || p.St == SExp
}

func (p *PDA) inNumber() bool {
	return p.St >= SNeg && p.St <= SExp
}

// AcceptEOF: the bytes consumed so far are exactly one JSON text.
func (p *PDA) AcceptEOF() bool {
	if p.St == SDone {
		return true
	}
	return len(p.Stack) == 0 && p.numAccepting()
}

// valueDone performs the transition after a complete value.
func (p *PDA) valueDone() {
	if len(p.Stack) == 0 {
		p.St = SDone
		p.CompleteSeen = true
		return
	}
	p.St = SAfterVal
}

func (p *PDA) beginValue(c byte) {
	switch {
	case c == '{':
		p.Stack = append(p.Stack, '{')
		p.St = SObjFirst
	case c == '[':
		p.Stack = append(p.Stack, '[')
		p.St = SArrFirst
	case c == '"':
		p.St = SStr
		p.IsKey = false
	case c == '-':
		p.St = SNeg
	case c == '0':
		p.St = SZero
	case '1' <= c && c <= '9':
		p.St = SInt
	case c == 't':
		p.St, p.Word = SWord, "rue"
	case c == 'f':
		p.St, p.Word = SWord, "alse"
	case c == 'n':
		p.St, p.Word = SWord, "ull"
	default:
		p.St = SDead
	}
}

// afterNumber handles a byte that terminates a number token.
func (p *PDA) afterNumber(c byte) {
	top := len(p.Stack) == 0
	p.valueDone()
	if top {
		// A byte directly after a complete top-level number.
		if !isWS(c) {
			if c == '.' || c == 'e' || c == 'E' || isDigit(c) {
				p.AmbFinal = true
			}
		}
	}
	p.Feed0(c)
}

// Feed consumes one byte.
func (p *PDA) Feed(c byte) {
	p.N++
	wasTopNumAccepting := len(p.Stack) == 0 && p.numAccepting()
	p.Feed0(c)
	if wasTopNumAccepting {
		p.CompleteSeen = true
		if p.inNumber() && !p.numAccepting() {
			// e.g. "1" then ".": the maximal token is no longer a valid number.
			p.AmbPending = true
		}
	}
	if p.AmbPending && len(p.Stack) == 0 && p.numAccepting() {
		p.AmbPending = false // "1." then "5": valid again
	}
}

func (p *PDA) Feed0(c byte) {
	switch p.St {
	case SDead:
	case SValue:
		if isWS(c) {
			return
		}
		p.beginValue(c)
	case SArrFirst:
		if isWS(c) {
			return
		}
		if c == ']' {
			p.Stack = p.Stack[:len(p.Stack)-1]
			p.valueDone()
			return
		}
		p.beginValue(c)
	case SObjFirst:
		if isWS(c) {
			return
		}
		if c == '}' {
			p.Stack = p.Stack[:len(p.Stack)-1]
			p.valueDone()
			return
		}
		if c == '"' {
			p.St, p.IsKey = SStr, true
			return
		}
		p.St = SDead
	case SObjKey:
		if isWS(c) {
			return
		}
		if c == '"' {
			p.St, p.IsKey = SStr, true
			return
		}
		p.St = SDead
	case SColon:
		if isWS(c) {
			return
		}
		if c == ':' {
			p.St = SValue
			return
		}
		p.St = SDead
	case SAfterVal:
		if isWS(c) {
			return
		}
		top := p.Stack[len(p.Stack)-1]
		switch {
		case c == ',' && top == '[':
			p.St = SValue
		case c == ',' && top == '{':
			p.St = SObjKey
		case c == ']' && top == '[', c == '}' && top == '{':
			p.Stack = p.Stack[:len(p.Stack)-1]
			p.valueDone()
		default:
			p.St = SDead
		}
	case SDone:
		if isWS(c) {
			return
		}
		p.St = SDead
	case SStr:
		switch {
		case c == '"':
			if p.IsKey {
				p.IsKey = false
				p.St = SColon
			} else {
				p.valueDone()
			}
		case c == '\\':
			p.St = SEsc
		case c < 0x20:
			p.St = SDead
		}
	case SEsc:
		switch c {
		case 'b', 'f', 'n', 'r', 't', '\\', '/', '"':
			p.St = SStr
		case 'u':
			p.St = SU0
		default:
			p.St = SDead
		}
	case SU0, SU1, SU2:
		if isHex(c) {
			p.St++
		} else {
			p.St = SDead
		}
	case SU3:
		if isHex(c) {
			p.St = SStr
		} else {
			p.St = SDead
		}
	case SNeg:
		switch {
		case c == '0':
			p.St = SZero
		case '1' <= c && c <= '9':
			p.St = SInt
		default:
			p.St = SDead
		}
	case SZero:
		switch {
		case c == '.':
			p.St = SDot
		case c == 'e' || c == 'E':
			p.St = SE
		default:
			p.afterNumber(c)
		}
	case SInt:
		switch {
		case isDigit(c):
		case c == '.':
			p.St = SDot
		case c == 'e' || c == 'E':
			p.St = SE
		default:
			p.afterNumber(c)
		}
	case SDot:
		if isDigit(c) {
			p.St = SFrac
		} else {
			p.St = SDead
		}
	case SFrac:
		switch {
		case isDigit(c):
		case c == 'e' || c == 'E':
			p.St = SE
		default:
			p.afterNumber(c)
		}
	case SE:
		switch {
		case c == '+' || c == '-':
			p.St = SESign
		case isDigit(c):
			p.St = SExp
		default:
			p.St = SDead
		}
	case SESign:
		if isDigit(c) {
			p.St = SExp
		} else {
			p.St = SDead
		}
	case SExp:
		if isDigit(c) {
			return
		}
		p.afterNumber(c)
	case SWord:
		if len(p.Word) > 0 && c == p.Word[0] {
			p.Word = p.Word[1:]
			if p.Word == "" {
				p.valueDone()
			}
		} else {
			p.St = SDead
		}
	}
}

// Valid reports whether data is exactly one JSON text.
func Valid(data []byte) bool {
	p := New()
	for _, c := range data {
		p.Feed(c)
		if p.St == SDead {
			return false
		}
	}
	return p.AcceptEOF()
}

// Verdict is three-valued.
type Verdict int

const (
	Reject Verdict = iota
	Accept
	Unspecified
)

func (v Verdict) String() string { return [...]string{"reject", "accept", "unspecified"}[v] }

// TrailingVerdict is the reference for AllowTrailingNonSpaceCharacters: accept
// iff the text begins with one complete JSON value, numbers taken maximally: a
// complete top-level number followed by a byte that cannot continue it (01,
// 1.5.3, 1e5e3) IS a complete value followed by something. Unspecified only
// where the maximal munch of a top-level number ends inside an incomplete
// number (1.x, 1.5e+): "the number 1, then .x" and "the broken number 1." are
// both readings of "taken maximally".
func (p *PDA) TrailingVerdict() Verdict {
	if p.AmbPending {
		return Unspecified
	}
	if p.CompleteSeen || p.AcceptEOF() {
		return Accept
	}
	return Reject
}

// LiveCompletion returns a shortest string that completes the current prefix
// to a valid JSON text, or "", false if the state is dead.
func (p *PDA) LiveCompletion() (string, bool) {
	if p.St == SDead {
		return "", false
	}
	var b strings.Builder
	q := p.Clone()
	// finish the current token
	switch q.St {
	case SValue:
		b.WriteString("0")
		q.St = SZero
	case SArrFirst:
		b.WriteString("]")
		q.Stack = q.Stack[:len(q.Stack)-1]
		q.valueDone()
	case SObjFirst:
		b.WriteString("}")
		q.Stack = q.Stack[:len(q.Stack)-1]
		q.valueDone()
	case SObjKey:
		b.WriteString(`"":0`)
		q.St = SAfterVal
	case SColon:
		b.WriteString(":0")
		q.St = SAfterVal
	case SStr, SEsc, SU0, SU1, SU2, SU3:
		switch q.St {
		case SEsc:
			b.WriteString("n")
		case SU0:
			b.WriteString("0000")
		case SU1:
			b.WriteString("000")
		case SU2:
			b.WriteString("00")
		case SU3:
			b.WriteString("0")
		}
		b.WriteString(`"`)
		if q.IsKey {
			b.WriteString(":0")
		}
		if len(q.Stack) == 0 {
			q.St = SDone
		} else {
			q.St = SAfterVal
		}
	case SNeg, SDot, SE, SESign:
		b.WriteString("0")
		if len(q.Stack) == 0 {
			q.St = SDone
		} else {
			q.St = SAfterVal
		}
	case SWord:
		b.WriteString(q.Word)
		if len(q.Stack) == 0 {
			q.St = SDone
		} else {
			q.St = SAfterVal
		}
	case SZero, SInt, SFrac, SExp:
		if len(q.Stack) == 0 {
			q.St = SDone
		} else {
			q.St = SAfterVal
		}
	}
	for i := len(q.Stack) - 1; i >= 0; i-- {
		if q.Stack[i] == '{' {
			b.WriteString("}")
		} else {
			b.WriteString("]")
		}
	}
	return b.String(), true
}
