package jsonpda

import "fmt"

// Val is a parsed JSON value with inclusive byte spans.
type Val struct {
	Kind     byte // 'o' object, 'a' array, 's' string, 'n' number, 't' true, 'f' false, 'z' null
	Begin    int
	End      int // inclusive
	Keys     []Span
	Children []*Val
}

type Span struct{ Begin, End int }

type parser struct {
	d []byte
	i int
}

// Parse parses exactly one JSON text (surrounded by optional whitespace).
func Parse(data []byte) (*Val, error) {
	p := &parser{d: data}
	p.ws()
	v, err := p.value()
	if err != nil {
		return nil, err
	}
	p.ws()
	if p.i != len(p.d) {
		return nil, fmt.Errorf("trailing data at %d", p.i)
	}
	return v, nil
}

func (p *parser) ws() {
	for p.i < len(p.d) && isWS(p.d[p.i]) {
		p.i++
	}
}

func (p *parser) value() (*Val, error) {
	if p.i >= len(p.d) {
		return nil, fmt.Errorf("eof")
	}
	c := p.d[p.i]
	switch {
	case c == '{':
		v := &Val{Kind: 'o', Begin: p.i}
		p.i++
		p.ws()
		if p.i < len(p.d) && p.d[p.i] == '}' {
			v.End = p.i
			p.i++
			return v, nil
		}
		for {
			p.ws()
			ks, err := p.str()
			if err != nil {
				return nil, err
			}
			v.Keys = append(v.Keys, ks)
			p.ws()
			if p.i >= len(p.d) || p.d[p.i] != ':' {
				return nil, fmt.Errorf("colon expected at %d", p.i)
			}
			p.i++
			p.ws()
			ch, err := p.value()
			if err != nil {
				return nil, err
			}
			v.Children = append(v.Children, ch)
			p.ws()
			if p.i >= len(p.d) {
				return nil, fmt.Errorf("eof")
			}
			if p.d[p.i] == ',' {
				p.i++
				continue
			}
			if p.d[p.i] == '}' {
				v.End = p.i
				p.i++
				return v, nil
			}
			return nil, fmt.Errorf("unexpected byte at %d", p.i)
		}
	case c == '[':
		v := &Val{Kind: 'a', Begin: p.i}
		p.i++
		p.ws()
		if p.i < len(p.d) && p.d[p.i] == ']' {
			v.End = p.i
			p.i++
			return v, nil
		}
		for {
			p.ws()
			ch, err := p.value()
			if err != nil {
				return nil, err
			}
			v.Children = append(v.Children, ch)
			p.ws()
			if p.i >= len(p.d) {
				return nil, fmt.Errorf("eof")
			}
			if p.d[p.i] == ',' {
				p.i++
				continue
			}
			if p.d[p.i] == ']' {
				v.End = p.i
				p.i++
				return v, nil
			}
			return nil, fmt.Errorf("unexpected byte at %d", p.i)
		}
	case c == '"':
		s, err := p.str()
		if err != nil {
			return nil, err
		}
		return &Val{Kind: 's', Begin: s.Begin, End: s.End}, nil
	case c == 't' || c == 'f' || c == 'n':
		w := map[byte]string{'t': "true", 'f': "false", 'n': "null"}[c]
		if p.i+len(w) > len(p.d) || string(p.d[p.i:p.i+len(w)]) != w {
			return nil, fmt.Errorf("bad literal at %d", p.i)
		}
		k := c
		if c == 'n' {
			k = 'z'
		}
		v := &Val{Kind: k, Begin: p.i, End: p.i + len(w) - 1}
		p.i += len(w)
		return v, nil
	case c == '-' || isDigit(c):
		b := p.i
		q := New()
		j := p.i
		last := -1
		for j < len(p.d) {
			q.Feed(p.d[j])
			if q.Dead() || !q.inNumber() {
				break
			}
			if q.numAccepting() {
				last = j
			}
			j++
		}
		if last < 0 {
			return nil, fmt.Errorf("bad number at %d", b)
		}
		p.i = last + 1
		return &Val{Kind: 'n', Begin: b, End: last}, nil
	}
	return nil, fmt.Errorf("unexpected byte at %d", p.i)
}

func (p *parser) str() (Span, error) {
	if p.i >= len(p.d) || p.d[p.i] != '"' {
		return Span{}, fmt.Errorf("string expected at %d", p.i)
	}
	b := p.i
	p.i++
	for p.i < len(p.d) {
		c := p.d[p.i]
		switch {
		case c == '"':
			p.i++
			return Span{b, p.i - 1}, nil
		case c == '\\':
			p.i += 2
		case c < 0x20:
			return Span{}, fmt.Errorf("control byte in string at %d", p.i)
		default:
			p.i++
		}
	}
	return Span{}, fmt.Errorf("unterminated string")
}

// Canon renders the value canonically from the source text (whitespace removed).
func (v *Val) Canon(src []byte) string {
	switch v.Kind {
	case 'o':
		s := "{"
		for i, ch := range v.Children {
			if i > 0 {
				s += ","
			}
			s += string(src[v.Keys[i].Begin:v.Keys[i].End+1]) + ":" + ch.Canon(src)
		}
		return s + "}"
	case 'a':
		s := "["
		for i, ch := range v.Children {
			if i > 0 {
				s += ","
			}
			s += ch.Canon(src)
		}
		return s + "]"
	}
	return string(src[v.Begin : v.End+1])
}

// StructuralCands lists structural simplifications of a JSON text, coarsest first: for every container (in
// document order) the text without a chunk of its children (chunks of k/2, k/4, ... 1 children), and the text
// of every child of the root alone. All candidates are rendered compactly. Used to reduce long counterexamples
// in a logarithmic number of steps before the byte-level reduction takes over.
func StructuralCands(text string) []string {
	src := []byte(text)
	root, err := Parse(src)
	if err != nil {
		return nil
	}
	var out []string
	var render func(b *[]byte, v, target *Val, from, to int)
	render = func(b *[]byte, v, target *Val, from, to int) {
		switch v.Kind {
		case 'o', 'a':
			open, close := byte('{'), byte('}')
			if v.Kind == 'a' {
				open, close = '[', ']'
			}
			*b = append(*b, open)
			first := true
			for i, ch := range v.Children {
				if v == target && i >= from && i < to {
					continue
				}
				if !first {
					*b = append(*b, ',')
				}
				first = false
				if v.Kind == 'o' {
					*b = append(*b, src[v.Keys[i].Begin:v.Keys[i].End+1]...)
					*b = append(*b, ':')
				}
				render(b, ch, target, from, to)
			}
			*b = append(*b, close)
		default:
			*b = append(*b, src[v.Begin:v.End+1]...)
		}
	}
	var walk func(v *Val)
	walk = func(v *Val) {
		k := len(v.Children)
		for size := (k + 1) / 2; size >= 1 && k > 0; size /= 2 {
			for from := 0; from < k; from += size {
				to := from + size
				if to > k {
					to = k
				}
				var b []byte
				render(&b, root, v, from, to)
				out = append(out, string(b))
			}
			if size == 1 {
				break
			}
		}
		for _, ch := range v.Children {
			walk(ch)
		}
	}
	for _, ch := range root.Children {
		var b []byte
		render(&b, ch, nil, 0, 0)
		out = append(out, string(b))
	}
	walk(root)
	return out
}
