// Package decimal is the exact reference for JSON numerals (math/big).
package decimal

import (
	"math/big"
	"regexp"
	"strconv"
	"strings"
)

var numeralRE = regexp.MustCompile(`^-?(0|[1-9][0-9]*)(\.[0-9]+)?([eE][+-]?[0-9]+)?$`)

// Dec is m * 10^e with m an integer.
type Dec struct {
	M *big.Int
	E int
}

// IsNumeral reports whether s is an RFC 8259 number.
func IsNumeral(s string) bool { return numeralRE.MatchString(s) }

// Parse returns the exact value of an RFC 8259 numeral.
func Parse(s string) (Dec, bool) {
	if !IsNumeral(s) {
		return Dec{}, false
	}
	mant, exp := s, 0
	if i := strings.IndexAny(s, "eE"); i >= 0 {
		mant = s[:i]
		x, err := strconv.Atoi(s[i+1:])
		if err != nil {
			return Dec{}, false
		}
		exp = x
	}
	if i := strings.IndexByte(mant, '.'); i >= 0 {
		exp -= len(mant) - i - 1
		mant = mant[:i] + mant[i+1:]
	}
	m, ok := new(big.Int).SetString(mant, 10)
	if !ok {
		return Dec{}, false
	}
	return Dec{M: m, E: exp}.norm(), true
}

var ten = big.NewInt(10)

// norm strips trailing zeros of the mantissa (zero becomes 0e0).
func (d Dec) norm() Dec {
	if d.M.Sign() == 0 {
		return Dec{M: new(big.Int), E: 0}
	}
	m := new(big.Int).Set(d.M)
	e := d.E
	q, r := new(big.Int), new(big.Int)
	for {
		q.QuoRem(m, ten, r)
		if r.Sign() != 0 {
			break
		}
		m.Set(q)
		e++
	}
	return Dec{M: m, E: e}
}

// Cmp compares exact values.
func (d Dec) Cmp(o Dec) int {
	a, b := new(big.Int).Set(d.M), new(big.Int).Set(o.M)
	switch {
	case d.E > o.E:
		a.Mul(a, new(big.Int).Exp(ten, big.NewInt(int64(d.E-o.E)), nil))
	case o.E > d.E:
		b.Mul(b, new(big.Int).Exp(ten, big.NewInt(int64(o.E-d.E)), nil))
	}
	return a.Cmp(b)
}

// FracLen is the number of fractional digits of the normalised expansion.
func (d Dec) FracLen() int {
	if d.E >= 0 {
		return 0
	}
	return -d.E
}

func (d Dec) IsIntegral() bool { return d.FracLen() == 0 }

func (d Dec) IsZero() bool { return d.M.Sign() == 0 }

// String is the normalised plain decimal expansion: [-]int[.frac], no leading
// zeros in the integer part (a lone 0 if empty), no trailing zeros in frac.
func (d Dec) String() string {
	if d.M.Sign() == 0 {
		return "0"
	}
	neg := d.M.Sign() < 0
	digits := new(big.Int).Abs(d.M).String()
	var s string
	switch {
	case d.E >= 0:
		s = digits + strings.Repeat("0", d.E)
	case -d.E >= len(digits):
		s = "0." + strings.Repeat("0", -d.E-len(digits)) + digits
	default:
		s = digits[:len(digits)+d.E] + "." + digits[len(digits)+d.E:]
	}
	if neg {
		s = "-" + s
	}
	return s
}
