// Package orderedmap is the reference insertion-ordered map over small
// integer keys and values (stdlib only).
package orderedmap

type Map struct {
	Order []int
	Data  map[int]int
}

func New() *Map { return &Map{Data: map[int]int{}} }

func (m *Map) Clone() *Map {
	n := New()
	n.Order = append([]int(nil), m.Order...)
	for k, v := range m.Data {
		n.Data[k] = v
	}
	return n
}

func (m *Map) Set(k, v int) {
	if _, ok := m.Data[k]; !ok {
		m.Order = append(m.Order, k)
	}
	m.Data[k] = v
}

func (m *Map) Update(k int, f func(int) int) {
	if v, ok := m.Data[k]; ok {
		m.Data[k] = f(v)
	}
}

func (m *Map) Delete(k int) {
	if _, ok := m.Data[k]; !ok {
		return
	}
	delete(m.Data, k)
	for i, x := range m.Order {
		if x == k {
			m.Order = append(append([]int(nil), m.Order[:i]...), m.Order[i+1:]...)
			break
		}
	}
}

// Filter visits every entry exactly once in order and keeps those for which f
// is true. It returns the visit log.
func (m *Map) Filter(f func(k, v int) bool) [][2]int {
	var log [][2]int
	var keep []int
	for _, k := range m.Order {
		log = append(log, [2]int{k, m.Data[k]})
		if f(k, m.Data[k]) {
			keep = append(keep, k)
		} else {
			delete(m.Data, k)
		}
	}
	m.Order = keep
	return log
}

// Map visits every entry once in order, replacing values; a callback error
// stops the iteration at that entry (which keeps its value).
func (m *Map) Map(f func(k, v int) (int, bool)) ([][2]int, bool) {
	var log [][2]int
	for _, k := range m.Order {
		log = append(log, [2]int{k, m.Data[k]})
		nv, ok := f(k, m.Data[k])
		if !ok {
			return log, false
		}
		m.Data[k] = nv
	}
	return log, true
}

func (m *Map) Get(k int) (int, bool) { v, ok := m.Data[k]; return v, ok }
func (m *Map) Len() int              { return len(m.Order) }

func (m *Map) Entries() [][2]int {
	var r [][2]int
	for _, k := range m.Order {
		r = append(r, [2]int{k, m.Data[k]})
	}
	return r
}
