// Package wf is the reference applicability/consistency predicate of C08,
// written from the property statement. Three-valued.
package wf

import (
	"strconv"
	"strings"

	"verif/gen"
	"verif/ref/decimal"
	"verif/ref/refv"
)

type Position int

const (
	Root Position = iota
	Property
	Item
)

var known = map[string]bool{"minLength": true, "maxLength": true, "min": true, "max": true, "exclusiveMinimum": true, "exclusiveMaximum": true,
	"type": true, "precision": true, "optional": true, "minItems": true, "maxItems": true, "additionalProperties": true, "nullable": true,
	"regex": true, "const": true, "or": true, "enum": true, "allOf": true}

var jsonKindName = map[gen.Kind]string{gen.KInt: "integer", gen.KFloat: "float", gen.KStr: "string", gen.KBool: "boolean", gen.KNull: "null", gen.KObj: "object", gen.KArr: "array"}
var formats = map[string]bool{"email": true, "uri": true, "uuid": true, "date": true, "datetime": true}

func unq(s string) string {
	if len(s) >= 2 && s[0] == '"' {
		return gen.StrValue(s)
	}
	return s
}

// ExampleDoc converts a plain example into a document value.
func ExampleDoc(n *gen.Node) *gen.JV {
	switch n.Kind {
	case gen.KObj:
		var m []gen.Member
		for _, p := range n.Props {
			m = append(m, gen.Member{Key: p.Key, Val: ExampleDoc(p.Val)})
		}
		return gen.JObj(m...)
	case gen.KArr:
		var a []*gen.JV
		for _, it := range n.Items {
			a = append(a, ExampleDoc(it))
		}
		return gen.JArr(a...)
	}
	return &gen.JV{Kind: n.Kind, Lit: n.Lit}
}

// WellFormed: does Check accept this single annotated node (children rule-free)?
func WellFormed(env *refv.Env, n *gen.Node, pos Position) refv.Verdict {
	rules := n.Rules
	seen := map[string]bool{}
	for _, r := range rules {
		if !known[r.Name] {
			return refv.Reject
		}
		if seen[r.Name] {
			return refv.Reject
		}
		seen[r.Name] = true
	}
	get := func(name string) *gen.Rule { return n.Rule(name) }
	tval := ""
	if t := get("type"); t != nil {
		tval = unq(t.Val)
	}
	only := func(allowed ...string) bool {
		ok := map[string]bool{}
		for _, a := range allowed {
			ok[a] = true
		}
		for _, r := range rules {
			if !ok[r.Name] {
				return false
			}
		}
		return true
	}
	if seen["optional"] && pos != Property {
		return refv.Reject
	}
	v := refv.Accept
	unspec := func() { v = refv.Unspecified }

	isContainer := n.Kind == gen.KObj || n.Kind == gen.KArr
	nonEmpty := len(n.Props)+len(n.Items) > 0

	// false-valued nullable/const are inert (C02) but syntactically present:
	// whether they count as "foreign" next to enum/or/any/type references is not fixed.
	inert := false
	for _, r := range rules {
		if (r.Name == "const" || r.Name == "nullable") && r.Val == "false" {
			inert = true
		}
	}
	exclusiveFamily := n.Kind == gen.KRef || seen["enum"] || seen["or"] || tval == "any" || strings.HasPrefix(tval, "@")
	if inert && exclusiveFamily {
		m := n.Clone()
		m.Rules = nil
		for _, r := range rules {
			if !((r.Name == "const" || r.Name == "nullable") && r.Val == "false") {
				m.Rules = append(m.Rules, r)
			}
		}
		if WellFormed(env, m, pos) == refv.Reject {
			return refv.Reject
		}
		return refv.Unspecified
	}
	// a null example admitted only through nullable next to or / type reference:
	// "applies to the kind of node" can be read either way
	if n.Kind == gen.KNull && (seen["or"] || strings.HasPrefix(tval, "@")) {
		return refv.Unspecified
	}
	// exclusive families
	switch {
	case n.Kind == gen.KRef:
		if !only("optional", "nullable") {
			if seen["type"] || seen["or"] {
				return refv.Unspecified
			}
			return refv.Reject
		}
		return refv.Unspecified // what the referenced type admits as example is C03/C09's business
	case seen["enum"]:
		if !only("enum", "optional", "nullable", "const", "type") {
			return refv.Reject
		}
		if seen["type"] && tval != "enum" {
			return refv.Reject
		}
		if isContainer {
			return refv.Unspecified
		}
	case seen["or"]:
		if !only("or", "optional", "nullable", "type") {
			return refv.Reject
		}
		if seen["type"] && tval != "mixed" {
			return refv.Reject
		}
		if isContainer {
			return refv.Unspecified
		}
	case tval == "any":
		if !only("type", "optional", "nullable", "const") {
			return refv.Reject
		}
		if seen["const"] || nonEmpty {
			return refv.Unspecified
		}
		return refv.Accept
	case strings.HasPrefix(tval, "@"):
		if !only("type", "optional", "nullable") {
			return refv.Reject
		}
		if isContainer {
			return refv.Unspecified
		}
	default:
		if seen["type"] {
			switch {
			case tval == jsonKindName[n.Kind]:
			case tval == "float" && n.Kind == gen.KInt:
				unspec()
			case tval == "decimal":
				if n.Kind == gen.KInt {
					unspec()
				} else if n.Kind != gen.KFloat {
					return refv.Reject
				}
				if !seen["precision"] {
					unspec()
				}
			case formats[tval]:
				if n.Kind != gen.KStr {
					return refv.Reject
				}
			case tval == "enum" || tval == "mixed":
				unspec() // type enum/mixed without its rule
			default:
				if _, isJSON := map[string]bool{"integer": true, "float": true, "string": true, "boolean": true, "null": true, "object": true, "array": true}[tval]; isJSON {
					return refv.Reject // declared type differs from the example's kind
				}
				unspec()
			}
		}
	}

	// applicability
	num := n.Kind == gen.KInt || n.Kind == gen.KFloat
	for _, r := range rules {
		switch r.Name {
		case "min", "max", "exclusiveMinimum", "exclusiveMaximum":
			if !num {
				return refv.Reject
			}
		case "precision":
			if !num {
				return refv.Reject
			}
			if n.Kind == gen.KInt {
				unspec()
			}
		case "minLength", "maxLength", "regex":
			if n.Kind != gen.KStr {
				return refv.Reject
			}
		case "minItems", "maxItems":
			if n.Kind != gen.KArr {
				return refv.Reject
			}
		case "additionalProperties", "allOf":
			if n.Kind != gen.KObj {
				return refv.Reject
			}
		case "const":
			if isContainer {
				unspec()
			}
		}
	}
	// exclusive flags need their bound
	if seen["exclusiveMinimum"] && !seen["min"] {
		return refv.Reject
	}
	if seen["exclusiveMaximum"] && !seen["max"] {
		return refv.Reject
	}
	// paired bounds
	if seen["min"] && seen["max"] {
		a, ok1 := decimal.Parse(get("min").Val)
		b, ok2 := decimal.Parse(get("max").Val)
		if !ok1 || !ok2 {
			return refv.Unspecified
		}
		strict := n.HasTrue("exclusiveMinimum") || n.HasTrue("exclusiveMaximum")
		if a.Cmp(b) > 0 || (strict && a.Cmp(b) == 0) {
			return refv.Reject
		}
	}
	pair := func(lo, hi string) bool {
		if seen[lo] && seen[hi] {
			a, e1 := strconv.Atoi(get(lo).Val)
			b, e2 := strconv.Atoi(get(hi).Val)
			if e1 != nil || e2 != nil {
				unspec()
				return true
			}
			return a <= b
		}
		return true
	}
	if !pair("minLength", "maxLength") || !pair("minItems", "maxItems") {
		return refv.Reject
	}
	// precision only with decimal
	if seen["precision"] && seen["type"] && tval != "decimal" {
		return refv.Reject
	}
	// formats exclude length/regex
	if formats[tval] && (seen["minLength"] || seen["maxLength"] || seen["regex"]) {
		return refv.Reject
	}
	// allOf / additionalProperties targets must exist and be sensible: not this predicate's business
	if seen["allOf"] {
		unspec()
	}
	if ap := get("additionalProperties"); ap != nil {
		if strings.HasPrefix(unq(ap.Val), "@") {
			if _, ok := env.Types[unq(ap.Val)]; !ok {
				unspec()
			}
		}
	}
	if v == refv.Reject {
		return v
	}
	if seen["allOf"] {
		return refv.Unspecified // the example of an allOf object need not repeat inherited properties
	}
	if n.Kind == gen.KArr && len(n.Items) == 0 && (seen["minItems"] || seen["maxItems"]) {
		return refv.Unspecified // item-count rules on an empty example array: statement silent
	}
	// the example must obey its own rules (C04's clause)
	ev := refv.Accepts(env, n, ExampleDoc(n))
	switch ev {
	case refv.Reject:
		return refv.Reject
	case refv.Unspecified:
		return refv.Unspecified
	}
	return v
}
