// Package typegraph is the reference for C09: referenced names, missing names
// and least-fixpoint inhabitation over required edges. Stdlib + gen only.
package typegraph

import (
	"sort"
	"strings"

	"verif/gen"
)

func unq(s string) string {
	s = strings.TrimSpace(s)
	if len(s) >= 2 && s[0] == '"' {
		return gen.StrValue(s)
	}
	return s
}

// Referenced lists the user-type names a schema text references, in first
// occurrence order, each once.
func Referenced(n *gen.Node) []string {
	var out []string
	seen := map[string]bool{}
	add := func(s string) {
		s = unq(s)
		if strings.HasPrefix(s, "@") && !seen[s] {
			seen[s] = true
			out = append(out, s)
		}
	}
	var walk func(x *gen.Node)
	walk = func(x *gen.Node) {
		if x.Kind == gen.KRef {
			for _, nm := range strings.Split(x.Lit, "|") {
				add(nm)
			}
		}
		for _, r := range x.Rules {
			switch r.Name {
			case "type", "additionalProperties":
				add(r.Val)
			case "allOf":
				if r.List {
					for _, it := range r.Items {
						add(it.Lit)
					}
				} else {
					add(r.Val)
				}
			case "or":
				for _, it := range r.Items {
					if it.Set == nil {
						add(it.Lit)
					} else {
						for _, rr := range it.Set {
							if rr.Name == "type" {
								add(rr.Val)
							}
						}
					}
				}
			}
		}
		for _, p := range x.Props {
			if p.Shortcut {
				add(p.Key)
			}
			walk(p.Val)
		}
		for _, it := range x.Items {
			walk(it)
		}
	}
	walk(n)
	return out
}

// Graph is a root plus named types (nil body = referenced but not added).
type Graph struct {
	witnessBudget int
	Root  *gen.Node
	Types map[string]*gen.Node
	Opt   bool // keys optional by default
	// NullableTerminates: a {nullable: true} reference counts as satisfiable by
	// null. The statement lists only optional properties, arrays and terminating
	// or-alternatives, so callers assert "must reject" with this flag set and
	// "must not report recursion" with it cleared.
	NullableTerminates bool
}

// ReachableMissing: names referenced (transitively through added types, via any
// edge) from the root that are not added.
func (g *Graph) ReachableMissing() []string {
	seen := map[string]bool{}
	var missing []string
	var visit func(n *gen.Node)
	visit = func(n *gen.Node) {
		for _, name := range Referenced(n) {
			if seen[name] {
				continue
			}
			seen[name] = true
			if body, ok := g.Types[name]; ok && body != nil {
				visit(body)
			} else {
				missing = append(missing, name)
			}
		}
	}
	visit(g.Root)
	sort.Strings(missing)
	return missing
}

// AnyMissing: some added type or the root references a name that is not added.
func (g *Graph) AnyMissing() bool {
	check := func(n *gen.Node) bool {
		for _, name := range Referenced(n) {
			if b, ok := g.Types[name]; !ok || b == nil {
				return true
			}
		}
		return false
	}
	if check(g.Root) {
		return true
	}
	for _, b := range g.Types {
		if b != nil && check(b) {
			return true
		}
	}
	return false
}

func (g *Graph) optional(v *gen.Node) bool {
	if r := v.Rule("optional"); r != nil {
		return r.Val == "true"
	}
	return g.Opt
}

// nodeInhabited: can a finite document satisfy the position, given the set of
// types already known to be inhabited?
func (g *Graph) nodeInhabited(n *gen.Node, inh map[string]bool) bool {
	alts := false
	ok := false
	if n.Kind == gen.KRef {
		alts = true
		for _, nm := range strings.Split(n.Lit, "|") {
			ok = ok || inh[unq(nm)]
		}
	}
	if t := n.Rule("type"); t != nil && strings.HasPrefix(unq(t.Val), "@") {
		alts = true
		ok = ok || inh[unq(t.Val)]
	}
	if o := n.Rule("or"); o != nil {
		alts = true
		for _, it := range o.Items {
			name := ""
			if it.Set == nil {
				name = unq(it.Lit)
			} else {
				for _, rr := range it.Set {
					if rr.Name == "type" {
						name = unq(rr.Val)
					}
				}
			}
			if strings.HasPrefix(name, "@") {
				ok = ok || inh[name]
			} else {
				ok = true
			}
		}
	}
	if alts {
		return ok || (g.NullableTerminates && n.HasTrue("nullable"))
	}
	if g.NullableTerminates && n.HasTrue("nullable") {
		return true
	}
	switch n.Kind {
	case gen.KObj:
		for _, p := range n.Props {
			if !g.optional(p.Val) && !g.nodeInhabited(p.Val, inh) {
				return false
			}
		}
		if a := n.Rule("allOf"); a != nil {
			var names []string
			if a.List {
				for _, it := range a.Items {
					names = append(names, unq(it.Lit))
				}
			} else {
				names = []string{unq(a.Val)}
			}
			for _, nm := range names {
				if !inh[nm] {
					return false
				}
			}
		}
		return true
	}
	return true // arrays (the empty array) and scalars
}

// NodeInhabited is nodeInhabited for callers that bring their own assumption set.
func (g *Graph) NodeInhabited(n *gen.Node, inh map[string]bool) bool { return g.nodeInhabited(n, inh) }

// Inhabited computes the least fixpoint; rank[T] is the iteration at which T
// became inhabited (0-based).
func (g *Graph) Inhabited() (inh map[string]bool, rank map[string]int) {
	inh = map[string]bool{}
	rank = map[string]int{}
	names := make([]string, 0, len(g.Types))
	for n := range g.Types {
		names = append(names, n)
	}
	sort.Strings(names)
	for it := 0; ; it++ {
		changed := false
		next := map[string]bool{}
		for k, v := range inh {
			next[k] = v
		}
		for _, n := range names {
			b := g.Types[n]
			if b == nil || inh[n] {
				continue
			}
			if g.nodeInhabited(b, inh) {
				next[n] = true
				rank[n] = it
				changed = true
			}
		}
		inh = next
		if !changed {
			return inh, rank
		}
	}
}

// RootInhabited: the root position admits a finite document.
func (g *Graph) RootInhabited() bool {
	inh, _ := g.Inhabited()
	return g.nodeInhabited(g.Root, inh)
}

// AllInhabited: every added type is inhabited.
func (g *Graph) AllInhabited() bool {
	inh, _ := g.Inhabited()
	for n, b := range g.Types {
		if b != nil && !inh[n] {
			return false
		}
	}
	return true
}

// Witness builds a smallest-rank inhabitant of a position (nil if none).
func (g *Graph) Witness(n *gen.Node) *gen.JV {
	inh, rank := g.Inhabited()
	g.witnessBudget = 20000
	return g.witness(n, inh, rank, 0)
}

func (g *Graph) witness(n *gen.Node, inh map[string]bool, rank map[string]int, depth int) *gen.JV {
	// the construction is bounded (depth and total nodes): with several
	// references per object it would otherwise grow exponentially; no witness
	// simply means that the caller asserts nothing about one
	g.witnessBudget--
	if depth > 60 || g.witnessBudget < 0 {
		return nil
	}
	// a nullable position has the smallest inhabitant there is
	if g.NullableTerminates && n.HasTrue("nullable") {
		return gen.JNull()
	}
	best := func(names []string) *gen.JV {
		bestName, bestRank := "", 1<<30
		for _, nm := range names {
			nm = unq(nm)
			if inh[nm] && rank[nm] < bestRank {
				bestName, bestRank = nm, rank[nm]
			}
		}
		if bestName == "" {
			return nil
		}
		return g.witness(g.Types[bestName], inh, rank, depth+1)
	}
	if n.Kind == gen.KRef {
		if w := best(strings.Split(n.Lit, "|")); w != nil {
			return w
		}
		if n.HasTrue("nullable") {
			return gen.JNull()
		}
		return nil
	}
	if t := n.Rule("type"); t != nil && strings.HasPrefix(unq(t.Val), "@") {
		return best([]string{t.Val})
	}
	if o := n.Rule("or"); o != nil {
		var names []string
		for _, it := range o.Items {
			if it.Set == nil && strings.HasPrefix(unq(it.Lit), "@") {
				names = append(names, it.Lit)
			}
		}
		if w := best(names); w != nil {
			return w
		}
		return &gen.JV{Kind: n.Kind, Lit: n.Lit}
	}
	switch n.Kind {
	case gen.KObj:
		var mem []gen.Member
		for _, p := range n.Props {
			if g.optional(p.Val) || p.Shortcut {
				continue
			}
			w := g.witness(p.Val, inh, rank, depth+1)
			if w == nil {
				return nil
			}
			mem = append(mem, gen.Member{Key: p.Key, Val: w})
		}
		if a := n.Rule("allOf"); a != nil {
			var names []string
			if a.List {
				for _, it := range a.Items {
					names = append(names, unq(it.Lit))
				}
			} else {
				names = []string{unq(a.Val)}
			}
			for _, nm := range names {
				pw := g.witness(g.Types[nm], inh, rank, depth+1)
				if pw == nil || pw.Kind != gen.KObj {
					return nil
				}
				mem = append(mem, pw.Mem...)
			}
		}
		return gen.JObj(mem...)
	case gen.KArr:
		return gen.JArr()
	}
	return &gen.JV{Kind: n.Kind, Lit: n.Lit}
}

// HasCycle: some type reachable from the root can reach itself through
// references of any kind.
func (g *Graph) HasCycle() bool {
	state := map[string]int{}
	var visit func(name string) bool
	visit = func(name string) bool {
		switch state[name] {
		case 1:
			return true
		case 2:
			return false
		}
		state[name] = 1
		if b := g.Types[name]; b != nil {
			for _, r := range Referenced(b) {
				if visit(r) {
					return true
				}
			}
		}
		state[name] = 2
		return false
	}
	for _, r := range Referenced(g.Root) {
		if visit(r) {
			return true
		}
	}
	return false
}
