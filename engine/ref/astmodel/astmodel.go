// Package astmodel computes the expected AST of a JS-core schema. Its
// conventions (unquoted Value, "reference" token type, rule value spellings)
// are calibrated on the repository's documented behaviour; what it asserts is
// the list in C16's statement: one node per example value in source order
// with key, shortcut flag, token kind, literal value, schema type, rules as
// written (names, values, order, nested items), generated marks and notes.
package astmodel

import (
	"strconv"
	"strings"

	"verif/gen"
)

type Rule struct {
	Name      string `json:"name,omitempty"`
	TokenType string `json:"token_type"`
	Value     string `json:"value"`
	Source    int    `json:"source"` // 1 manual, 2 generated
	Props     []Rule `json:"props,omitempty"`
	Items     []Rule `json:"items,omitempty"`
}

type Node struct {
	TokenType     string `json:"token_type"`
	SchemaType    string `json:"schema_type"`
	Key           string `json:"key,omitempty"`
	Value         string `json:"value,omitempty"`
	Comment       string `json:"comment,omitempty"`
	IsKeyShortcut bool   `json:"is_key_shortcut,omitempty"`
	Rules         []Rule `json:"rules,omitempty"`
	Children      []Node `json:"children,omitempty"`
}

const (
	manual    = 1
	generated = 2
)

func unq(s string) string {
	s = strings.TrimSpace(s)
	if len(s) >= 2 && s[0] == '"' {
		return gen.StrValue(s)
	}
	return s
}

func litToken(l string) string {
	l = strings.TrimSpace(l)
	switch {
	case strings.HasPrefix(l, `"`):
		return "string"
	case l == "true" || l == "false":
		return "boolean"
	case l == "null":
		return "null"
	case strings.HasPrefix(l, "@"):
		return "reference"
	}
	return "number"
}

func uintText(v string) string {
	if u, err := strconv.ParseUint(v, 10, 64); err == nil {
		return strconv.FormatUint(u, 10)
	}
	return v
}

func ruleNode(r gen.Rule) Rule {
	out := Rule{Name: r.Name, Source: manual}
	switch r.Name {
	case "min", "max":
		out.TokenType, out.Value = "number", r.Val
	case "minLength", "maxLength", "minItems", "maxItems", "precision":
		out.TokenType, out.Value = "number", uintText(r.Val)
	case "exclusiveMinimum", "exclusiveMaximum", "optional", "nullable", "const":
		out.TokenType, out.Value = "boolean", r.Val
	case "type":
		v := unq(r.Val)
		out.Value = v
		if strings.HasPrefix(v, "@") {
			out.TokenType = "reference"
		} else {
			out.TokenType = "string"
		}
	case "regex":
		out.TokenType, out.Value = "string", unq(r.Val)
	case "additionalProperties":
		if r.Val == "true" || r.Val == "false" {
			out.TokenType, out.Value = "boolean", r.Val
		} else {
			out.TokenType, out.Value = "string", unq(r.Val)
		}
	case "enum":
		if !r.List {
			out.TokenType, out.Value = "reference", strings.TrimSpace(r.Val)
			break
		}
		out.TokenType = "array"
		for _, it := range r.Items {
			out.Items = append(out.Items, Rule{TokenType: litToken(it.Lit), Value: unq(it.Lit), Source: manual})
		}
	case "allOf":
		if !r.List {
			out.TokenType, out.Value = "reference", unq(r.Val)
			break
		}
		out.TokenType = "array"
		for _, it := range r.Items {
			out.Items = append(out.Items, Rule{TokenType: "reference", Value: unq(it.Lit), Source: manual})
		}
	case "or":
		out.TokenType = "array"
		for _, it := range r.Items {
			if it.Set != nil {
				o := Rule{TokenType: "object", Source: manual}
				for _, rr := range it.Set {
					o.Props = append(o.Props, ruleNode(rr))
				}
				out.Items = append(out.Items, o)
				continue
			}
			v := unq(it.Lit)
			tt := "string"
			if strings.HasPrefix(v, "@") {
				tt = "reference"
			}
			out.Items = append(out.Items, Rule{TokenType: tt, Value: v, Source: manual})
		}
	}
	return out
}

var kindToken = map[gen.Kind]string{gen.KInt: "number", gen.KFloat: "number", gen.KStr: "string", gen.KBool: "boolean", gen.KNull: "null", gen.KObj: "object", gen.KArr: "array", gen.KRef: "reference"}
var kindSchema = map[gen.Kind]string{gen.KInt: "integer", gen.KFloat: "float", gen.KStr: "string", gen.KBool: "boolean", gen.KNull: "null", gen.KObj: "object", gen.KArr: "array"}

// Expected builds the expected AST node of an example value.
func Expected(n *gen.Node) Node {
	out := Node{TokenType: kindToken[n.Kind], Comment: n.Note}
	var names []string
	if n.Kind == gen.KRef {
		for _, nm := range strings.Split(n.Lit, "|") {
			names = append(names, strings.TrimSpace(nm))
		}
		out.Value = n.Lit
		if len(names) == 1 && n.Rule("or") != nil {
			// a written or rule next to the shortcut: the synthesised rule reads type "mixed"; it is
			// still a rule nobody wrote
			out.Rules = append(out.Rules, Rule{Name: "type", TokenType: "string", Value: "mixed", Source: generated})
		} else if len(names) == 1 {
			out.Rules = append(out.Rules, Rule{Name: "type", TokenType: "reference", Value: names[0], Source: generated})
		} else {
			o := Rule{Name: "or", TokenType: "array", Source: generated}
			for _, nm := range names {
				o.Items = append(o.Items, Rule{TokenType: "string", Value: nm, Source: generated})
			}
			out.Rules = append(out.Rules, o)
		}
	}
	for _, r := range n.Rules {
		out.Rules = append(out.Rules, ruleNode(r))
	}
	// schema type: enum > or > type > precision > kind
	switch {
	case n.Rule("enum") != nil:
		out.SchemaType = "enum"
	case n.Rule("or") != nil || len(names) > 1:
		out.SchemaType = "mixed"
	case n.Rule("type") != nil:
		out.SchemaType = unq(n.Rule("type").Val)
	case len(names) == 1:
		out.SchemaType = names[0]
	case n.Rule("precision") != nil:
		out.SchemaType = "decimal"
	default:
		out.SchemaType = kindSchema[n.Kind]
	}
	switch n.Kind {
	case gen.KObj:
		for _, p := range n.Props {
			ch := Expected(p.Val)
			ch.Key = p.Key
			ch.IsKeyShortcut = p.Shortcut
			out.Children = append(out.Children, ch)
		}
	case gen.KArr:
		for _, it := range n.Items {
			out.Children = append(out.Children, Expected(it))
		}
	case gen.KRef:
	default:
		out.Value = unq(n.Lit)
	}
	return out
}
