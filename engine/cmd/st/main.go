package main

import (
	"fmt"
	"runtime/debug"

	"github.com/jsightapi/jsight-schema-go-library/notations/jschema"
)

func main() {
	defer func() {
		if r := recover(); r != nil {
			fmt.Println(r)
			debug.PrintStack()
		}
	}()
	s := jschema.New("s", "@a |")
	fmt.Println(s.Check())
}
