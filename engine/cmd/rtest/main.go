package main

import (
	"fmt"

	"verif/gen"
	"verif/internal/lib"
)

func main() {
	root := gen.Obj(gen.P("a", gen.Int("1").With(gen.R("min", "0"), gen.R("nullable", "true"))), gen.P("b", gen.Arr(gen.Str(`"s"`), gen.Bool("true")).With(gen.R("minItems", "1"))), gen.P("c", gen.Obj()))
	root.Rules = []gen.Rule{gen.R("additionalProperties", "true")}
	root.Props[2].Val.Note = "note"
	for _, eol := range []string{"\n", "\r\n", "\r"} {
		for _, ind := range []string{"", "  ", "\t"} {
			for cm := 0; cm < 3; cm++ {
				for ml := 0; ml < 3; ml++ {
					for _, q := range []bool{false, true} {
						for _, tc := range []bool{false, true} {
							sp := gen.Spelling{EOL: eol, Indent: ind, Comments: cm, MultiLine: ml, QuoteNames: q, TrailComma: tc}
							text := gen.Render(root, sp).Text
							_, r := lib.Check(lib.SchemaSpec{Text: text})
							if !r.OK {
								fmt.Printf("%+v\n%q\n -> %s\n", sp, text, r)
							}
						}
					}
				}
			}
		}
	}
	fmt.Println(gen.Render(root, gen.Spelling{EOL: "\n", Indent: "  ", Comments: 2, MultiLine: 2, QuoteNames: true, TrailComma: true}).Text)
}
