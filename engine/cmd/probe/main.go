// probe: ad-hoc driver. usage: probe [-opt] [-t name=text]... [-e name=text]... schema [doc...]
package main

import (
	"encoding/json"
	"fmt"
	"os"
	"strings"

	"verif/internal/lib"
)

func main() {
	sp := lib.SchemaSpec{}
	args := os.Args[1:]
	ast := false
	for len(args) > 0 && strings.HasPrefix(args[0], "-") {
		switch args[0] {
		case "-opt":
			sp.OptionalDef = true
			args = args[1:]
		case "-ast":
			ast = true
			args = args[1:]
		case "-t", "-e", "-r":
			kv := strings.SplitN(args[1], "=", 2)
			kind := map[string]string{"-t": "", "-e": "enum", "-r": "regex"}[args[0]]
			sp.Types = append(sp.Types, lib.TypeDef{Name: kv[0], Text: kv[1], Kind: kind})
			args = args[2:]
		}
	}
	sp.Text = args[0]
	s, r := lib.Check(sp)
	fmt.Println("Check:", r)
	if s != nil {
		ex, err := s.Example()
		fmt.Printf("Example: %q %v\n", ex, err)
		ut, err := s.UsedUserTypes()
		fmt.Println("UsedUserTypes:", ut, err)
		n, err := s.Len()
		fmt.Println("Len:", n, err)
		if ast {
			a, err := s.GetAST()
			b, _ := json.MarshalIndent(a, "", " ")
			fmt.Println("AST:", string(b), err)
		}
	}
	for _, d := range args[1:] {
		fmt.Printf("Validate(%s): %s\n", d, lib.Validate(s, d))
	}
}
