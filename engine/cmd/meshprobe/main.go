package main

import (
	"fmt"

	"verif/internal/lib"
)

func main() {
	sp := lib.SchemaSpec{Text: "{\n  \"x\": @t0,\n  \"y\": @t1\n}", Mesh: true, Types: []lib.TypeDef{
		{Name: "@t0", Text: "{\n  \"p\": @t1 | @t2\n}"}, {Name: "@t1", Text: "{\n  \"p\": @t0\n}"}, {Name: "@t2", Text: "1"}, {Name: "@S", Text: "\"k\" // {minLength: 1}"}}}
	_, r := lib.Check(sp)
	fmt.Println("mesh:", r)
	sp.Mesh = false
	_, r = lib.Check(sp)
	fmt.Println("plain:", r)
}
