package main

import (
	"os"

	_ "verif/checks/c05"
	"verif/internal/ev"
)

func main() { os.Exit(ev.Main(os.Args[1:])) }
