package main

import (
	"os"

	_ "verif/checks/c01"
	_ "verif/checks/c02"
	_ "verif/checks/c03"
	_ "verif/checks/c04"
	_ "verif/checks/c05"
	_ "verif/checks/c06"
	_ "verif/checks/c07"
	_ "verif/checks/c08"
	_ "verif/checks/c09"
	_ "verif/checks/c10"
	_ "verif/checks/c11"
	_ "verif/checks/c12"
	_ "verif/checks/c13"
	_ "verif/checks/c14"
	_ "verif/checks/c15"
	_ "verif/checks/c16"
	_ "verif/checks/c17"
	_ "verif/checks/c18"
	_ "verif/checks/c19"
	_ "verif/checks/c19c"
	"verif/internal/ev"
)

func main() { os.Exit(ev.Main(os.Args[1:])) }
