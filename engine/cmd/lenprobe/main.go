package main

import (
	"fmt"
	"os"

	"github.com/jsightapi/jsight-schema-go-library/formats/json"
	"github.com/jsightapi/jsight-schema-go-library/notations/jschema"
	"github.com/jsightapi/jsight-schema-go-library/notations/regex"
	"github.com/jsightapi/jsight-schema-go-library/rules/enum"
)

func main() {
	for _, a := range os.Args[2:] {
		var n uint
		var err error
		func() {
			defer func() {
				if r := recover(); r != nil {
					err = fmt.Errorf("PANIC %v", r)
				}
			}()
			switch os.Args[1] {
			case "schema":
				n, err = jschema.New("s", a).Len()
			case "json":
				n, err = json.New("s", a, json.AllowTrailingNonSpaceCharacters()).Len()
			case "enum":
				n, err = enum.New("s", a).Len()
			case "regex":
				n, err = regex.New("s", a).Len()
			}
		}()
		fmt.Printf("%q -> %d %v\n", a, n, err)
	}
}
