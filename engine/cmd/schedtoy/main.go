//go:build shim

package main

import (
	"fmt"

	"github.com/jsightapi/jsight-schema-go-library/formats/json"
	"github.com/jsightapi/jsight-schema-go-library/notations/jschema"
	shim "github.com/jsightapi/jsight-schema-go-library/verifshim"

	"verif/sched"
)

func main() {
	res := make([]string, 3)
	sc := sched.Scenario{Name: "toy", Setup: func() ([]func(), func(*shim.Execution) string) {
		s := jschema.New("s", "{\n  \"a\": 1 // {min: 0}\n}")
		s.Check()
		s2 := jschema.New("s2", "{\n  \"bbbbbbbbbbbbbbbbbbbbbbb\": 2\n}")
		s2.Check()
		body := func(i int) func() {
			return func() {
				if i == 1 {
					b, _ := s2.Example()
					res[i] = string(b)
					return
				}
				err := s.Validate(json.New("d", `{"a":1}`))
				b, _ := s.Example()
				res[i] = fmt.Sprint(err, string(b))
			}
		}
		return []func(){body(0), body(1)}, func(e *shim.Execution) string {
			if res[0] != `<nil>{"a":1}` || res[1] != `{"bbbbbbbbbbbbbbbbbbbbbbb":2}` {
				return fmt.Sprintf("results %q", res)
			}
			return ""
		}
	}}
	bad := 0
	st := sched.Explore(sc, sched.Bounds{Preemptions: 2, EnvDevs: 0, StepLimit: 2000}, func(ch []int, e *shim.Execution, v string) {
		if v != "" {
			bad++
			if bad < 4 {
				fmt.Println("VIOLATION", ch, v)
			}
		}
	})
	fmt.Printf("executions=%d decisions=%d maxdepth=%d bad=%d\n", st.Executions, st.Decisions, st.MaxDepth, bad)
}
