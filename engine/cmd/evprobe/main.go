//go:build verif

package main

import (
	"fmt"
	"io"
	"os"

	"github.com/jsightapi/jsight-schema-go-library/formats/json"
	"github.com/jsightapi/jsight-schema-go-library/notations/jschema/verifhooks"
	"github.com/jsightapi/jsight-schema-go-library/rules/enum"
)

func main() {
	for _, a := range os.Args[1:] {
		fmt.Printf("== %q\njson:  ", a)
		d := json.New("d", a)
		for {
			lex, err := d.NextLexeme()
			if err != nil {
				if err != io.EOF {
					fmt.Print(" ERR ", err)
				}
				break
			}
			fmt.Printf("%s[%d:%d] ", lex.Type(), lex.Begin(), lex.End())
		}
		fmt.Print("\nschema: ")
		evs, err := verifhooks.ScanSchema([]byte(a))
		for _, e := range evs {
			fmt.Printf("%s[%d:%d] ", e.Type, e.Begin, e.End)
		}
		if err != nil {
			fmt.Print(" ERR ", err)
		}
		fmt.Print("\nenum:  ")
		ev2, err := enum.VerifScan([]byte(a))
		for _, e := range ev2 {
			fmt.Printf("%s[%d:%d] ", e.Type, e.Begin, e.End)
		}
		if err != nil {
			fmt.Print(" ERR ", err)
		}
		fmt.Println()
	}
}
