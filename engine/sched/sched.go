//go:build shim

// Package sched is the stateless explorer over the controlled scheduler in
// the injected shim package: depth-first search over choice prefixes with a
// preemption bound (thread switches away from a still-enabled thread) and a
// separate deviation bound for environment answers (pool answers, map orders).
package sched

import (
	"fmt"

	shim "github.com/jsightapi/jsight-schema-go-library/verifshim"
)

type Bounds struct {
	Preemptions int
	EnvDevs     int
	StepLimit   int
	MaxExec     int // cap on executions (0 = none)
	// Stop, when set, is polled before every execution: the exploration ends
	// (Capped) as soon as it returns true (internal deadline of the check).
	Stop func() bool
}

type Stats struct {
	Executions int
	Decisions  int
	Capped     bool
	MaxDepth   int
}

// Scenario builds the thread bodies for one execution (objects must be rebuilt
// per execution) and checks the outcome afterwards.
type Scenario struct {
	Name  string
	Setup func() (bodies []func(), check func(e *shim.Execution) string)
}

// Violation of one execution.
type Violation struct {
	Scenario string `json:"scenario"`
	Choices  []int  `json:"choices"`
	What     string `json:"what"`
}

func cost(d shim.Decision) (pre, env int) {
	if d.Chosen == 0 {
		return 0, 0
	}
	if d.Kind == "sched" {
		if d.RunningEnabled {
			return 1, 0
		}
		return 0, 0
	}
	return 0, 1
}

// Explore runs the DFS. onExec is called after every execution.
func Explore(sc Scenario, b Bounds, onExec func(choices []int, e *shim.Execution, verdict string)) Stats {
	var st Stats
	var rec func(prefix []int)
	rec = func(prefix []int) {
		if b.MaxExec > 0 && st.Executions >= b.MaxExec {
			st.Capped = true
			return
		}
		if b.Stop != nil && b.Stop() {
			st.Capped = true
			return
		}
		bodies, check := sc.Setup()
		e := shim.Run(prefix, b.StepLimit, bodies)
		st.Executions++
		st.Decisions += len(e.Decisions)
		if len(e.Decisions) > st.MaxDepth {
			st.MaxDepth = len(e.Decisions)
		}
		verdict := ""
		switch {
		case e.Diverged != "":
			verdict = "INTERNAL: replay diverged: " + e.Diverged
		case e.Deadlock:
			verdict = "deadlock: no enabled thread while some are unfinished"
		case e.StepLimit:
			verdict = fmt.Sprintf("livelock: more than %d decisions", b.StepLimit)
		default:
			for i, p := range e.Panics {
				if p != nil {
					verdict = fmt.Sprintf("thread %d panicked: %v", i, p)
				}
			}
			if e.OnceMaxBodies > 1 {
				verdict = fmt.Sprintf("a Once body ran %d times", e.OnceMaxBodies)
			}
			if verdict == "" {
				verdict = check(e)
			}
		}
		choices := make([]int, len(e.Decisions))
		for i, d := range e.Decisions {
			choices[i] = d.Chosen
		}
		onExec(choices, e, verdict)
		// costs along the executed path
		pre, env := 0, 0
		preAt := make([]int, len(e.Decisions)+1)
		envAt := make([]int, len(e.Decisions)+1)
		for i, d := range e.Decisions {
			preAt[i], envAt[i] = pre, env
			p, v := cost(d)
			pre += p
			env += v
		}
		for i := len(prefix); i < len(e.Decisions); i++ {
			d := e.Decisions[i]
			for alt := 1; alt < d.Options; alt++ {
				dp, dv := cost(shim.Decision{Kind: d.Kind, Chosen: alt, RunningEnabled: d.RunningEnabled})
				if preAt[i]+dp > b.Preemptions || envAt[i]+dv > b.EnvDevs {
					continue
				}
				np := append(append([]int{}, choices[:i]...), alt)
				rec(np)
			}
		}
	}
	rec(nil)
	return st
}
