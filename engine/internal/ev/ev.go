// Package ev is the shared run-time of all checks: sharding over worker
// processes, counters, samples, violation collection, known-finding matching,
// replay files and the evidence writer.
package ev

import (
	"bufio"
	"bytes"
	"crypto/sha1"
	"encoding/hex"
	"encoding/json"
	"fmt"
	"os"
	"os/exec"
	"path/filepath"
	"runtime"
	"runtime/debug"
	"sort"
	"strconv"
	"strings"
	"sync"
	"sync/atomic"
	"time"
)

// Violation is one (reduced) counterexample.
type Violation struct {
	// Key identifies the violation for known-finding matching: it must be a
	// deterministic function of the reduced failing case and the direction of
	// the disagreement, never of timing or enumeration order.
	Key string `json:"key"`
	// What is the human readable one-liner.
	What string `json:"what"`
	// Case is whatever the check's Replay function needs to re-execute it.
	Case json.RawMessage `json:"case"`
}

// Check describes one property's machinery.
type Check struct {
	ID    string
	Level string // evidence level
	Rule  string // how cases are enumerated and what counts as non-trivial
	// Workers returns the number of worker processes for the tier.
	Workers func(tier string) int
	// Run enumerates the shard's part of the space.
	Run func(c *Ctx)
	// Replay re-executes one recorded case without the explorer; it returns
	// whether the violation reproduces and a description.
	Replay func(raw json.RawMessage) (bool, string)
	// Assumptions go verbatim into the evidence.
	Assumptions []string
	// QuickBudget/ThoroughBudget are the internal deadlines.
	QuickBudget, ThoroughBudget time.Duration
	// CrashIsViolation: the death of a worker (fatal error, stack overflow,
	// OOM) is itself a violation of the property (C07, C09). Otherwise a worker
	// death is an internal error (exit 3).
	CrashIsViolation bool
	// Finish, if set, runs in the parent after all shards were merged; it may
	// add derived counters or violations that need the global view.
	Finish func(p *Merged)
	// RaceLog: workers run with GORACE=log_path=... and VERIF_RACE_LOG set, so
	// that the check can attribute race reports to executions.
	RaceLog bool
	// ExtraID: after the own shards, run check ExtraID of the binary named by
	// $VERIF_EXTRA_BIN as one more shard and merge its result (used to combine a
	// plain and a scheduler-variant part under one property).
	ExtraID string
}

var registry = map[string]*Check{}

func Register(c *Check) { registry[c.ID] = c }

func Lookup(id string) *Check { return registry[id] }

func IDs() []string {
	var r []string
	for k := range registry {
		r = append(r, k)
	}
	sort.Strings(r)
	return r
}

// Ctx is handed to Check.Run in a worker.
type Ctx struct {
	Prop     string
	Tier     string
	Seed     int64
	Shard    int
	NShards  int
	deadline time.Time
	partEnd  time.Time
	partName string

	mu         sync.Mutex
	counters   map[string]int64
	bounds     map[string]any
	caps       []string
	samples    []any
	sampleSeen map[string]bool
	viol       map[string]Violation
	violTotal  int64
	exhaustive bool
	idx        int64
	beat       int64
	sites      map[string]bool
	trace      *os.File
}

const maxViolKeys = 200

func (c *Ctx) Thorough() bool { return c.Tier == "thorough" }

// Mine is the sharding predicate for a running case index: call it once per
// top-level case, in the same order in every shard.
func (c *Ctx) Mine() bool {
	i := c.idx
	c.idx++
	return int(i%int64(c.NShards)) == c.Shard
}

// MineKey shards on a string (stable hash) instead of a running index.
func (c *Ctx) MineKey(k string) bool {
	h := uint32(2166136261)
	for i := 0; i < len(k); i++ {
		h ^= uint32(k[i])
		h *= 16777619
	}
	return int(h%uint32(c.NShards)) == c.Shard
}

func (c *Ctx) Add(name string, n int64) { c.counters[name] += n }
func (c *Ctx) Inc(name string)          { c.counters[name]++ }
func (c *Ctx) Get(name string) int64    { return c.counters[name] }

// Max keeps the maximum of a named gauge.
func (c *Ctx) Max(name string, n int64) {
	if n > c.counters[name] {
		c.counters[name] = n
	}
}

// Eval counts one evaluated case; nontrivial says whether it is distinct and
// non-trivial by the check's rule (the caller guarantees distinctness by
// construction of its enumeration).
func (c *Ctx) Eval(nontrivial bool) {
	c.beat = time.Now().UnixNano()
	c.counters["evaluations"]++
	if nontrivial {
		c.counters["distinct_nontrivial"]++
	}
}

func (c *Ctx) Bound(name string, v any) { c.bounds[name] = v }

// Cap records that a limit was hit; the run is then not exhaustive.
func (c *Ctx) Cap(what string) {
	for _, x := range c.caps {
		if x == what {
			return
		}
	}
	c.caps = append(c.caps, what)
	c.exhaustive = false
}

// Expired reports whether the internal deadline passed (and records the cap).
func (c *Ctx) Expired() bool {
	if time.Now().After(c.deadline) {
		c.Cap("internal deadline reached")
		return true
	}
	if !c.partEnd.IsZero() && time.Now().After(c.partEnd) {
		c.Cap("share of the budget used up by part: " + c.partName)
		return true
	}
	return false
}

// Part gives the part that follows at most the fraction frac of the time that is LEFT until the internal
// deadline (a check made of several explorations must not let the first one eat the whole budget);
// EndPart lifts the limit again.
func (c *Ctx) Part(name string, frac float64) {
	left := time.Until(c.deadline)
	if left < 0 {
		left = 0
	}
	c.partName = name
	c.partEnd = time.Now().Add(time.Duration(float64(left) * frac))
}

func (c *Ctx) EndPart() { c.partEnd = time.Time{}; c.partName = "" }

// Sample keeps up to a few cases per class for the evidence file.
func (c *Ctx) Sample(class string, x any) {
	if c.sampleSeen[class] {
		return
	}
	if len(c.samples) >= 12 {
		return
	}
	c.sampleSeen[class] = true
	c.samples = append(c.samples, map[string]any{"class": class, "case": x})
}

// Site marks a named coverage site as reached.
func (c *Ctx) Site(name string) { c.sites[name] = true }

// Violate records a violation (deduplicated by key, capped).
func (c *Ctx) Violate(key, what string, cas any) {
	c.violTotal++
	if _, ok := c.viol[key]; ok {
		return
	}
	if len(c.viol) >= maxViolKeys {
		return
	}
	raw, err := json.Marshal(cas)
	if err != nil {
		raw, _ = json.Marshal(fmt.Sprintf("%v", cas))
	}
	c.viol[key] = Violation{Key: key, What: what, Case: raw}
}

// Trace writes the in-flight case when the worker runs in trace mode (used by
// the parent to attribute a worker death to a case).
func (c *Ctx) Trace(desc func() string) {
	if c.trace != nil {
		fmt.Fprintln(c.trace, desc())
	}
}

func (c *Ctx) Tracing() bool { return c.trace != nil }

type shardResult struct {
	Counters   map[string]int64 `json:"counters"`
	Bounds     map[string]any   `json:"bounds"`
	Caps       []string         `json:"caps"`
	Samples    []any            `json:"samples"`
	Viol       []Violation      `json:"viol"`
	ViolTotal  int64            `json:"viol_total"`
	Exhaustive bool             `json:"exhaustive"`
	Sites      []string         `json:"sites"`
}

// Merged is the parent's view after merging all shards.
type Merged struct {
	Check      *Check
	Tier       string
	Counters   map[string]int64
	Bounds     map[string]any
	Caps       []string
	Samples    []any
	Viol       map[string]Violation
	ViolTotal  int64
	Exhaustive bool
	Sites      map[string]bool
	Notes      []string
}

func (m *Merged) Violate(key, what string, cas any) {
	m.ViolTotal++
	if _, ok := m.Viol[key]; ok {
		return
	}
	raw, _ := json.Marshal(cas)
	m.Viol[key] = Violation{Key: key, What: what, Case: raw}
}

func verifDir() string {
	if d := os.Getenv("VERIF_DIR"); d != "" {
		return d
	}
	return "/verif"
}

// outDir is where evidence and replays are written: VERIF_DIR, unless VERIF_OUT
// redirects them (runs against a scratch checkout must not overwrite the
// evidence of the real tree).
func outDir() string {
	if d := os.Getenv("VERIF_OUT"); d != "" {
		return d
	}
	return verifDir()
}

// Main is the entry point used by cmd/vcheck.
func Main(args []string) int {
	if len(args) >= 3 && args[1] == "--replay" {
		return replayMain(args[0], args[2])
	}
	if len(args) < 2 {
		fmt.Fprintln(os.Stderr, "usage: vcheck <Cxx> <quick|thorough> | vcheck <Cxx> --replay <file>")
		return 2
	}
	id, tier := args[0], args[1]
	ck := Lookup(id)
	if ck == nil {
		fmt.Fprintf(os.Stderr, "unknown check %s (have %v)\n", id, IDs())
		return 2
	}
	if tier != "quick" && tier != "thorough" {
		fmt.Fprintln(os.Stderr, "tier must be quick or thorough")
		return 2
	}
	if sh := os.Getenv("VERIF_SHARD"); sh != "" {
		return workerMain(ck, tier, sh)
	}
	return parentMain(ck, tier)
}

func seed() int64 {
	s, _ := strconv.ParseInt(os.Getenv("VERIF_SEED"), 10, 64)
	return s
}

func budget(ck *Check, tier string) time.Duration {
	b := ck.QuickBudget
	if b == 0 {
		b = 75 * time.Second
	}
	if tier == "thorough" {
		b = ck.ThoroughBudget
		if b == 0 {
			b = 15 * time.Minute
		}
	}
	if s := os.Getenv("VERIF_BUDGET_S"); s != "" {
		if n, err := strconv.Atoi(s); err == nil {
			b = time.Duration(n) * time.Second
		}
	}
	return b
}

func workerMain(ck *Check, tier, sh string) int {
	var shard, n int
	if _, err := fmt.Sscanf(sh, "%d/%d", &shard, &n); err != nil || n <= 0 {
		fmt.Fprintln(os.Stderr, "bad VERIF_SHARD")
		return 2
	}
	c := &Ctx{
		Prop: ck.ID, Tier: tier, Seed: seed(), Shard: shard, NShards: n,
		deadline:   time.Now().Add(budget(ck, tier)),
		counters:   map[string]int64{},
		bounds:     map[string]any{},
		sampleSeen: map[string]bool{},
		viol:       map[string]Violation{},
		sites:      map[string]bool{},
		exhaustive: true,
	}
	if p := os.Getenv("VERIF_TRACE"); p != "" {
		f, err := os.Create(p)
		if err == nil {
			c.trace = f
			defer f.Close()
		}
	}
	debug.SetMaxStack(48 << 20)
	// memory guard: a runaway exploration must not take the machine down
	go func() {
		var ms runtime.MemStats
		for {
			time.Sleep(3 * time.Second)
			runtime.ReadMemStats(&ms)
			if ms.Sys > 6<<30 {
				fmt.Fprintln(os.Stderr, "INTERNAL: worker exceeded 6 GiB, aborting")
				os.Exit(5)
			}
		}
	}()
	if ck.CrashIsViolation {
		c.beat = time.Now().UnixNano()
		go func() {
			for {
				time.Sleep(2 * time.Second)
				if time.Since(time.Unix(0, atomicLoad(&c.beat))) > 40*time.Second {
					fmt.Fprintln(os.Stderr, "fatal error: HANG: no progress for 40s (a library call does not terminate)")
					os.Exit(4)
				}
			}
		}()
	}
	ck.Run(c)
	r := shardResult{
		Counters: c.counters, Bounds: c.bounds, Caps: c.caps, Samples: c.samples,
		ViolTotal: c.violTotal, Exhaustive: c.exhaustive,
	}
	for _, v := range c.viol {
		r.Viol = append(r.Viol, v)
	}
	sort.Slice(r.Viol, func(i, j int) bool { return r.Viol[i].Key < r.Viol[j].Key })
	for s := range c.sites {
		r.Sites = append(r.Sites, s)
	}
	sort.Strings(r.Sites)
	out, err := json.Marshal(r)
	if err != nil {
		fmt.Fprintln(os.Stderr, "marshal result:", err)
		return 3
	}
	w := bufio.NewWriter(os.Stdout)
	w.WriteString("RESULT ")
	w.Write(out)
	w.WriteString("\n")
	w.Flush()
	return 0
}

type workerOutcome struct {
	res    *shardResult
	err    error
	stderr string
}

func runWorker(ck *Check, tier string, shard, n int, trace string) workerOutcome {
	self, _ := os.Executable()
	cmd := exec.Command(self, ck.ID, tier)
	cmd.Env = append(os.Environ(), fmt.Sprintf("VERIF_SHARD=%d/%d", shard, n))
	if os.Getenv("GOMAXPROCS") == "" {
		cmd.Env = append(cmd.Env, "GOMAXPROCS=2")
	}
	if trace != "" {
		cmd.Env = append(cmd.Env, "VERIF_TRACE="+trace)
	}
	if ck.RaceLog {
		dir := filepath.Join(verifDir(), ".build", "race")
		os.MkdirAll(dir, 0o755)
		lp := filepath.Join(dir, fmt.Sprintf("%s-%d", ck.ID, shard))
		old, _ := filepath.Glob(lp + ".*")
		for _, o := range old {
			os.Remove(o)
		}
		cmd.Env = append(cmd.Env, "GORACE=log_path="+lp+" halt_on_error=0", "VERIF_RACE_LOG="+lp, "GOMAXPROCS=1")
	}
	var so, se bytes.Buffer
	cmd.Stdout = &so
	cmd.Stderr = &se
	err := cmd.Run()
	o := workerOutcome{err: err, stderr: tail(se.String(), 4000)}
	for _, line := range strings.Split(so.String(), "\n") {
		if strings.HasPrefix(line, "RESULT ") {
			var r shardResult
			if e := json.Unmarshal([]byte(line[7:]), &r); e == nil {
				o.res = &r
			} else {
				o.err = e
			}
		}
	}
	if o.res == nil && o.err == nil {
		o.err = fmt.Errorf("worker produced no result")
	}
	return o
}

// runExtra runs `$VERIF_EXTRA_BIN <ExtraID> <tier>` (a complete parent run of
// another variant binary) and converts its evidence into a shard result.
func runExtra(ck *Check, tier string) workerOutcome {
	bin := os.Getenv("VERIF_EXTRA_BIN")
	if bin == "" {
		r := shardResult{Counters: map[string]int64{}, Exhaustive: false, Caps: []string{"extra variant binary unavailable: " + ck.ExtraID + " part skipped"}}
		return workerOutcome{res: &r}
	}
	cmd := exec.Command(bin, ck.ExtraID, tier)
	cmd.Env = append(os.Environ(), "VERIF_AS_SHARD=1")
	var so, se bytes.Buffer
	cmd.Stdout = &so
	cmd.Stderr = &se
	err := cmd.Run()
	o := workerOutcome{stderr: tail(se.String(), 4000)}
	for _, line := range strings.Split(so.String(), "\n") {
		if strings.HasPrefix(line, "MERGED ") {
			var r shardResult
			if e := json.Unmarshal([]byte(line[7:]), &r); e == nil {
				o.res = &r
			}
		}
	}
	if o.res == nil {
		o.err = fmt.Errorf("extra variant run failed: %v", err)
	}
	return o
}

func tail(s string, n int) string {
	if len(s) > n {
		return s[:n/2] + "\n...\n" + s[len(s)-n/2:]
	}
	return s
}

func parentMain(ck *Check, tier string) int {
	start := time.Now()
	n := 16
	if ck.Workers != nil {
		n = ck.Workers(tier)
	}
	if s := os.Getenv("VERIF_WORKERS"); s != "" {
		if k, err := strconv.Atoi(s); err == nil && k > 0 {
			n = k
		}
	}
	outs := make([]workerOutcome, n)
	if ck.ExtraID != "" {
		outs = make([]workerOutcome, n+1)
	}
	var wg sync.WaitGroup
	if ck.ExtraID != "" {
		wg.Add(1)
		go func() {
			defer wg.Done()
			outs[n] = runExtra(ck, tier)
		}()
	}
	for i := 0; i < n; i++ {
		wg.Add(1)
		go func(i int) {
			defer wg.Done()
			outs[i] = runWorker(ck, tier, i, n, "")
		}(i)
	}
	wg.Wait()

	m := &Merged{
		Check: ck, Tier: tier, Counters: map[string]int64{}, Bounds: map[string]any{},
		Viol: map[string]Violation{}, Exhaustive: true, Sites: map[string]bool{},
	}
	internalErr := false
	for i, o := range outs {
		if o.res == nil {
			// Worker died.
			if ck.CrashIsViolation {
				what, cas := attributeCrash(ck, tier, i, n, o)
				if what != "" {
					m.Violate("crash:"+cas, what, map[string]any{"crash_case": cas})
					m.Exhaustive = false
					m.Caps = append(m.Caps, fmt.Sprintf("shard %d aborted by worker death", i))
					continue
				}
			}
			fmt.Fprintf(os.Stderr, "INTERNAL: worker %d/%d failed: %v\n%s\n", i, n, o.err, o.stderr)
			internalErr = true
			continue
		}
		if o.stderr != "" && os.Getenv("VERIF_VERBOSE") != "" {
			fmt.Fprintf(os.Stderr, "[worker %d stderr]\n%s\n", i, o.stderr)
		}
		r := o.res
		for k, v := range r.Counters {
			if strings.HasPrefix(k, "max_") {
				if v > m.Counters[k] {
					m.Counters[k] = v
				}
			} else {
				m.Counters[k] += v
			}
		}
		for k, v := range r.Bounds {
			m.Bounds[k] = v
		}
		for _, c := range r.Caps {
			dup := false
			for _, x := range m.Caps {
				dup = dup || x == c
			}
			if !dup {
				m.Caps = append(m.Caps, c)
			}
		}
		if len(m.Samples) < 12 {
			for _, s := range r.Samples {
				if len(m.Samples) < 12 {
					m.Samples = append(m.Samples, s)
				}
			}
		}
		for _, v := range r.Viol {
			if _, ok := m.Viol[v.Key]; !ok {
				m.Viol[v.Key] = v
			}
		}
		m.ViolTotal += r.ViolTotal
		m.Exhaustive = m.Exhaustive && r.Exhaustive
		for _, s := range r.Sites {
			m.Sites[s] = true
		}
	}
	if internalErr {
		return 3
	}
	if ck.Finish != nil {
		ck.Finish(m)
	}

	if os.Getenv("VERIF_AS_SHARD") != "" {
		r := shardResult{Counters: m.Counters, Bounds: m.Bounds, Caps: m.Caps, Samples: m.Samples, ViolTotal: m.ViolTotal, Exhaustive: m.Exhaustive}
		for _, v := range m.Viol {
			r.Viol = append(r.Viol, v)
		}
		for s := range m.Sites {
			r.Sites = append(r.Sites, s)
		}
		out, _ := json.Marshal(r)
		fmt.Println("MERGED " + string(out))
		return 0
	}
	os.RemoveAll(filepath.Join(outDir(), "replays", ck.ID))
	// Known findings.
	kf := loadKnown()
	var keys []string
	for k := range m.Viol {
		keys = append(keys, k)
	}
	sort.Strings(keys)
	newViol := 0
	knownSeen := 0
	for _, k := range keys {
		v := m.Viol[k]
		if e := kf.match(ck.ID, k); e != nil {
			fmt.Printf("KNOWN-FINDING: property=%s %s [%s]\n", ck.ID, e.What, k)
			knownSeen++
			continue
		}
		path := writeReplay(ck.ID, v)
		fmt.Printf("VIOLATION property=%s replay=%s\n", ck.ID, path)
		fmt.Printf("  %s\n", v.What)
		newViol++
	}
	wall := time.Since(start).Seconds()
	writeEvidence(m, newViol, knownSeen, wall)
	fmt.Printf("%s %s: evaluations=%d distinct_nontrivial=%d states=%d transitions=%d exhaustive=%v violations=%d known=%d wall=%.1fs\n",
		ck.ID, tier, m.Counters["evaluations"], m.Counters["distinct_nontrivial"], m.Counters["states"], m.Counters["transitions"], m.Exhaustive && len(m.Caps) == 0, newViol, knownSeen, wall)
	if newViol > 0 {
		return 1
	}
	return 0
}

// attributeCrash re-runs the dead shard in trace mode (the worker then writes
// every case before executing it) and returns the last traced case if the
// worker dies again.
func attributeCrash(ck *Check, tier string, shard, n int, first workerOutcome) (string, string) {
	dir := filepath.Join(verifDir(), ".build", "trace")
	os.MkdirAll(dir, 0o755)
	last := ""
	deaths := 0
	for attempt := 0; attempt < 3; attempt++ {
		p := filepath.Join(dir, fmt.Sprintf("%s-%d-%d.trace", ck.ID, shard, attempt))
		o := runWorker(ck, tier, shard, n, p)
		data, _ := os.ReadFile(p)
		os.Remove(p)
		if o.res != nil {
			continue
		}
		deaths++
		lines := strings.Split(strings.TrimSpace(string(data)), "\n")
		cur := lines[len(lines)-1]
		if last != "" && cur != last {
			// not deterministic: do not believe it
			return "", ""
		}
		last = cur
	}
	if deaths < 3 || last == "" {
		return "", ""
	}
	reason := "worker process died"
	for _, l := range strings.Split(first.stderr, "\n") {
		if strings.HasPrefix(l, "fatal error:") || strings.HasPrefix(l, "runtime:") || strings.HasPrefix(l, "panic:") {
			reason = l
			break
		}
	}
	return fmt.Sprintf("process-fatal failure (%s) while executing case %s", reason, last), last
}

// ---- known findings ---------------------------------------------------

type knownEntry struct {
	Property string `json:"property"`
	Status   string `json:"status"` // "known" | "fixed"
	Key      string `json:"key"`
	What     string `json:"what"`
	Commit   string `json:"commit,omitempty"`
}

type knownFile struct {
	Findings []knownEntry `json:"findings"`
}

func loadKnown() *knownFile {
	var kf knownFile
	data, err := os.ReadFile(filepath.Join(verifDir(), "known_findings.json"))
	if err != nil {
		return &kf
	}
	if err := json.Unmarshal(data, &kf); err != nil {
		fmt.Fprintln(os.Stderr, "known_findings.json unreadable:", err)
	}
	return &kf
}

func (k *knownFile) match(prop, key string) *knownEntry {
	for i := range k.Findings {
		e := &k.Findings[i]
		if e.Status == "known" && e.Property == prop && e.Key == key {
			return e
		}
	}
	return nil
}

// ---- replays ------------------------------------------------------------

type replayFile struct {
	Property string          `json:"property"`
	Key      string          `json:"key"`
	What     string          `json:"what"`
	Case     json.RawMessage `json:"case"`
	Howto    string          `json:"howto"`
}

func writeReplay(id string, v Violation) string {
	h := sha1.Sum([]byte(v.Key))
	dir := filepath.Join(outDir(), "replays", id)
	os.MkdirAll(dir, 0o755)
	p := filepath.Join(dir, hex.EncodeToString(h[:6])+".json")
	rf := replayFile{Property: id, Key: v.Key, What: v.What, Case: v.Case,
		Howto: fmt.Sprintf("cd /verif && ./check %s --replay %s", id, p)}
	data, _ := json.MarshalIndent(rf, "", " ")
	os.WriteFile(p, data, 0o644)
	return p
}

func replayMain(id, path string) int {
	ck := Lookup(id)
	if ck == nil || ck.Replay == nil {
		fmt.Fprintln(os.Stderr, "no replay for", id)
		return 2
	}
	data, err := os.ReadFile(path)
	if err != nil {
		fmt.Fprintln(os.Stderr, err)
		return 2
	}
	var rf replayFile
	if err := json.Unmarshal(data, &rf); err != nil {
		fmt.Fprintln(os.Stderr, err)
		return 2
	}
	fails := 0
	var desc string
	for i := 0; i < 5; i++ {
		ok, d := ck.Replay(rf.Case)
		desc = d
		if ok {
			fails++
		}
	}
	fmt.Printf("replay %s: reproduced %d/5: %s\n", path, fails, desc)
	if fails == 5 {
		fmt.Printf("VIOLATION property=%s replay=%s\n", id, path)
		return 1
	}
	return 0
}

// ---- evidence -----------------------------------------------------------

func writeEvidence(m *Merged, newViol, known int, wall float64) {
	ck := m.Check
	cov := map[string]any{}
	hist := map[string]int64{}
	for k, v := range m.Counters {
		switch k {
		case "evaluations", "distinct_nontrivial", "states", "transitions", "traces_validated_against_impl":
			cov[k] = v
		default:
			hist[k] = v
		}
	}
	if _, ok := cov["evaluations"]; !ok {
		cov["evaluations"] = int64(0)
	}
	if _, ok := cov["distinct_nontrivial"]; !ok {
		cov["distinct_nontrivial"] = int64(0)
	}
	cov["rule"] = ck.Rule
	if len(m.Samples) == 0 {
		m.Samples = []any{map[string]any{"class": "none-recorded", "case": "the check recorded no sample case in this run (see histogram and bounds)"}}
	}
	cov["samples"] = m.Samples
	cov["exhaustive"] = m.Exhaustive && len(m.Caps) == 0
	cov["caps_hit"] = m.Caps
	cov["bounds_completed"] = m.Bounds
	cov["histogram"] = hist
	cov["violating_cases_total"] = m.ViolTotal
	cov["known_findings_seen"] = known
	if len(m.Sites) > 0 {
		var s []string
		for k := range m.Sites {
			s = append(s, k)
		}
		sort.Strings(s)
		cov["sites_reached"] = s
	}
	if len(m.Notes) > 0 {
		cov["notes"] = m.Notes
	}
	e := map[string]any{
		"property_id": ck.ID,
		"tier":        m.Tier,
		"seed":        seed(),
		"level":       ck.Level,
		"coverage":    cov,
		"assumptions": ck.Assumptions,
		"wall_s":      wall,
		"violations":  newViol,
	}
	data, _ := json.MarshalIndent(e, "", " ")
	dir := filepath.Join(outDir(), "evidence")
	os.MkdirAll(dir, 0o755)
	os.WriteFile(filepath.Join(dir, ck.ID+".json"), append(data, '\n'), 0o644)
}

func atomicLoad(p *int64) int64 { return atomic.LoadInt64(p) }
