package ev

// Reduce greedily simplifies a violating case: cands lists the one-step
// simplifications of a case in a fixed order (simplest first); bad reports
// whether a candidate still violates in the same direction. The result is a
// fixpoint: none of its one-step simplifications violates. Deterministic.
func Reduce[T any](start T, cands func(T) []T, bad func(T) bool) T {
	cur := start
	for rounds := 0; rounds < 10000; rounds++ {
		progressed := false
		for _, cand := range cands(cur) {
			if bad(cand) {
				cur = cand
				progressed = true
				break
			}
		}
		if !progressed {
			return cur
		}
	}
	return cur
}
