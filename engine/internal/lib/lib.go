// Package lib drives the library's public API with panic capture and
// turns results into comparable values.
package lib

import (
	"errors"
	"fmt"
	"strings"

	jlib "github.com/jsightapi/jsight-schema-go-library"
	lbytes "github.com/jsightapi/jsight-schema-go-library/bytes"
	liberrors "github.com/jsightapi/jsight-schema-go-library/errors"
	"github.com/jsightapi/jsight-schema-go-library/formats/json"
	"github.com/jsightapi/jsight-schema-go-library/fs"
	"github.com/jsightapi/jsight-schema-go-library/notations/jschema"
	"github.com/jsightapi/jsight-schema-go-library/notations/regex"
	"github.com/jsightapi/jsight-schema-go-library/rules/enum"
)

// Res is the comparable outcome of one call.
type Res struct {
	OK     bool   `json:"ok"`
	Code   int    `json:"code,omitempty"`
	Pos    uint   `json:"pos,omitempty"`
	HasPos bool   `json:"has_pos,omitempty"`
	Msg    string `json:"msg,omitempty"`
	Panic  string `json:"panic,omitempty"`
	Type   string `json:"type,omitempty"`
	File   string `json:"file,omitempty"`   // Filename() of the error, when exposed
	Render string `json:"render,omitempty"` // Error() text (or the panic it raises)
}

// Full is Verdict plus the file the error names and whether rendering it panics.
func (r Res) Full() string {
	if r.Panic != "" || r.OK {
		return r.Verdict()
	}
	// the message text itself is not part of it: it may list keys in map order
	return fmt.Sprintf("%s[%s]panics=%v", r.Verdict(), r.File, strings.HasPrefix(r.Render, "<Error() panicked"))
}

func (r Res) String() string {
	if r.Panic != "" {
		return "PANIC(" + r.Panic + ")"
	}
	if r.OK {
		return "ok"
	}
	if r.HasPos {
		return fmt.Sprintf("error code=%d pos=%d %q", r.Code, r.Pos, r.Msg)
	}
	return fmt.Sprintf("error code=%d %q", r.Code, r.Msg)
}

// Verdict is the part of Res compared across histories/spellings.
func (r Res) Verdict() string {
	if r.Panic != "" {
		return "panic"
	}
	if r.OK {
		return "ok"
	}
	return fmt.Sprintf("err%d@%d", r.Code, r.Pos)
}

type coder interface{ ErrCode() int }
type positioner interface{ Position() uint }
type messager interface{ Message() string }
type filenamer interface{ Filename() string }

// FromErr classifies an error value.
func FromErr(err error) Res {
	if err == nil {
		return Res{OK: true}
	}
	r := Res{Type: fmt.Sprintf("%T", err)}
	var c coder
	var bare liberrors.Err
	if errors.As(err, &c) {
		r.Code = c.ErrCode()
	} else if errors.As(err, &bare) {
		// a bare errors.Errorf / ErrorCode value: it has a code but no ErrCode()
		r.Code = int(bare.Code())
		r.Type += " (bare)"
	} else {
		r.Code = -1
	}
	var p positioner
	if errors.As(err, &p) {
		r.Pos, r.HasPos = p.Position(), true
	}
	var m messager
	if errors.As(err, &m) {
		r.Msg = m.Message()
	} else {
		r.Msg = safeErrorText(err)
	}
	var fn filenamer
	if errors.As(err, &fn) {
		r.File = fn.Filename()
	}
	r.Render = safeErrorText(err)
	return r
}

func safeErrorText(err error) (s string) {
	defer func() {
		if r := recover(); r != nil {
			s = fmt.Sprintf("<Error() panicked: %v>", r)
		}
	}()
	return err.Error()
}

// Guard runs f and converts a panic into Res.Panic.
func Guard(f func() error) (res Res) {
	defer func() {
		if r := recover(); r != nil {
			res = Res{Panic: fmt.Sprint(r)}
		}
	}()
	return FromErr(f())
}

// TypeDef is a named user type (schema text or regex) or enum rule.
type TypeDef struct {
	Name string `json:"name"`
	Text string `json:"text"`
	Kind string `json:"kind,omitempty"` // "" schema, "regex", "enum"
}

// SchemaSpec is everything needed to build a schema object.
type SchemaSpec struct {
	Text        string    `json:"schema"`
	Types       []TypeDef `json:"types,omitempty"`
	OptionalDef bool      `json:"keys_optional_by_default,omitempty"`
	// Mesh: every user type is also added to every other user type's schema
	// object (the usage in which type schemas can resolve their own references).
	Mesh bool `json:"mesh,omitempty"`
	// Via selects how the schema, type, rule and document objects are constructed: 0 New(name, string),
	// 1 New(name, []byte), 2 FromFile(fs.NewFile(name, string)), 3 New(name, bytes.Bytes),
	// 4 FromFile(fs.NewFile(name, []byte)).
	Via int `json:"via,omitempty"`
}

// NewSchema, NewEnum, NewRegex and NewDoc construct the library objects through construction path via.
func NewSchema(via int, name, text string, opts ...jschema.Option) *jschema.Schema {
	switch via {
	case 1:
		return jschema.New(name, []byte(text), opts...)
	case 2:
		return jschema.FromFile(fs.NewFile(name, text), opts...)
	case 3:
		return jschema.New(name, lbytes.Bytes(text), opts...)
	case 4:
		return jschema.FromFile(fs.NewFile(name, []byte(text)), opts...)
	}
	return jschema.New(name, text, opts...)
}

func NewEnum(via int, name, text string) *enum.Enum {
	switch via {
	case 1:
		return enum.New(name, []byte(text))
	case 2:
		return enum.FromFile(fs.NewFile(name, text))
	case 3:
		return enum.New(name, lbytes.Bytes(text))
	case 4:
		return enum.FromFile(fs.NewFile(name, []byte(text)))
	}
	return enum.New(name, text)
}

func NewRegex(via int, name, text string) *regex.Schema {
	switch via {
	case 1:
		return regex.New(name, []byte(text))
	case 2:
		return regex.FromFile(fs.NewFile(name, text))
	case 3:
		return regex.New(name, lbytes.Bytes(text))
	case 4:
		return regex.FromFile(fs.NewFile(name, []byte(text)))
	}
	return regex.New(name, text)
}

func NewDoc(via int, name, text string) jlib.Document {
	switch via {
	case 1:
		return json.New(name, []byte(text))
	case 2:
		return json.FromFile(fs.NewFile(name, text))
	case 3:
		return json.New(name, lbytes.Bytes(text))
	case 4:
		return json.FromFile(fs.NewFile(name, []byte(text)))
	}
	return json.New(name, text)
}

// ValidateVia validates a fresh document constructed through path via.
func ValidateVia(s *jschema.Schema, doc string, via int) Res {
	return Guard(func() error { return s.Validate(NewDoc(via, "doc", doc)) })
}

// Build constructs the schema object and adds rules and types. The returned
// Res is the first failure of AddRule/AddType (OK if none).
func Build(sp SchemaSpec) (s *jschema.Schema, res Res) {
	defer func() {
		if r := recover(); r != nil {
			res = Res{Panic: fmt.Sprint(r)}
		}
	}()
	var opts []jschema.Option
	if sp.OptionalDef {
		opts = append(opts, jschema.KeysAreOptionalByDefault())
	}
	s = NewSchema(sp.Via, "schema", sp.Text, opts...)
	for _, t := range sp.Types {
		if t.Kind == "enum" {
			if err := s.AddRule(t.Name, NewEnum(sp.Via, t.Name, t.Text)); err != nil {
				return s, FromErr(err)
			}
		}
	}
	typeObjs := map[string]*jschema.Schema{}
	if sp.Mesh {
		for _, t := range sp.Types {
			if t.Kind == "" {
				var topts []jschema.Option
				if sp.OptionalDef {
					topts = append(topts, jschema.KeysAreOptionalByDefault())
				}
				typeObjs[t.Name] = NewSchema(sp.Via, t.Name, t.Text, topts...)
			}
		}
		for _, a := range sp.Types {
			for _, b := range sp.Types {
				if a.Kind == "" && b.Kind == "" {
					if err := typeObjs[a.Name].AddType(b.Name, typeObjs[b.Name]); err != nil {
						return s, FromErr(err)
					}
				}
			}
		}
	}
	for _, t := range sp.Types {
		switch t.Kind {
		case "":
			var topts []jschema.Option
			if sp.OptionalDef {
				topts = append(topts, jschema.KeysAreOptionalByDefault())
			}
			obj := typeObjs[t.Name]
			if obj == nil {
				obj = NewSchema(sp.Via, t.Name, t.Text, topts...)
			}
			if err := s.AddType(t.Name, obj); err != nil {
				return s, FromErr(err)
			}
		case "regex":
			if err := s.AddType(t.Name, NewRegex(sp.Via, t.Name, t.Text)); err != nil {
				return s, FromErr(err)
			}
		}
	}
	return s, Res{OK: true}
}

// Check builds and checks.
func Check(sp SchemaSpec) (*jschema.Schema, Res) {
	s, r := Build(sp)
	if !r.OK {
		return s, r
	}
	return s, Guard(s.Check)
}

// Validate validates a fresh document.
// Recheck calls Check once more on an object that has been checked before.
func Recheck(s *jschema.Schema) Res {
	if s == nil {
		return Res{}
	}
	return Guard(s.Check)
}

func Validate(s *jschema.Schema, doc string) Res {
	return Guard(func() error { return s.Validate(json.New("doc", doc)) })
}

// DocCheck runs Document.Check.
func DocCheck(doc string, trailing bool) Res {
	return Guard(func() error {
		if trailing {
			return json.New("doc", doc, json.AllowTrailingNonSpaceCharacters()).Check()
		}
		return json.New("doc", doc).Check()
	})
}

var _ jlib.Schema = (*jschema.Schema)(nil)
