// Package verifshim is injected into the library's module tree by a go-build
// overlay (it does not exist in /repo). Library files that import "sync" are
// rewritten (in the overlay copy only) to import this package under the name
// sync. It provides
//
//   - Once, Mutex, RWMutex, Pool whose operations are scheduling points of a
//     cooperative, fully controlled scheduler (exactly one test goroutine runs
//     at a time; the explorer decides which one at every point);
//   - environment-choice points (pool answers, map iteration orders);
//   - the scheduler core itself, driven by the harness through Run.
//
// Hand-off between goroutines uses plain loads/stores in //go:norace
// functions plus runtime.Gosched, i.e. no channel, mutex or atomic: the race
// detector therefore sees no happens-before edge from the scheduler and
// reports a race between two library accesses in EVERY schedule in which both
// occur. The wrapped real sync primitives (taken only when the scheduler
// knows they are free) keep the program's own synchronisation visible.
package verifshim

import (
	"fmt"
	"runtime"
	"sort"
	"sync"
)

// Aliases for everything else in package sync, so that library code that
// starts using them still builds (their operations are then not scheduling
// points).
type (
	WaitGroup = sync.WaitGroup
	Map       = sync.Map
	Cond      = sync.Cond
	Locker    = sync.Locker
)

var NewCond = sync.NewCond

// ---- scheduler core --------------------------------------------------------------

const (
	stRunnable = iota
	stBlocked
	stDone
)

type thread struct {
	id     int
	state  int
	waitOn interface{}
	point  string
}

// Decision is one choice point of an execution.
type Decision struct {
	Kind    string // "sched" or an environment kind ("pool.get", "maporder:<site>")
	Options int    // number of alternatives
	Chosen  int    // index taken
	// for Kind == "sched": the thread ids behind the options, in canonical order
	// (running thread first if still enabled, then ascending ids)
	Threads        []int
	RunningEnabled bool   // the thread that reached the point could have continued
	Point          string // what the running thread was about to do
}

// Execution is the record of one run.
type Execution struct {
	Decisions  []Decision
	Deadlock   bool
	StepLimit  bool
	Diverged   string // non-empty: the prefix could not be replayed
	Panics     []interface{}
	// OnceMaxBodies is the largest number of times the body of one Once ran.
	OnceMaxBodies int
}

var (
	active   bool // a controlled execution is in progress
	turn     int  // id of the thread holding the token (-1: nobody)
	threads  []*thread
	prefix   []int
	exec     *Execution
	aborted  bool
	maxSteps int

	// envActive: environment choices are recorded/replayed even without threads
	envActive bool

	allPools []*Pool
)

type abortSignal struct{}

//go:norace
func curThread() *thread {
	if !active || turn < 0 || turn >= len(threads) {
		return nil
	}
	return threads[turn]
}

//go:norace
func nextChoice(options int) int {
	i := len(exec.Decisions)
	if i < len(prefix) {
		c := prefix[i]
		if c < 0 || c >= options {
			exec.Diverged = fmt.Sprintf("decision %d: replayed choice %d but only %d options", i, c, options)
			return 0
		}
		return c
	}
	return 0
}

// Choose is an environment choice point with n alternatives (0 = default).
//
//go:norace
func Choose(n int, kind string) int {
	if exec == nil || (!active && !envActive) || n <= 1 {
		return 0
	}
	c := nextChoice(n)
	exec.Decisions = append(exec.Decisions, Decision{Kind: kind, Options: n, Chosen: c})
	return c
}

//go:norace
func waitTurn(id int) {
	for turn != id {
		if aborted {
			panic(abortSignal{})
		}
		runtime.Gosched()
	}
	if aborted {
		panic(abortSignal{})
	}
}

// schedule picks the next thread to run. self is the calling thread (which may
// be runnable, blocked or done).
//
//go:norace
func schedule(self *thread) {
	if aborted {
		panic(abortSignal{})
	}
	var ids []int
	runningEnabled := self.state == stRunnable
	if runningEnabled {
		ids = append(ids, self.id)
	}
	for _, t := range threads {
		if t.state == stRunnable && t.id != self.id {
			ids = append(ids, t.id)
		}
	}
	if len(ids) == 0 {
		allDone := true
		for _, t := range threads {
			if t.state != stDone {
				allDone = false
			}
		}
		if !allDone {
			exec.Deadlock = true
			aborted = true
			turn = -1
			if self.state != stDone {
				panic(abortSignal{})
			}
		}
		turn = -1
		return
	}
	if len(exec.Decisions) >= maxSteps {
		exec.StepLimit = true
		aborted = true
		turn = -1
		if self.state != stDone {
			panic(abortSignal{})
		}
		return
	}
	c := 0
	if len(ids) > 1 {
		c = nextChoice(len(ids))
		exec.Decisions = append(exec.Decisions, Decision{Kind: "sched", Options: len(ids), Chosen: c, Threads: ids, RunningEnabled: runningEnabled, Point: self.point})
	}
	next := ids[c]
	turn = next
	if next != self.id && self.state != stDone {
		waitTurn(self.id)
	}
}

// Point is a scheduling point: the running thread is about to perform the
// named synchronisation operation.
//
//go:norace
func Point(what string) {
	t := curThread()
	if t == nil {
		return
	}
	t.point = what
	schedule(t)
}

//go:norace
func block(on interface{}) {
	t := curThread()
	if t == nil {
		return
	}
	t.state = stBlocked
	t.waitOn = on
	schedule(t)
}

//go:norace
func wake(on interface{}) {
	if !active {
		return
	}
	for _, t := range threads {
		if t.state == stBlocked && t.waitOn == on {
			t.state = stRunnable
			t.waitOn = nil
		}
	}
}

// Run executes the bodies as controlled threads, replaying the choice prefix
// and taking choice 0 afterwards. It returns the execution record.
//
//go:norace
func Run(choicePrefix []int, stepLimit int, bodies []func()) *Execution {
	resetPools()
	exec = &Execution{}
	prefix = choicePrefix
	aborted = false
	maxSteps = stepLimit
	threads = nil
	for i := range bodies {
		threads = append(threads, &thread{id: i})
	}
	exec.Panics = make([]interface{}, len(bodies))
	turn = -1
	active = true
	var wg sync.WaitGroup
	for i, b := range bodies {
		wg.Add(1)
		go runThread(i, b, &wg)
	}
	// initial decision: which thread starts
	start(threads)
	wg.Wait()
	active = false
	turn = -1
	e := exec
	if len(e.Decisions) < len(prefix) && e.Diverged == "" && !e.Deadlock && !e.StepLimit {
		e.Diverged = fmt.Sprintf("execution ended after %d decisions, the prefix has %d", len(e.Decisions), len(prefix))
	}
	return e
}

//go:norace
func start(ts []*thread) {
	var ids []int
	for _, t := range ts {
		ids = append(ids, t.id)
	}
	c := 0
	if len(ids) > 1 {
		c = nextChoice(len(ids))
		exec.Decisions = append(exec.Decisions, Decision{Kind: "sched", Options: len(ids), Chosen: c, Threads: ids, RunningEnabled: false, Point: "start"})
	}
	turn = ids[c]
}

//go:norace
func runThread(id int, body func(), wg *sync.WaitGroup) {
	defer wg.Done()
	defer func() {
		r := recover()
		if _, isAbort := r.(abortSignal); r != nil && !isAbort {
			setPanic(id, r)
		}
		finish(id)
	}()
	waitTurn(id)
	body()
}

//go:norace
func setPanic(id int, r interface{}) { exec.Panics[id] = r }

//go:norace
func finish(id int) {
	t := threads[id]
	t.state = stDone
	if aborted {
		return
	}
	if turn == id {
		defer func() { recover() }()
		schedule(t)
	}
}

// RunEnv runs f (no threads) with environment choices replayed from prefix.
//
//go:norace
func RunEnv(choicePrefix []int, f func()) *Execution {
	resetPools()
	exec = &Execution{}
	prefix = choicePrefix
	envActive = true
	defer func() { envActive = false }()
	f()
	return exec
}

// ---- Once -----------------------------------------------------------------------------

type Once struct {
	o     sync.Once
	state int // 0 new, 1 running, 2 done
	ran   int // how many times the body ran (must stay <= 1)
}

//go:norace
func (o *Once) Do(f func()) {
	if curThread() == nil {
		o.o.Do(func() { o.count(); f() })
		o.state = 2
		return
	}
	Point("Once.Do")
	for o.state == 1 {
		block(o)
	}
	if o.state == 2 {
		o.o.Do(func() {}) // acquire edge for the race detector
		return
	}
	o.state = 1
	defer func() {
		o.state = 2
		wake(o)
	}()
	o.o.Do(func() { o.count(); f() })
}

//go:norace
func (o *Once) count() {
	o.ran++
	if exec != nil && o.ran > exec.OnceMaxBodies {
		exec.OnceMaxBodies = o.ran
	}
}

// ---- Mutex ---------------------------------------------------------------------------

type Mutex struct {
	mu   sync.Mutex
	held bool
}

//go:norace
func (m *Mutex) Lock() {
	if curThread() != nil {
		Point("Mutex.Lock")
		for m.held {
			block(m)
		}
	}
	m.held = true
	m.mu.Lock()
}

//go:norace
func (m *Mutex) Unlock() {
	m.mu.Unlock()
	m.held = false
	wake(m)
}

// ---- RWMutex -----------------------------------------------------------------------

type RWMutex struct {
	mu      sync.RWMutex
	writer  bool
	readers int
}

//go:norace
func (m *RWMutex) Lock() {
	if curThread() != nil {
		Point("RWMutex.Lock")
		for m.writer || m.readers > 0 {
			block(m)
		}
	}
	m.writer = true
	m.mu.Lock()
}

//go:norace
func (m *RWMutex) Unlock() {
	m.mu.Unlock()
	m.writer = false
	wake(m)
}

//go:norace
func (m *RWMutex) RLock() {
	if curThread() != nil {
		Point("RWMutex.RLock")
		for m.writer {
			block(m)
		}
	}
	m.readers++
	m.mu.RLock()
}

//go:norace
func (m *RWMutex) RUnlock() {
	m.mu.RUnlock()
	m.readers--
	wake(m)
}

// ---- Pool ---------------------------------------------------------------------------------

// Pool is a deterministic free list. Default answer of Get: the most recently
// Put object (legal for sync.Pool and the adversarial answer for aliasing
// bugs); alternatives: a fresh object, the oldest pooled object.
type Pool struct {
	New func() interface{}

	mu         sync.Mutex
	items      []interface{}
	registered bool
}

//go:norace
func (p *Pool) register() {
	if !p.registered {
		p.registered = true
		allPools = append(allPools, p)
	}
}

//go:norace
func (p *Pool) Get() interface{} {
	if curThread() != nil {
		Point("Pool.Get")
	}
	p.mu.Lock()
	defer p.mu.Unlock()
	p.register()
	n := len(p.items)
	if n == 0 {
		if p.New == nil {
			return nil
		}
		return p.New()
	}
	opts := 2
	if n > 1 {
		opts = 3
	}
	switch Choose(opts, "pool.get") {
	case 1:
		if p.New != nil {
			return p.New()
		}
	case 2:
		x := p.items[0]
		p.items = append([]interface{}{}, p.items[1:]...)
		return x
	}
	x := p.items[n-1]
	p.items = p.items[:n-1]
	return x
}

//go:norace
func (p *Pool) Put(x interface{}) {
	if curThread() != nil {
		Point("Pool.Put")
	}
	p.mu.Lock()
	defer p.mu.Unlock()
	p.register()
	p.items = append(p.items, x)
}

//go:norace
func resetPools() {
	for _, p := range allPools {
		p.mu.Lock()
		p.items = nil
		p.mu.Unlock()
	}
}

// PoolSizes reports the number of pooled objects per pool (diagnostics).
//
//go:norace
func PoolSizes() []int {
	var out []int
	for _, p := range allPools {
		out = append(out, len(p.items))
	}
	return out
}

// ---- map iteration orders -----------------------------------------------------------------

// siteCount records which range-over-map sites were executed with >= 2 keys
// (a small linear table: no runtime map operations inside the shim).
type siteCount struct {
	Site string
	N    int
}

var siteCounts []siteCount

//go:norace
func noteSite(site string) {
	for i := range siteCounts {
		if siteCounts[i].Site == site {
			siteCounts[i].N++
			return
		}
	}
	siteCounts = append(siteCounts, siteCount{site, 1})
}

// SitesReached returns a copy of the table.
//
//go:norace
func SitesReached() map[string]int {
	out := map[string]int{}
	for _, s := range siteCounts {
		out[s.Site] = s.N
	}
	return out
}

// OrderInts returns the indices 0..n-1 in the order chosen for this site:
// ascending by default; deviations: descending, rotations.
//
//go:norace
func Order(n int, site string) []int {
	idx := make([]int, n)
	for i := range idx {
		idx[i] = i
	}
	if n < 2 {
		return idx
	}
	noteSite(site)
	opts := n + 1 // ascending, descending, rotations by 1..n-1
	if opts > 4 {
		opts = 4
	}
	c := Choose(opts, "maporder:"+site)
	switch {
	case c == 0:
	case c == 1:
		sort.Sort(sort.Reverse(sort.IntSlice(idx)))
	default:
		k := c - 1
		rot := append(append([]int{}, idx[k:]...), idx[:k]...)
		idx = rot
	}
	return idx
}

// MapKeys returns the keys of m in the order chosen for this site (a legal Go
// iteration order): ascending by printed form by default.
//
//go:norace
func MapKeys[K comparable, V any](m map[K]V, site string) []K {
	keys := make([]K, 0, len(m))
	for k := range m {
		keys = append(keys, k)
	}
	sort.Slice(keys, func(i, j int) bool { return fmt.Sprintf("%v", keys[i]) < fmt.Sprintf("%v", keys[j]) })
	idx := Order(len(keys), site)
	out := make([]K, len(keys))
	for i, j := range idx {
		out[i] = keys[j]
	}
	return out
}
