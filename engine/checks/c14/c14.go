// Package c14: Len reports exactly where an embedded schema, document or enum ends.
package c14

import (
	stdjson "encoding/json"
	"fmt"
	jlib "github.com/jsightapi/jsight-schema-go-library"
	"regexp"
	"strings"
	"time"

	"github.com/jsightapi/jsight-schema-go-library/formats/json"
	"github.com/jsightapi/jsight-schema-go-library/notations/jschema"
	"github.com/jsightapi/jsight-schema-go-library/notations/regex"
	"github.com/jsightapi/jsight-schema-go-library/rules/enum"

	"verif/gen"
	"verif/internal/ev"
	"verif/internal/lib"
	"verif/ref/jsonpda"
)

func init() {
	ev.Register(&ev.Check{
		ID:          "C14",
		Level:       "exploration",
		Rule:        "accepted texts S (all rule-free JS-core renderings <= 3 nodes in canonical and compact layout, annotated/noted variants ending in every token class, type shortcuts, enum rule texts incl. comments, JSON documents, regex tokens) x separators (none and every run of 1..3 blanks over {space, tab, LF, CRLF}) x trailing texts from a directive-like alphabet {x, GET /, TYPE @a, Body, 200, @a, :, ',', }, ], \"q\", and six texts holding line breaks such as x<LF>y} restricted to the two admitted shapes (blank/line break then foreign text; a foreign byte directly after a closing bracket or quote): Len must equal len(S), on a fresh object and on an object that has been used before (after Check / GetAST / Values / Pattern, and for documents after the stream was read to its end); plus EVERY truncation of every plain-JSON S: a lexically incomplete prefix (reference PDA live and not accepting) must make Len fail. Non-trivial = distinct (role, S, separator, trailing text).",
		Run:         run,
		Replay:      replay,
		QuickBudget: 70 * time.Second,
		Assumptions: []string{
			"trailing text that could continue S (//, /*, #, |, digits directly after a number, text after an inline annotation on the same line) is not generated",
			"empty and blank-only texts are not asserted",
		},
	})
}

type caseT struct {
	Role string `json:"role"` // schema | json | enum | regex
	S    string `json:"s"`
	Sep  string `json:"sep"`
	T    string `json:"t"`
	// Trunc >= 0: the input is S[:Trunc] and Len must fail.
	Trunc int `json:"trunc"`
	// Weak: the cut text begins with a complete value and goes on inside a token
	// that cannot be completed ("1e", "1."): whether that is "one value and
	// foreign text" or "an incomplete number" is left open, but IF Len answers,
	// the prefix it points at must be one complete JSON text.
	Weak bool `json:"weak,omitempty"`
}

func lenOf(role, text string) (n uint, err error) {
	defer func() {
		if r := recover(); r != nil {
			err = fmt.Errorf("PANIC: %v", r)
		}
	}()
	switch role {
	case "schema":
		n, err = jschema.New("s", text).Len()
		// Len must not depend on what was asked of the object before
		o := jschema.New("s", text)
		_ = o.Check()
		_, _ = o.GetAST()
		return same(n, err, "after Check and GetAST", o.Len)
	case "json":
		mk := func() jlib.Document { return json.New("d", text, json.AllowTrailingNonSpaceCharacters()) }
		n, err = mk().Len()
		o := mk()
		_ = o.Check()
		if n, err = same(n, err, "after Check", o.Len); err != nil && strings.HasPrefix(err.Error(), "UNSTABLE") {
			return n, err
		}
		o = mk()
		for i := 0; i < 10*len(text)+10; i++ {
			if _, e := o.NextLexeme(); e != nil {
				break
			}
		}
		return same(n, err, "after the document was read through NextLexeme", o.Len)
	case "enum":
		n, err = enum.New("e", text).Len()
		o := enum.New("e", text)
		_ = o.Check()
		_, _ = o.Values()
		return same(n, err, "after Check and Values", o.Len)
	case "regex":
		n, err = regex.New("r", text).Len()
		o := regex.New("r", text)
		_, _ = o.Pattern()
		_, _ = o.Example()
		return same(n, err, "after Pattern and Example", o.Len)
	}
	return 0, fmt.Errorf("unknown role")
}

// same: the Len of an object with a history must equal the Len of a fresh one.
func same(n uint, err error, what string, again func() (uint, error)) (uint, error) {
	n2, err2 := again()
	if (err == nil) != (err2 == nil) || (err == nil && n != n2) {
		return n, fmt.Errorf("UNSTABLE: Len on a fresh object = %d (%v), %s = %d (%v)", n, err, what, n2, err2)
	}
	return n, err
}

// seps: no separator, and EVERY run of 1..3 blank symbols over {space, tab, LF, CRLF}
// (84 runs: homogeneous and mixed ones alike), plus two longer mixed runs.
var seps = func() []string {
	out := []string{""}
	syms := []string{" ", "\t", "\n", "\r\n"}
	var rec func(cur string, n int)
	rec = func(cur string, n int) {
		if cur != "" {
			out = append(out, cur)
		}
		if n == 3 {
			return
		}
		for _, s := range syms {
			rec(cur+s, n+1)
		}
	}
	rec("", 0)
	return append(out, "\n\n \t\n\n", " \r\n \r\n ")
}()
var trails = []string{"x", "GET /", "TYPE @a", "Body", "200", "@a", ":", ",", "}", "]", `"q"`,
	// foreign text that itself holds line breaks (one foreign byte, then the next line)
	"x\n", "x\ny", "X\r\nGET /b", ",\nz", "}\n\n", "xy\nz"}

func hasLineBreak(s string) bool { return strings.ContainsAny(s, "\r\n") }

// admissible: may (sep, T) follow S under the statement's two shapes?
func admissible(role, s, sep, t string, endsWithInlineAnnotation bool) bool {
	if t == "" {
		return true // S followed by blanks only
	}
	last := s[len(s)-1]
	closing := last == '}' || last == ']' || last == '"'
	if role == "regex" {
		closing = last == '/'
	}
	if sep == "" {
		return closing && !endsWithInlineAnnotation
	}
	if endsWithInlineAnnotation {
		return hasLineBreak(sep) && !strings.HasPrefix(sep, " ") && !strings.HasPrefix(sep, "\t")
	}
	return true
}

func evalCase(cs caseT) (string, string) {
	if cs.Trunc >= 0 {
		in := cs.S[:cs.Trunc]
		n, err := lenOf(cs.Role, in)
		if cs.Weak {
			if err != nil {
				if strings.HasPrefix(err.Error(), "PANIC") {
					return "panic", fmt.Sprintf("%s Len(%q) panics: %v", cs.Role, in, err)
				}
				return "", ""
			}
			if int(n) > len(in) || !oneJSONText(in[:n]) {
				return "len-not-a-text", fmt.Sprintf("%s Len(%q) = %d, but %q is not one complete JSON text", cs.Role, in, n, in[:minInt(int(n), len(in))])
			}
			return "", ""
		}
		if err == nil {
			return "incomplete-accepted", fmt.Sprintf("%s Len(%q) succeeds although the text is lexically incomplete (cut from %q)", cs.Role, in, cs.S)
		}
		if strings.HasPrefix(err.Error(), "PANIC") {
			return "panic", fmt.Sprintf("%s Len(%q) panics: %v", cs.Role, in, err)
		}
		return "", ""
	}
	in := cs.S + cs.Sep + cs.T
	n, err := lenOf(cs.Role, in)
	if err != nil {
		if strings.HasPrefix(err.Error(), "PANIC") {
			return "panic", fmt.Sprintf("%s Len(%q) panics: %v", cs.Role, in, err)
		}
		if strings.HasPrefix(err.Error(), "UNSTABLE") {
			return "len-history", fmt.Sprintf("%s %q: %v", cs.Role, in, err)
		}
		return "error", fmt.Sprintf("%s Len(%q) fails (%v) although the text begins with the complete %s %q", cs.Role, in, firstLine(err.Error()), cs.Role, cs.S)
	}
	if int(n) != len(cs.S) {
		dir := "len-short"
		if int(n) > len(cs.S) {
			dir = "len-long"
		}
		return dir, fmt.Sprintf("%s Len(%q) = %d, but the embedded %s %q ends at %d", cs.Role, in, n, cs.Role, cs.S, len(cs.S))
	}
	return "", ""
}

func minInt(a, b int) int {
	if a < b {
		return a
	}
	return b
}

func oneJSONText(s string) bool {
	p := jsonpda.New()
	for i := 0; i < len(s); i++ {
		p.Feed(s[i])
	}
	return !p.Dead() && p.AcceptEOF()
}

func firstLine(s string) string {
	if i := strings.IndexByte(s, '\n'); i >= 0 {
		return s[:i]
	}
	return s
}

type item struct {
	role   string
	s      string
	inline bool // ends with an inline annotation
	plain  bool // plain JSON (truncation oracle applies)
}

func corpus(c *ev.Ctx) []item {
	var out []item
	seen := map[string]bool{}
	add := func(it item) {
		if it.s == "" || seen[it.role+"\x00"+it.s] {
			return
		}
		seen[it.role+"\x00"+it.s] = true
		out = append(out, it)
	}
	// JS-core shapes
	maxN := 3
	if c.Thorough() {
		maxN = 4
	}
	var shapes func(n int, f func(*gen.Node))
	shapes = func(n int, f func(*gen.Node)) {
		if n == 1 {
			for _, s := range []*gen.Node{gen.Int("1"), gen.Int("120"), gen.Float("1.5"), gen.Str(`"s"`), gen.Str(`""`), gen.Bool("true"), gen.Bool("false"), gen.Null(), gen.Obj(), gen.Arr()} {
				f(s)
			}
			return
		}
		var arr func(rem int, cur []*gen.Node)
		arr = func(rem int, cur []*gen.Node) {
			if rem == 0 {
				f(gen.Arr(append([]*gen.Node{}, cur...)...))
				return
			}
			for s := 1; s <= rem; s++ {
				shapes(s, func(v *gen.Node) { arr(rem-s, append(cur, v)) })
			}
		}
		arr(n-1, nil)
		keys := []string{"a", "b"}
		var obj func(rem int, cur []gen.Prop)
		obj = func(rem int, cur []gen.Prop) {
			if rem == 0 {
				f(gen.Obj(append([]gen.Prop{}, cur...)...))
				return
			}
			if len(cur) >= len(keys) {
				return
			}
			for s := 1; s <= rem; s++ {
				shapes(s, func(v *gen.Node) { obj(rem-s, append(cur, gen.P(keys[len(cur)], v))) })
			}
		}
		obj(n-1, nil)
	}
	for n := 1; n <= maxN; n++ {
		shapes(n, func(root *gen.Node) {
			text := gen.Render(root, gen.Canonical).Text
			add(item{"schema", text, false, true})
			ex, _ := gen.ExampleJSON(root)
			add(item{"schema", ex, false, true})
			add(item{"json", ex, false, true})
			add(item{"json", text, false, true})
			if n <= 2 {
				// annotated variants: rule / note on the root or on the last leaf
				a := root.Clone()
				a.Rules = []gen.Rule{gen.R("nullable", "true")}
				add(item{"schema", gen.Render(a, gen.Canonical).Text, len(a.Props)+len(a.Items) == 0, false})
				b := root.Clone()
				b.Note = "note"
				add(item{"schema", gen.Render(b, gen.Canonical).Text, len(b.Props)+len(b.Items) == 0, false})
				m := root.Clone()
				m.Rules = []gen.Rule{gen.R("nullable", "true")}
				add(item{"schema", gen.Render(m, gen.Spelling{EOL: "\n", Indent: "  ", MultiLine: 1}).Text, false, false})
				add(item{"schema", gen.Render(m, gen.Spelling{EOL: "\n", Indent: "  ", MultiLine: 2}).Text, false, false})
			}
		})
	}
	// every spelling class of a JSON number (sign, fraction, exponent with either
	// case and sign), alone and nested: their proper prefixes ("-", "1.", "1e",
	// "1e+") are the truncations the error clause is about
	for _, num := range []string{"0", "-1", "-0", "10", "0.5", "-0.25", "1e5", "1E5", "1e+5", "1E-5", "1.5e3", "-2.5E+10", "12.75e-2", "100E0"} {
		for _, w := range []string{num, "[" + num + "]", "[1," + num + "]", `{"a":` + num + "}"} {
			add(item{"json", w, false, true})
			if !strings.ContainsAny(num, "eE") { // the schema language refuses exponents in examples on purpose
				add(item{"schema", w, false, true})
			}
		}
	}
	// annotations with a note AND a user comment behind it, last in the text and followed by more lines
	for _, s := range []string{
		"{\n  \"id\": 1 // {min: 0} - the id # internal\n}",
		"{\n  \"id\": 1, // {min: 0} - the id # internal\n  \"n\": 2\n}",
		"[\n  1, // note only # c\n  2 // {min: 0} # c\n]",
		"{\n  \"id\": 1 /* {min: 0} - note */ # c\n}",
		"{ # c\n  \"id\": 1 # c\n}",
	} {
		add(item{"schema", s, strings.HasPrefix(s, "1 //"), false})
	}
	for _, s := range []string{"@a", "@a | @b", "@a|@b", "@abc-1 | @b_2", "{\n  \"k\": @a\n}", "[\n  @a | @b\n]", "{\n  @a: 1\n}", "{\n  @a: @b\n}"} {
		add(item{"schema", s, false, false})
	}
	for _, s := range []string{"[]", "[1]", "[1,2]", `["a","b"]`, "[1, \"a\", true, null, 1.5]", "[\n  1,\n  2\n]", "[\n  1, // one\n  2 // two\n]", "[ /* c */ 1 ]", "[1] // c", "[\n  \"a\" // c\n]"} {
		add(item{"enum", s, strings.HasSuffix(s, "// c"), false})
	}
	for _, s := range []string{"/a/", "/a\\/b/", "/[a-z]+/", "/^a$/", "/ /", "/\\//"} {
		add(item{"regex", s, false, false})
	}
	// texts with multi-byte characters (lengths are byte lengths): one character per UTF-8 length and
	// continuation-byte class, in every role and in every place a role admits text
	for _, ch := range []string{"é", "À", "ю", "€", "日", "\U0001f3c6", "\u0080", "яё"} {
		add(item{"schema", `"` + ch + `"`, false, false})
		add(item{"schema", "{\n  \"" + ch + "\": \"x" + ch + "\"\n}", false, false})
		add(item{"schema", "1 // {min: 0} - " + ch, true, false})
		add(item{"schema", "\"" + ch + "\" // " + ch + " " + ch, true, false})
		add(item{"schema", "[\n  1 /* " + ch + " */\n]", false, false})
		add(item{"json", `"` + ch + `"`, false, true})
		add(item{"json", `{"` + ch + `":["` + ch + ch + `"]}`, false, true})
		add(item{"enum", `["` + ch + `"]`, false, false})
		add(item{"enum", `["a", "` + ch + `", 1]`, false, false})
		add(item{"enum", "[\n  \"" + ch + "\" // " + ch + "\n]", false, false})
		add(item{"regex", "/" + ch + "/", false, false})
		add(item{"regex", "/^[" + ch + "a]+" + ch + "$/", false, false})
		add(item{"regex", "/a\\/" + ch + "/", false, false})
	}
	add(item{"regex", "/^[а-яё]+$/", false, false})
	add(item{"regex", "/^\\p{Han}{1,3}日本$/", false, false})
	// every body of <= 4 symbols over {a, \, /, .} that forms ONE /P/ token
	// (the only unescaped slashes are the delimiters) with a pattern Go accepts
	var rec func(b string)
	rec = func(b string) {
		if b != "" && regexTokenOK(b) {
			add(item{"regex", "/" + b + "/", false, false})
		}
		if len(b) == 4 {
			return
		}
		for _, ch := range []string{"a", "\\", "/", "."} {
			rec(b + ch)
		}
	}
	rec("")
	return out
}

// regexTokenOK: "/"+body+"/" is one complete regex token - every slash inside
// the body is escaped, the body does not end in an escaping backslash - and
// the body is a pattern Go's regexp accepts.
func regexTokenOK(body string) bool {
	esc := false
	for i := 0; i < len(body); i++ {
		switch {
		case esc:
			esc = false
		case body[i] == '\\':
			esc = true
		case body[i] == '/':
			return false
		}
	}
	if esc {
		return false
	}
	_, err := regexp.Compile(body)
	return err == nil
}

func run(c *ev.Ctx) {
	items := corpus(c)
	c.Bound("texts", len(items))
	c.Bound("separators", len(seps))
	c.Bound("trailing_texts", len(trails))
	for _, it := range items {
		if !c.Mine() {
			continue
		}
		if c.Expired() {
			return
		}
		// the base text must be accepted by its role (else it is not an S)
		if !accepted(it) {
			// every text of the corpus is valid by construction (and is accepted on
			// the tree the corpus was written against): S itself is the prefix of
			// length len(S), which Check has to accept
			c.Inc("not_accepted")
			c.Violate(fmt.Sprintf("s-rejected;%s;%q", it.role, it.s), fmt.Sprintf("%s text %q is valid by construction but its own Check rejects it (so the prefix Len points at cannot be accepted either)", it.role, it.s), caseT{Role: it.role, S: it.s, Trunc: -1})
			continue
		}
		c.Inc("texts_" + it.role)
		for si, sep := range seps {
			for ti := -1; ti < len(trails); ti++ {
				t := ""
				if ti >= 0 {
					t = trails[ti]
				}
				if ti < 0 && sep == "" && si != 0 {
					continue
				}
				if !admissible(it.role, it.s, sep, t, it.inline) {
					continue
				}
				cs := caseT{Role: it.role, S: it.s, Sep: sep, T: t, Trunc: -1}
				dir, _ := evalCase(cs)
				c.Eval(true)
				if dir != "" {
					report(c, cs, dir, it.inline)
				}
			}
		}
		if len(it.s) > 4 {
			c.Sample(it.role, map[string]any{"s": it.s})
		}
		if it.plain {
			p := jsonpda.New()
			for i := 0; i < len(it.s); i++ {
				p.Feed(it.s[i])
				if i+1 == len(it.s) {
					break
				}
				if strings.TrimSpace(it.s[:i+1]) == "" {
					continue
				}
				if !p.Dead() && !p.AcceptEOF() && p.CompleteSeen {
					cs := caseT{Role: it.role, S: it.s, Trunc: i + 1, Weak: true}
					dir, desc := evalCase(cs)
					c.Eval(true)
					c.Inc("truncations_inside_a_number")
					if dir != "" {
						c.Violate(fmt.Sprintf("%s;%s;%q", dir, it.role, it.s[:i+1]), desc, cs)
					}
				}
				if !p.Dead() && !p.AcceptEOF() && !p.CompleteSeen {
					cs := caseT{Role: it.role, S: it.s, Trunc: i + 1}
					dir, desc := evalCase(cs)
					c.Eval(true)
					c.Inc("truncations")
					if dir != "" {
						c.Violate(fmt.Sprintf("%s;%s;%q", dir, it.role, it.s[:i+1]), desc, cs)
					}
				}
			}
		}
	}
}

func accepted(it item) bool {
	switch it.role {
	case "schema":
		sp := lib.SchemaSpec{Text: it.s}
		for _, n := range []string{"@a", "@b", "@abc-1", "@b_2"} {
			if strings.Contains(it.s, n) {
				sp.Types = append(sp.Types, lib.TypeDef{Name: n, Text: `"s" // {minLength: 0}`})
			}
		}
		_, r := lib.Check(sp)
		return r.OK
	case "json":
		return lib.DocCheck(it.s, false).OK
	case "enum":
		return lib.Guard(func() error { return enum.New("e", it.s).Check() }).OK
	case "regex":
		// decided by the reference, not by the library under test
		return len(it.s) >= 3 && regexTokenOK(it.s[1:len(it.s)-1])
	}
	return false
}

func report(c *ev.Ctx, cs caseT, dir string, inline bool) {
	idx := func(list []string, x string) int {
		for i, y := range list {
			if y == x {
				return i
			}
		}
		return -1
	}
	red := ev.Reduce(cs, func(x caseT) []caseT {
		var out []caseT
		for i := 0; i < idx(seps, x.Sep); i++ {
			if admissible(x.Role, x.S, seps[i], x.T, inline) {
				out = append(out, caseT{Role: x.Role, S: x.S, Sep: seps[i], T: x.T, Trunc: -1})
			}
		}
		for i := 0; i < idx(trails, x.T); i++ {
			if admissible(x.Role, x.S, x.Sep, trails[i], inline) {
				out = append(out, caseT{Role: x.Role, S: x.S, Sep: x.Sep, T: trails[i], Trunc: -1})
			}
		}
		// simpler S of the same role: fixed ladder
		for _, s := range []string{"{}", "[]", `"s"`, "1", "[1]"} {
			if s != x.S && len(s) < len(x.S) && admissible(x.Role, s, x.Sep, x.T, false) && accepted(item{role: x.Role, s: s}) {
				out = append(out, caseT{Role: x.Role, S: s, Sep: x.Sep, T: x.T, Trunc: -1})
			}
		}
		return out
	}, func(x caseT) bool {
		d, _ := evalCase(x)
		return d == dir
	})
	_, desc := evalCase(red)
	c.Violate(fmt.Sprintf("%s;%s;%q;%q;%q", dir, red.Role, red.S, red.Sep, red.T), desc, red)
}

func replay(raw stdjson.RawMessage) (bool, string) {
	var cs caseT
	if err := stdjson.Unmarshal(raw, &cs); err != nil {
		return false, err.Error()
	}
	dir, desc := evalCase(cs)
	return dir != "", desc
}
