// Package c16: GetAST mirrors the schema text.
package c16

import (
	stdjson "encoding/json"
	"fmt"
	"time"

	jlib "github.com/jsightapi/jsight-schema-go-library"

	"verif/checks/corpus"
	"verif/checks/sc"
	"verif/gen"
	"verif/internal/ev"
	"verif/internal/lib"
	"verif/ref/astmodel"
)

func init() {
	ev.Register(&ev.Check{
		ID:          "C16",
		Level:       "exploration",
		Rule:        "every Check-accepted case of the merged C01/C03/C04/C09 generators and hostile keys, plus an AST-specific family (every rule name with notes, nested or/enum/allOf items, decimal/precision, value and key shortcuts with manual rules, rule lists in 2 orders): the tree returned by GetAST (for the canonical spelling and for the same schema aligned with tabs) must equal the expected tree computed from the generator's abstract schema: one node per example value in source order with Key, IsKeyShortcut, TokenType, Value, SchemaType, rules with names/values/order/nested items, manual/generated source marks and the note; inherited allOf properties must not appear. Non-trivial = distinct accepted schema with >= 1 rule or child.",
		Run:         run,
		Replay:      replay,
		QuickBudget: 80 * time.Second,
		Assumptions: []string{"the expected-AST conventions (unquoted Value, token-type names, additionalProperties \"@T\" reported as string) are calibrated on the pinned tree and on the repository's own golden trees"},
	})
}

func convRule(name string, r jlib.RuleASTNode) astmodel.Rule {
	out := astmodel.Rule{Name: name, TokenType: string(r.TokenType), Value: r.Value, Source: int(r.Source)}
	if r.Properties != nil {
		r.Properties.EachSafe(func(k string, v jlib.RuleASTNode) {
			out.Props = append(out.Props, convRule(k, v))
		})
	}
	for _, it := range r.Items {
		out.Items = append(out.Items, convRule("", it))
	}
	return out
}

func conv(n jlib.ASTNode) astmodel.Node {
	out := astmodel.Node{TokenType: string(n.TokenType), SchemaType: n.SchemaType, Key: n.Key, Value: n.Value, Comment: n.Comment, IsKeyShortcut: n.IsKeyShortcut}
	if n.Rules != nil {
		n.Rules.EachSafe(func(k string, v jlib.RuleASTNode) {
			out.Rules = append(out.Rules, convRule(k, v))
		})
	}
	for _, ch := range n.Children {
		out.Children = append(out.Children, conv(ch))
	}
	return out
}

// tabbed: the same schema aligned with tabs (in front of annotations, comments
// and commas, at line ends): the tree must not pick up any of these blanks.
var tabbed = gen.Spelling{EOL: "\n", Indent: "\t", Blank: "\t"}

func evalCase(cs sc.Case) (accepted bool, dir, desc string) {
	accepted, dir, desc = evalSpelled(cs, cs.Spec(), "")
	if accepted && dir == "" {
		_, dir, desc = evalSpelled(cs, cs.SpecWith(tabbed), " [aligned with tabs]")
	}
	return
}

func evalSpelled(cs sc.Case, spec lib.SchemaSpec, how string) (accepted bool, dir, desc string) {
	s, r := lib.Check(spec)
	if !r.OK {
		return false, "", ""
	}
	var ast jlib.ASTNode
	res := lib.Guard(func() error {
		a, err := s.GetAST()
		ast = a
		return err
	})
	d := cs.Describe() + how
	if res.Panic != "" {
		return true, "panic", fmt.Sprintf("%s: GetAST panics: %s", d, res.Panic)
	}
	if !res.OK {
		return true, "error", fmt.Sprintf("%s: Check succeeds but GetAST fails: %s", d, res)
	}
	got, _ := stdjson.Marshal(conv(ast))
	// a second GetAST on the same object, after the other accessors ran, must give the same tree
	_, _ = s.Example()
	_ = lib.Validate(s, "null")
	if ast2, err2 := s.GetAST(); err2 == nil {
		if got2, _ := stdjson.Marshal(conv(ast2)); string(got2) != string(got) {
			return true, "unstable", fmt.Sprintf("%s: GetAST = %s, but after Example and Validate on the same schema GetAST = %s", d, got, got2)
		}
	} else {
		return true, "unstable", fmt.Sprintf("%s: a second GetAST on the same schema fails: %v", d, err2)
	}
	want, _ := stdjson.Marshal(astmodel.Expected(cs.Root))
	if string(got) != string(want) {
		return true, "differs", fmt.Sprintf("%s: GetAST = %s, the schema text says %s", d, got, want)
	}
	return true, "", ""
}

// AstFamily is the AST-specific family (also a source of schemas for C13).
func AstFamily(f func(sc.Case)) { astFamily(f) }

func astFamily(f func(sc.Case)) {
	types := []sc.TypeDecl{{Name: "@A", Body: gen.Int("1")}, {Name: "@B", Body: gen.Str(`"s"`).With(gen.R("minLength", "1"))}, {Name: "@O", Body: gen.Obj(gen.P("z", gen.Int("1")))}, {Name: "@P", Body: gen.Obj(gen.P("y", gen.Int("1")))}, {Name: "@E", Enum: []string{"1", "2"}}}
	lit := func(s string) gen.RuleItem { return gen.RuleItem{Lit: s} }
	leaves := []*gen.Node{
		gen.Int("1").With(gen.R("min", "0"), gen.R("max", "5.50"), gen.R("exclusiveMinimum", "true"), gen.R("exclusiveMaximum", "false")),
		gen.Int("1").With(gen.R("max", "5"), gen.R("min", "-0.5")),
		gen.Float("1.50").With(gen.R("precision", "2")),
		gen.Float("1.5").With(gen.R("type", `"decimal"`), gen.R("precision", "1")),
		gen.Float("1.5").With(gen.R("precision", "1"), gen.R("type", `"decimal"`)),
		gen.Str(`"ab"`).With(gen.R("minLength", "1"), gen.R("maxLength", "3"), gen.R("regex", `"^a\"?b"`)),
		gen.Str(`"ab"`).With(gen.R("regex", `"b$"`), gen.R("const", "true"), gen.R("nullable", "false")),
		gen.Str(`"a\"b\n"`),
		gen.Str(`"a@b.cc"`).With(gen.R("type", `"email"`)),
		gen.Bool("true").With(gen.R("const", "false"), gen.R("nullable", "true")),
		gen.Null().With(gen.R("type", `"any"`)),
		gen.Int("1").With(gen.R("type", `"@A"`)),
		gen.Int("1").With(gen.R("type", `"@A"`), gen.R("nullable", "true")),
		gen.Int("1").With(gen.RL("or", lit(`"@A"`), gen.RuleItem{Set: []gen.Rule{gen.R("type", `"string"`), gen.R("maxLength", "2")}}, lit(`"boolean"`))),
		gen.Int("1").With(gen.RL("or", gen.RuleItem{Set: []gen.Rule{gen.R("type", `"@A"`)}}, gen.RuleItem{Set: []gen.Rule{gen.R("type", `"integer"`), gen.R("min", "0")}})),
		gen.Str(`"x"`).With(gen.RL("enum", lit(`"x"`), lit("1"), lit("null"), lit("true"), lit("1.5"))),
		gen.Int("1").With(gen.R("enum", "@E")),
		gen.Int("2").With(gen.R("enum", "@E"), gen.R("nullable", "true")),
		gen.Ref("@A"), gen.Ref("@A", "@B"), gen.Ref("@A").With(gen.R("nullable", "true")), gen.Ref("@B", "@A").With(gen.R("nullable", "true")),
		gen.Ref("@A").With(gen.RL("or", lit(`"string"`), lit(`"integer"`))),
		gen.Ref("@B").With(gen.RL("or", lit(`"boolean"`), lit(`"null"`)), gen.R("nullable", "true")),
		// bare type names in or rules, on examples of every JSON kind: the items are the names as written
		gen.Int("12").With(gen.RL("or", lit(`"date"`), lit(`"integer"`))),
		gen.Int("12").With(gen.RL("or", lit(`"any"`), lit(`"string"`))),
		gen.Float("1.5").With(gen.RL("or", lit(`"uuid"`), lit(`"float"`), lit(`"datetime"`))),
		gen.Bool("true").With(gen.RL("or", lit(`"email"`), lit(`"uri"`), lit(`"boolean"`))),
		gen.Null().With(gen.RL("or", lit(`"null"`), lit(`"date"`), lit(`"any"`))),
		gen.Arr().With(gen.RL("or", lit(`"array"`), lit(`"any"`))),
		gen.Obj().With(gen.RL("or", lit(`"email"`), lit(`"object"`))),
		gen.Str(`"s"`).With(gen.RL("or", lit(`"string"`), lit(`"integer"`), lit(`"float"`), lit(`"boolean"`), lit(`"null"`), lit(`"object"`), lit(`"array"`), lit(`"any"`), lit(`"date"`), lit(`"datetime"`), lit(`"email"`), lit(`"uri"`), lit(`"uuid"`))),
		gen.Obj().With(gen.R("allOf", `"@O"`)),
		gen.Obj(gen.P("own", gen.Int("1"))).With(gen.RL("allOf", lit(`"@O"`), lit(`"@P"`)), gen.R("additionalProperties", "true")),
		gen.Obj().With(gen.R("additionalProperties", `"@A"`)),
		gen.Obj().With(gen.R("additionalProperties", `"string"`), gen.R("nullable", "true")),
		gen.Arr(gen.Int("1"), gen.Int("2")).With(gen.R("minItems", "1"), gen.R("maxItems", "2")),
		gen.Arr().With(gen.R("type", `"any"`)),
		gen.Obj(gen.PS("@B", gen.Int("1")), gen.P("@B", gen.Int("2"))),
	}
	for i, l := range leaves {
		for _, note := range []string{"", "a note"} {
			n := l.Clone()
			n.Note = note
			f(sc.Case{Root: n, Types: types})
			opt := n.Clone()
			f(sc.Case{Root: gen.Obj(gen.P("k", opt), gen.P("l", leaves[(i+1)%len(leaves)].Clone())), Types: types})
			o2 := n.Clone()
			o2.Rules = append(o2.Rules, gen.R("optional", "true"))
			f(sc.Case{Root: gen.Obj(gen.P("k", o2)), Types: types})
			o3 := n.Clone()
			o3.Rules = append([]gen.Rule{gen.R("optional", "false")}, o3.Rules...)
			f(sc.Case{Root: gen.Arr(gen.Obj(gen.P("k", o3))), Types: types})
			f(sc.Case{Root: gen.Arr(n.Clone(), leaves[(i+2)%len(leaves)].Clone()), Types: types})
		}
	}
}

func run(c *ev.Ctx) {
	seen := map[string]bool{}
	visit := func(family string, cs sc.Case) {
		if !c.Mine() {
			return
		}
		if c.Expired() {
			return
		}
		key := cs.Describe()
		if seen[key] {
			return
		}
		seen[key] = true
		ok, dir, desc := evalCase(cs)
		if !ok {
			c.Inc("check_rejected_" + family)
			return
		}
		c.Eval(cs.Root.Size() > 1 || len(cs.Root.Rules) > 0)
		c.Inc("accepted_" + family)
		c.Sample(family, cs.Spec().Text)
		if dir != "" {
			red := ev.Reduce(cs, sc.Cands, func(x sc.Case) bool {
				ok2, d2, _ := evalCase(x)
				return ok2 && d2 == dir
			})
			_, _, desc = evalCase(red)
			c.Violate(dir+";"+red.Describe(), desc, red)
		}
	}
	astFamily(func(cs sc.Case) { visit("ast", cs) })
	corpus.ForEach(c.Thorough(), visit)
}

func replay(raw stdjson.RawMessage) (bool, string) {
	var cs sc.Case
	if err := stdjson.Unmarshal(raw, &cs); err != nil {
		return false, err.Error()
	}
	_, dir, desc := evalCase(cs)
	return dir != "", desc
}
