package c01

import (
	"verif/gen"
	"verif/internal/ev"
)

// spines: depth-5 nestings (all 2^4 object/array choices), width <= 2, one
// flag placement at a time, with all documents within <= 2 structural edits
// of the example.
func spines(c *ev.Ctx) {
	ForEachSpine(func(root *gen.Node) bool {
		if !c.Mine() {
			return true
		}
		if c.Expired() {
			return false
		}
		ex := exampleDoc(root)
		docs := neighbours(ex, 2)
		evalSchema(c, root, docs, false)
		c.Inc("spine_schemas")
		c.Max("max_spine_docs", int64(len(docs)))
		return true
	})
}

// ExampleDoc is the example of a rule-free schema as a document value.
func ExampleDoc(n *gen.Node) *gen.JV { return exampleDoc(n) }

// ForEachSpine enumerates the depth-5 spine schemas; f returns false to stop.
func ForEachSpine(f func(root *gen.Node) bool) {
	leafs := []*gen.Node{gen.Int("1"), gen.Str(`"s"`)}
	for mask := 0; mask < 16; mask++ {
		for _, leaf := range leafs {
			for width := 1; width <= 2; width++ {
				// build from the inside out
				build := func(flagLevel int, flag gen.Rule) *gen.Node {
					cur := leaf.Clone()
					if flagLevel == 4 {
						cur.Rules = append(cur.Rules, flag)
					}
					for lvl := 3; lvl >= 0; lvl-- {
						var n *gen.Node
						if mask&(1<<uint(lvl)) != 0 {
							ps := []gen.Prop{gen.P("a", cur)}
							if width == 2 {
								ps = append(ps, gen.P("b", gen.Bool("true")))
							}
							n = gen.Obj(ps...)
						} else {
							its := []*gen.Node{cur}
							if width == 2 {
								its = append(its, gen.Bool("true"))
							}
							n = gen.Arr(its...)
						}
						if flagLevel == lvl {
							if flag.Name == "optional" {
								// optional applies to the child property, if any
								if n.Kind == gen.KObj {
									n.Props[0].Val.Rules = append(n.Props[0].Val.Rules, flag)
								}
							} else {
								n.Rules = append(n.Rules, flag)
							}
						}
						cur = n
					}
					return cur
				}
				flags := []gen.Rule{{}, gen.R("nullable", "true"), gen.R("optional", "true")}
				for _, fl := range flags {
					levels := []int{-1}
					if fl.Name != "" {
						levels = []int{0, 1, 2, 3, 4}
					}
					for _, lvl := range levels {
						if !f(build(lvl, fl)) {
							return
						}
					}
				}
			}
		}
	}
}

func exampleDoc(n *gen.Node) *gen.JV {
	switch n.Kind {
	case gen.KObj:
		var m []gen.Member
		for _, p := range n.Props {
			m = append(m, gen.Member{Key: p.Key, Val: exampleDoc(p.Val)})
		}
		return gen.JObj(m...)
	case gen.KArr:
		var a []*gen.JV
		for _, it := range n.Items {
			a = append(a, exampleDoc(it))
		}
		return gen.JArr(a...)
	}
	return &gen.JV{Kind: n.Kind, Lit: n.Lit}
}

// edits1 lists all documents one structural edit away.
func edits1(d *gen.JV) []*gen.JV {
	var out []*gen.JV
	repl := []*gen.JV{gen.JInt("1"), gen.JFloat("1.5"), gen.JStr(`"s"`), gen.JBool("true"), gen.JNull(), gen.JObj(), gen.JArr()}
	for _, r := range repl {
		if r.Kind != d.Kind || r.Compact() != d.Compact() {
			out = append(out, r)
		}
	}
	switch d.Kind {
	case gen.KObj:
		for i := range d.Mem {
			nm := append(append([]gen.Member{}, d.Mem[:i]...), d.Mem[i+1:]...)
			out = append(out, gen.JObj(nm...)) // drop a key
			for _, sub := range edits1(d.Mem[i].Val) {
				nm := append([]gen.Member{}, d.Mem...)
				nm[i] = gen.Member{Key: d.Mem[i].Key, Val: sub}
				out = append(out, gen.JObj(nm...))
			}
		}
		out = append(out, gen.JObj(append(append([]gen.Member{}, d.Mem...), gen.Member{Key: "z", Val: gen.JInt("1")})...)) // add a key
		if len(d.Mem) == 2 {
			out = append(out, gen.JObj(d.Mem[1], d.Mem[0])) // reorder
		}
	case gen.KArr:
		for i := range d.Arr {
			na := append(append([]*gen.JV{}, d.Arr[:i]...), d.Arr[i+1:]...)
			out = append(out, gen.JArr(na...))
			for _, sub := range edits1(d.Arr[i]) {
				na := append([]*gen.JV{}, d.Arr...)
				na[i] = sub
				out = append(out, gen.JArr(na...))
			}
		}
		if len(d.Arr) > 0 {
			out = append(out, gen.JArr(append(append([]*gen.JV{}, d.Arr...), d.Arr[len(d.Arr)-1])...)) // extend by a copy of the last
		}
		out = append(out, gen.JArr(append(append([]*gen.JV{}, d.Arr...), gen.JStr(`"x"`))...)) // extend by a foreign value
	}
	return out
}

func neighbours(d *gen.JV, k int) []*gen.JV {
	seen := map[string]bool{d.Compact(): true}
	out := []*gen.JV{d}
	frontier := []*gen.JV{d}
	for i := 0; i < k; i++ {
		var next []*gen.JV
		for _, x := range frontier {
			for _, e := range edits1(x) {
				key := e.Compact()
				if !seen[key] {
					seen[key] = true
					out = append(out, e)
					next = append(next, e)
				}
			}
		}
		frontier = next
	}
	return out
}
