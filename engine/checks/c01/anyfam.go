package c01

import (
	"verif/gen"
	"verif/internal/ev"
)

// anyFamily: what follows a `type: "any"` position. The small-scope enumeration only reaches any-values of
// one or two nodes; here the value under the any position is drawn from a pool of nested structures
// (arrays with 0..3 items, arrays in arrays, objects holding arrays, arrays of objects holding arrays), in
// every context below, crossed with every variation of the nodes that FOLLOW the any position (correct,
// wrong kind, missing, unknown extra key, extra item). The reference decides every document.
func anyFamily(c *ev.Ctx) {
	one, two, s := gen.JInt("1"), gen.JInt("2"), gen.JStr(`"s"`)
	anyVals := []*gen.JV{
		one, s, gen.JNull(), gen.JBool("true"),
		gen.JArr(), gen.JArr(one), gen.JArr(one, two), gen.JArr(one, two, s),
		gen.JArr(gen.JArr(one, two), gen.JArr(s)),
		gen.JArr(gen.JArr(), gen.JArr()),
		gen.JObj(),
		gen.JObj(gen.Member{Key: "x", Val: gen.JArr(one, two)}),
		gen.JObj(gen.Member{Key: "x", Val: one}, gen.Member{Key: "y", Val: gen.JArr(one, two, s)}),
		gen.JArr(gen.JObj(gen.Member{Key: "k", Val: gen.JArr(one, two)}), gen.JObj()),
		gen.JObj(gen.Member{Key: "x", Val: gen.JObj(gen.Member{Key: "y", Val: gen.JArr(gen.JArr(one, two), one)})}),
		gen.JArr(gen.JArr(gen.JArr(one, two), gen.JArr(one, two)), gen.JArr(one, two)),
	}
	anyNode := func() *gen.Node { return gen.Int("1").With(gen.R("type", `"any"`)) }
	// after: documents standing at the position of the sibling that follows the any position
	after := []*gen.JV{two, s, gen.JNull(), gen.JArr(two), gen.JObj()}

	type ctx struct {
		name string
		root *gen.Node
		docs func(v, a *gen.JV, f func(*gen.JV))
	}
	m := func(k string, v *gen.JV) gen.Member { return gen.Member{Key: k, Val: v} }
	ctxs := []ctx{
		{"object: any property then a sibling", gen.Obj(gen.P("a", anyNode()), gen.P("b", gen.Int("2"))),
			func(v, a *gen.JV, f func(*gen.JV)) {
				f(gen.JObj(m("a", v), m("b", a)))
				f(gen.JObj(m("b", a), m("a", v)))
				f(gen.JObj(m("a", v)))
				f(gen.JObj(m("a", v), m("b", a), m("zz", a)))
				f(gen.JObj(m("a", v), m("zz", a), m("b", two)))
			}},
		{"object: sibling then any property", gen.Obj(gen.P("b", gen.Int("2")), gen.P("a", anyNode())),
			func(v, a *gen.JV, f func(*gen.JV)) {
				f(gen.JObj(m("b", a), m("a", v)))
				f(gen.JObj(m("a", v), m("b", a)))
				f(gen.JObj(m("a", v), m("zz", a)))
			}},
		{"array of objects with an any property", gen.Arr(gen.Obj(gen.P("a", anyNode()))),
			func(v, a *gen.JV, f func(*gen.JV)) {
				f(gen.JArr(gen.JObj(m("a", v)), gen.JObj(m("a", a))))
				f(gen.JArr(gen.JObj(m("a", v)), a))
				f(gen.JArr(gen.JObj(m("a", v)), gen.JObj(m("a", v)), gen.JObj(m("b", a))))
				f(gen.JArr(gen.JObj(m("a", a)), gen.JObj(m("a", v)), gen.JObj()))
			}},
		{"array: any item type and a string item type", gen.Arr(anyNode(), gen.Str(`"s"`)),
			func(v, a *gen.JV, f func(*gen.JV)) {
				f(gen.JArr(v, a))
				f(gen.JArr(a, v, a))
			}},
		{"nested object with an any property, then an outer sibling", gen.Obj(gen.P("o", gen.Obj(gen.P("a", anyNode()))), gen.P("b", gen.Int("2"))),
			func(v, a *gen.JV, f func(*gen.JV)) {
				f(gen.JObj(m("o", gen.JObj(m("a", v))), m("b", a)))
				f(gen.JObj(m("o", gen.JObj(m("a", v), m("zz", a))), m("b", two)))
				f(gen.JObj(m("o", gen.JObj(m("a", v)))))
				f(gen.JObj(m("o", gen.JObj(m("a", v))), m("b", two), m("zz", a)))
			}},
		{"array of arrays of any, then an outer object item", gen.Obj(gen.P("l", gen.Arr(gen.Arr(anyNode()))), gen.P("b", gen.Int("2"))),
			func(v, a *gen.JV, f func(*gen.JV)) {
				f(gen.JObj(m("l", gen.JArr(gen.JArr(v, v), gen.JArr(v))), m("b", a)))
				f(gen.JObj(m("l", gen.JArr(gen.JArr(v), a)), m("b", two)))
				f(gen.JObj(m("l", gen.JArr(gen.JArr(v))), m("zz", a), m("b", two)))
			}},
		{"two any properties around a sibling", gen.Obj(gen.P("a", anyNode()), gen.P("b", gen.Int("2")), gen.P("c", anyNode())),
			func(v, a *gen.JV, f func(*gen.JV)) {
				f(gen.JObj(m("a", v), m("b", a), m("c", v)))
				f(gen.JObj(m("a", v), m("c", v)))
				f(gen.JObj(m("a", v), m("b", two), m("c", v), m("zz", a)))
			}},
	}
	for _, cx := range ctxs {
		if !c.Mine() {
			continue
		}
		if c.Expired() {
			return
		}
		var docs []*gen.JV
		seen := map[string]bool{}
		for _, v := range anyVals {
			for _, a := range after {
				cx.docs(v, a, func(d *gen.JV) {
					t := d.Compact()
					if !seen[t] {
						seen[t] = true
						docs = append(docs, d)
					}
				})
			}
		}
		evalSchema(c, cx.root, docs, true)
		c.Inc("any_family_schemas")
		c.Add("any_family_documents", int64(len(docs)))
	}
}
