package c01

import (
	"fmt"

	"verif/gen"
	"verif/internal/ev"
)

// repCounts: every count up to 10 and the neighbours of the powers of two up to 256, then 300 (1000 for
// array items): per-element counters, index arithmetic and growing buffers fail at one of them.
var repCounts = []int{1, 2, 3, 4, 5, 6, 7, 8, 9, 10, 15, 16, 17, 31, 32, 33, 63, 64, 65, 66, 100, 127, 128, 129, 255, 256, 257, 300}

// repFamily: wide and deep documents. (i) `[1]` and `[1, "s"]` against arrays of n items with one foreign
// item first / in the middle / last; (ii) an object of n required properties against the exact document and
// the documents with one member missing, of the wrong kind, or one unknown member added, at the first, a
// middle and the last place; (iii) n levels of arrays / objects around one leaf against the same nesting with
// the right leaf, a wrong leaf, one level less and one level more.
func repFamily(c *ev.Ctx) {
	one, str := gen.JInt("1"), gen.JStr(`"s"`)
	places := func(n int) []int {
		out := []int{0}
		if n > 2 {
			out = append(out, n/2)
		}
		if n > 1 {
			out = append(out, n-1)
		}
		return out
	}
	for _, n := range append(append([]int{}, repCounts...), 1000) {
		if !c.MineKey(fmt.Sprint("rep-array;", n)) {
			continue
		}
		if c.Expired() {
			return
		}
		items := make([]*gen.JV, n)
		for i := range items {
			items[i] = one
		}
		docs := []*gen.JV{gen.JArr(items...)}
		for _, k := range places(n) {
			for _, foreign := range []*gen.JV{str, gen.JNull(), gen.JArr(one), gen.JObj()} {
				its := append([]*gen.JV{}, items...)
				its[k] = foreign
				docs = append(docs, gen.JArr(its...))
			}
		}
		evalSchema(c, gen.Arr(gen.Int("1")), docs, false)
		evalSchema(c, gen.Arr(gen.Int("1"), gen.Str(`"s"`)), docs, false)
		evalSchema(c, gen.Obj(gen.P("l", gen.Arr(gen.Int("1"))), gen.P("z", gen.Int("2"))), wrapDocs(docs), false)
		c.Inc("rep_family_schemas")
	}
	for _, n := range repCounts {
		if !c.MineKey(fmt.Sprint("rep-object;", n)) {
			continue
		}
		if c.Expired() {
			return
		}
		var props []gen.Prop
		var mem []gen.Member
		for i := 0; i < n; i++ {
			props = append(props, gen.P(fmt.Sprintf("k%d", i), gen.Int("1")))
			mem = append(mem, gen.Member{Key: fmt.Sprintf("k%d", i), Val: one})
		}
		docs := []*gen.JV{gen.JObj(mem...)}
		for _, k := range places(n) {
			missing := append(append([]gen.Member{}, mem[:k]...), mem[k+1:]...)
			docs = append(docs, gen.JObj(missing...))
			wrong := append([]gen.Member{}, mem...)
			wrong[k] = gen.Member{Key: mem[k].Key, Val: str}
			docs = append(docs, gen.JObj(wrong...))
			extra := append(append(append([]gen.Member{}, mem[:k]...), gen.Member{Key: "zz", Val: one}), mem[k:]...)
			docs = append(docs, gen.JObj(extra...))
		}
		docs = append(docs, gen.JObj(append(append([]gen.Member{}, mem...), gen.Member{Key: "zz", Val: one})...))
		evalSchema(c, gen.Obj(props...), docs, true)
		c.Inc("rep_family_schemas")
	}
	for _, n := range repCounts {
		if n > 130 {
			continue // the library's own nesting is recursive: depth is C07's business beyond this
		}
		if !c.MineKey(fmt.Sprint("rep-depth;", n)) {
			continue
		}
		if c.Expired() {
			return
		}
		for _, object := range []bool{false, true} {
			nestS := func(d int, leaf *gen.Node) *gen.Node {
				cur := leaf
				for i := 0; i < d; i++ {
					if object {
						cur = gen.Obj(gen.P("a", cur))
					} else {
						cur = gen.Arr(cur)
					}
				}
				return cur
			}
			nestD := func(d int, leaf *gen.JV) *gen.JV {
				cur := leaf
				for i := 0; i < d; i++ {
					if object {
						cur = gen.JObj(gen.Member{Key: "a", Val: cur})
					} else {
						cur = gen.JArr(cur)
					}
				}
				return cur
			}
			docs := []*gen.JV{nestD(n, one), nestD(n, str), nestD(n-1, one), nestD(n+1, one), nestD(n, gen.JNull())}
			evalSchema(c, nestS(n, gen.Int("1")), docs, false)
			c.Inc("rep_family_schemas")
		}
	}
}

func wrapDocs(docs []*gen.JV) []*gen.JV {
	var out []*gen.JV
	for _, d := range docs {
		out = append(out, gen.JObj(gen.Member{Key: "l", Val: d}, gen.Member{Key: "z", Val: gen.JInt("2")}),
			gen.JObj(gen.Member{Key: "l", Val: d}, gen.Member{Key: "z", Val: gen.JStr(`"s"`)}))
	}
	return out
}
