// Package c01: Validate accepts exactly the documents shaped like the EXAMPLE
// (rule-free fragment: optional, nullable, type "any").
package c01

import (
	stdjson "encoding/json"
	"fmt"
	"time"

	"verif/checks/sc"
	"verif/gen"
	"verif/internal/ev"
	"verif/internal/lib"
	"verif/ref/refv"
)

func init() {
	ev.Register(&ev.Check{
		ID:             "C01",
		Level:          "exploration",
		Rule:           "ALL schemas of the rule-free fragment with <= 3 (thorough 4) example nodes (5 scalar kinds, objects over keys a,b, arrays; every node independently nullable:true/false and type:any where legal, every property optional:true/false/unmarked) x ALL JSON documents with <= 4 (5) nodes over {1,1.5,\"s\",true,null,{},[]} with keys a,b,c in every key order, under both KeysAreOptionalByDefault settings; plus depth-5 spines (all 16 object/array nestings, width <= 2, every flag placement) with all documents within 2 structural edits of the example. Oracle: reference shape matcher (three-valued) + differential: optional-by-default == default with every unmarked key marked optional. Non-trivial = distinct (schema, config, document) on which Check succeeded and the reference is decided.",
		Run:            run,
		Replay:         replay,
		QuickBudget:    150 * time.Second,
		ThoroughBudget: 14 * time.Minute,
		Assumptions: []string{
			"documents with duplicate keys are not asserted",
			"numerals other than 1 and 1.5 are C10's business",
		},
	})
}

func flagRules(nullable int, any bool, optional int) []gen.Rule {
	var rs []gen.Rule
	if any {
		rs = append(rs, gen.R("type", `"any"`))
	}
	switch nullable {
	case 1:
		rs = append(rs, gen.R("nullable", "true"))
	case 2:
		rs = append(rs, gen.R("nullable", "false"))
	}
	switch optional {
	case 1:
		rs = append(rs, gen.R("optional", "true"))
	case 2:
		rs = append(rs, gen.R("optional", "false"))
	}
	return rs
}

// shapes enumerates rule-free shapes with exactly n nodes.
func shapes(n int, f func(*gen.Node)) {
	if n == 1 {
		f(gen.Int("1"))
		f(gen.Float("1.5"))
		f(gen.Str(`"s"`))
		f(gen.Bool("true"))
		f(gen.Null())
		f(gen.Obj())
		f(gen.Arr())
		return
	}
	// arrays
	var arr func(rem int, cur []*gen.Node)
	arr = func(rem int, cur []*gen.Node) {
		if rem == 0 {
			f(gen.Arr(append([]*gen.Node{}, cur...)...))
			return
		}
		for s := 1; s <= rem; s++ {
			shapes(s, func(v *gen.Node) { arr(rem-s, append(cur, v)) })
		}
	}
	arr(n-1, nil)
	keys := []string{"a", "b", "c"}
	var obj func(rem int, cur []gen.Prop)
	obj = func(rem int, cur []gen.Prop) {
		if rem == 0 {
			f(gen.Obj(append([]gen.Prop{}, cur...)...))
			return
		}
		if len(cur) >= len(keys) {
			return
		}
		for s := 1; s <= rem; s++ {
			shapes(s, func(v *gen.Node) { obj(rem-s, append(cur, gen.P(keys[len(cur)], v))) })
		}
	}
	obj(n-1, nil)
}

// withFlags enumerates all flag assignments of a shape.
func withFlags(shape *gen.Node, nullableVals []int, f func(*gen.Node)) {
	var nodes []*gen.Node
	var isProp []bool
	var collect func(n *gen.Node, prop bool)
	collect = func(n *gen.Node, prop bool) {
		nodes = append(nodes, n)
		isProp = append(isProp, prop)
		for _, p := range n.Props {
			collect(p.Val, true)
		}
		for _, it := range n.Items {
			collect(it, false)
		}
	}
	root := shape.Clone()
	collect(root, false)
	var rec func(i int)
	rec = func(i int) {
		if i == len(nodes) {
			f(root.Clone())
			return
		}
		n := nodes[i]
		leafish := len(n.Props) == 0 && len(n.Items) == 0
		anys := []bool{false}
		if leafish {
			anys = []bool{false, true}
		}
		opts := []int{0}
		if isProp[i] {
			opts = []int{0, 1, 2}
		}
		for _, a := range anys {
			for _, nl := range nullableVals {
				for _, o := range opts {
					n.Rules = flagRules(nl, a, o)
					rec(i + 1)
				}
			}
		}
		n.Rules = nil
	}
	rec(0)
}

var scalars = []*gen.JV{gen.JInt("1"), gen.JFloat("1.5"), gen.JStr(`"s"`), gen.JBool("true"), gen.JNull()}

func markAllOptional(n *gen.Node) *gen.Node {
	c := n.Clone()
	c.Walk(func(x *gen.Node) {
		for _, p := range x.Props {
			if p.Val.Rule("optional") == nil {
				p.Val.Rules = append(p.Val.Rules, gen.R("optional", "true"))
			}
		}
	})
	return c
}

func report(c *ev.Ctx, cs sc.Case, dir string) {
	red := ev.Reduce(cs, sc.Cands, func(x sc.Case) bool {
		if x.Doc == nil {
			return false
		}
		return sc.Eval(x).Direction() == dir
	})
	o := sc.Eval(red)
	c.Violate("validate;"+dir+";"+red.Describe(),
		fmt.Sprintf("%s: library %s, reference (shape of the example) says %s", red.Describe(), o.Val, o.Ref), red)
}

func evalSchema(c *ev.Ctx, root *gen.Node, docs []*gen.JV, withDifferential bool) {
	for _, opt := range []bool{false, true} {
		cs := sc.Case{Root: root, Opt: opt}
		s, r := lib.Check(cs.Spec())
		if !r.OK {
			c.Inc("check_rejected")
			c.Sample("check-rejected", map[string]any{"schema": cs.Spec().Text, "error": r.String()})
			continue
		}
		env := cs.Env()
		var sTwin *libSchema // marked-optional twin under the default config
		if opt && withDifferential {
			t := sc.Case{Root: markAllOptional(root)}
			ts, tr := lib.Check(t.Spec())
			if tr.OK {
				sTwin = &libSchema{ts}
			}
		}
		for _, d := range docs {
			text := d.Compact()
			res := lib.Validate(s, text)
			want := refv.Accepts(env, root, d)
			c.Eval(want != refv.Unspecified)
			switch want {
			case refv.Unspecified:
				c.Inc("unspecified")
			case refv.Accept:
				c.Inc("ref_accept")
			default:
				c.Inc("ref_reject")
			}
			if res.OK {
				c.Inc("lib_accept")
			} else {
				c.Inc(fmt.Sprintf("lib_code_%d", res.Code))
			}
			cs.Doc = d
			o := sc.Outcome{Check: r, Val: res, Ref: want}
			if dir := o.Direction(); dir != "" {
				report(c, cs, dir)
			}
			// the same document with every key spelled with a \uXXXX escape: keys are compared decoded
			if d.HasKeys() && !d.HasDupKeys() {
				esc := d.CompactKeys(gen.EscapedKey)
				if eres := lib.Validate(s, esc); eres.OK != res.OK {
					c.Violate("key-spelling;"+cs.Describe(),
						fmt.Sprintf("%s: verdict %s, but %s for the same document with its keys spelled with escapes: %s", cs.Describe(), res, eres, esc), cs)
				}
				c.Inc("escaped_key_documents")
			}
			if sTwin != nil && !d.HasDupKeys() {
				tres := lib.Validate(sTwin.s, text)
				if tres.OK != res.OK {
					c.Violate("config-differential;"+cs.Describe(),
						fmt.Sprintf("%s: verdict %s under KeysAreOptionalByDefault, but %s under the default configuration with every unmarked key marked optional", cs.Describe(), res, tres), cs)
				}
			}
		}
		if root.Size() >= 3 {
			c.Sample("schema", map[string]any{"schema": cs.Spec().Text, "documents": len(docs)})
		}
	}
}

func run(c *ev.Ctx) {
	maxS, maxD := 3, 4
	nullableVals := []int{0, 1}
	if c.Thorough() {
		maxS, maxD = 4, 5
		nullableVals = []int{0, 1, 2}
	}
	c.Bound("schema_nodes", maxS)
	c.Bound("document_nodes", maxD)
	var docs, docsSmall []*gen.JV
	gen.EnumDocs(maxD, scalars, []string{"a", "b", "c"}, func(d *gen.JV) { docs = append(docs, d) })
	gen.EnumDocs(maxD-1, scalars, []string{"a", "b", "c"}, func(d *gen.JV) { docsSmall = append(docsSmall, d) })
	c.Bound("documents_for_schemas_up_to_2_nodes", len(docs))
	c.Bound("documents_for_larger_schemas", len(docsSmall))
	// the directed families first: they are cheap, and a deadline (thorough tier) must cut the tail of
	// the big enumeration, not them
	spines(c)
	anyFamily(c)
	repFamily(c)
	for n := 1; n <= maxS; n++ {
		shapes(n, func(shape *gen.Node) {
			withFlags(shape, nullableVals, func(root *gen.Node) {
				if !c.Mine() {
					return
				}
				if c.Expired() {
					return
				}
				if n <= 2 {
					evalSchema(c, root, docs, true)
				} else {
					evalSchema(c, root, docsSmall, true)
				}
				c.Inc("schemas")
			})
		})
	}
}

func replay(raw stdjson.RawMessage) (bool, string) {
	var cs sc.Case
	if err := stdjson.Unmarshal(raw, &cs); err != nil {
		return false, err.Error()
	}
	fixKinds(cs.Doc)
	o := sc.Eval(cs)
	return o.Direction() != "", fmt.Sprintf("%s: Check=%s Validate=%s reference=%s", cs.Describe(), o.Check, o.Val, o.Ref)
}

// ForEachSchema enumerates the rule-free fragment (both configurations).
func ForEachSchema(maxNodes int, f func(sc.Case)) {
	for n := 1; n <= maxNodes; n++ {
		shapes(n, func(shape *gen.Node) {
			withFlags(shape, []int{0, 1}, func(root *gen.Node) {
				f(sc.Case{Root: root})
				f(sc.Case{Root: root, Opt: true})
			})
		})
	}
}
