package c01

import (
	"strings"

	"github.com/jsightapi/jsight-schema-go-library/notations/jschema"

	"verif/gen"
)

type libSchema struct{ s *jschema.Schema }

// fixKinds restores JV kinds after JSON decoding (Kind is not serialised).
func fixKinds(d *gen.JV) {
	if d == nil {
		return
	}
	switch {
	case d.Lit == "" && d.Arr != nil:
		d.Kind = gen.KArr
	case d.Lit == "":
		d.Kind = gen.KObj
	case strings.HasPrefix(d.Lit, `"`):
		d.Kind = gen.KStr
	case d.Lit == "true" || d.Lit == "false":
		d.Kind = gen.KBool
	case d.Lit == "null":
		d.Kind = gen.KNull
	case strings.ContainsAny(d.Lit, ".eE"):
		d.Kind = gen.KFloat
	default:
		d.Kind = gen.KInt
	}
	for _, m := range d.Mem {
		fixKinds(m.Val)
	}
	for _, a := range d.Arr {
		fixKinds(a)
	}
}
