// Package c19: ordered maps behave as insertion-ordered maps under any
// operation sequence (sequential part: explicit-state BFS to a fixpoint).
package c19

import (
	stdjson "encoding/json"
	"errors"
	"fmt"
	"reflect"
	"strings"
	"sync/atomic"
	"time"

	jschema "github.com/jsightapi/jsight-schema-go-library"

	"verif/internal/ev"
	"verif/ref/orderedmap"
)

func init() {
	ev.Register(&ev.Check{
		ID:          "C19",
		Level:       "model_checking",
		Rule:        "explicit-state BFS to a fixpoint over the REAL generated maps (ASTNodes; RuleASTNodes from zero value, NewRuleASTNodes and MakeRuleASTNodes; Constraints via the verif hook): state = (order slice including the stale backing array beyond len, len, data as seen by Get), alphabet = Set(k,v) k in {a,b,c} v in {1,2}, Update, Delete, Filter x 3 predicates, Map(swap), Map(fail at 2nd); a successor is a fresh object + replay of the shortest history + one operation; in every state every observer (Get, GetValue, Has, Len, Each, EachSafe, Find x 3, MarshalJSON) and every callback visit log is compared with the reference insertion-ordered map. Concurrent part: all interleavings of 2 threads x 2 ops / 3 threads x 1 op at lock points under the controlled scheduler with the race detector as per-schedule happens-before monitor and brute-force linearizability. Non-trivial = a distinct (map type, canonical state, operation) transition.",
		Workers:     func(string) int { return 7 },
		ExtraID:     "C19c",
		Run:         run,
		Replay:      replay,
		QuickBudget: 150 * time.Second,
		Assumptions: []string{
			"the canonical state key (order backing array, len, Get of every alphabet key) determines all futures; merges are validated by recomputing successors of merged histories",
			"callback-visible behaviour of Map on callback error: entries before the failing one are updated, iteration stops, the value returned together with the error is not stored",
		},
	})
}

// Op is one operation of the alphabet.
type Op struct {
	Name string `json:"op"`
	K    int    `json:"k,omitempty"`
	V    int    `json:"v,omitempty"`
}

func (o Op) String() string {
	switch o.Name {
	case "Set":
		return fmt.Sprintf("Set(%c,%d)", 'a'+o.K, o.V)
	case "Update", "Delete":
		return fmt.Sprintf("%s(%c)", o.Name, 'a'+o.K)
	}
	return o.Name
}

func alphabet() []Op {
	var ops []Op
	for k := 0; k < 3; k++ {
		for v := 1; v <= 2; v++ {
			ops = append(ops, Op{"Set", k, v})
		}
	}
	for k := 0; k < 3; k++ {
		ops = append(ops, Op{"Delete", k, 0})
	}
	for k := 0; k < 3; k++ {
		ops = append(ops, Op{"Update", k, 0})
	}
	ops = append(ops, Op{Name: "Filter(drop a)"}, Op{Name: "Filter(drop odd)"}, Op{Name: "Filter(drop all)"}, Op{Name: "Filter(keep all)"},
		Op{Name: "Map(swap)"}, Op{Name: "Map(fail 2nd)"})
	return ops
}

func swap(v int) int {
	if v == 1 {
		return 2
	}
	if v == 2 {
		return 1
	}
	return v
}

// imap is the adapter over one real map object using int keys/values.
type imap interface {
	Kind() string
	Set(k, v int)
	Update(k int, f func(int) int)
	Delete(k int)
	Filter(f func(k, v int) bool)
	Map(f func(k, v int) (int, error)) error
	Find(f func(k, v int) bool) (int, int, bool)
	Each(f func(k, v int) error) error
	EachSafe(f func(k, v int))
	Get(k int) (int, bool)
	GetValue(k int) int // 0 for the zero value
	Has(k int) bool
	Len() int
	MarshalJSON() ([]byte, error)
	ExpectedJSON(entries [][2]int) string
	Raw() any
}

// ---- ASTNodes ---------------------------------------------------------

// keyNames: the three keys of the state search, then the keys of the big-map family.
var keyNames = func() []string {
	out := []string{"a", "b", "c"}
	for i := 3; i < 1100; i++ {
		out = append(out, fmt.Sprintf("k%04d", i))
	}
	return out
}()

var keyIndex = func() map[string]int {
	m := map[string]int{}
	for i, k := range keyNames {
		m[k] = i
	}
	return m
}()

// keyIdx: -1 for a key that was never inserted (e.g. the zero key "").
func keyIdx(s string) int {
	if i, ok := keyIndex[s]; ok {
		return i
	}
	return -1
}

type astMap struct{ m *jschema.ASTNodes }

func astVal(v int) jschema.ASTNode { return jschema.ASTNode{Value: fmt.Sprint(v)} }
func astID(n jschema.ASTNode) int {
	switch n.Value {
	case "1":
		return 1
	case "2":
		return 2
	}
	return 0
}
func (a astMap) Kind() string { return "ASTNodes" }
func (a astMap) Raw() any     { return a.m }
func (a astMap) Set(k, v int) { a.m.Set(keyNames[k], astVal(v)) }
func (a astMap) Update(k int, f func(int) int) {
	a.m.Update(keyNames[k], func(n jschema.ASTNode) jschema.ASTNode { return astVal(f(astID(n))) })
}
func (a astMap) Delete(k int) { a.m.Delete(keyNames[k]) }
func (a astMap) Filter(f func(k, v int) bool) {
	a.m.Filter(func(k string, v jschema.ASTNode) bool { return f(keyIdx(k), astID(v)) })
}
func (a astMap) Map(f func(k, v int) (int, error)) error {
	return a.m.Map(func(k string, v jschema.ASTNode) (jschema.ASTNode, error) {
		nv, err := f(keyIdx(k), astID(v))
		return astVal(nv), err
	})
}
func (a astMap) Find(f func(k, v int) bool) (int, int, bool) {
	it, ok := a.m.Find(func(k string, v jschema.ASTNode) bool { return f(keyIdx(k), astID(v)) })
	return keyIdx(it.Key), astID(it.Value), ok
}
func (a astMap) Each(f func(k, v int) error) error {
	return a.m.Each(func(k string, v jschema.ASTNode) error { return f(keyIdx(k), astID(v)) })
}
func (a astMap) EachSafe(f func(k, v int)) {
	a.m.EachSafe(func(k string, v jschema.ASTNode) { f(keyIdx(k), astID(v)) })
}
func (a astMap) Get(k int) (int, bool) { v, ok := a.m.Get(keyNames[k]); return astID(v), ok }
func (a astMap) GetValue(k int) int    { return astID(a.m.GetValue(keyNames[k])) }
func (a astMap) Has(k int) bool        { return a.m.Has(keyNames[k]) }
func (a astMap) Len() int              { return a.m.Len() }
func (a astMap) MarshalJSON() ([]byte, error) {
	return a.m.MarshalJSON()
}
func (a astMap) ExpectedJSON(entries [][2]int) string {
	var b strings.Builder
	b.WriteString("{")
	for i, e := range entries {
		if i > 0 {
			b.WriteString(",")
		}
		k, _ := stdjson.Marshal(keyNames[e[0]])
		v, _ := stdjson.Marshal(astVal(e[1]))
		b.Write(k)
		b.WriteString(":")
		b.Write(v)
	}
	b.WriteString("}")
	return b.String()
}

// ---- RuleASTNodes -------------------------------------------------------

type ruleMap struct {
	m    *jschema.RuleASTNodes
	kind string
}

func ruleVal(v int) jschema.RuleASTNode { return jschema.RuleASTNode{Value: fmt.Sprint(v)} }
func ruleID(n jschema.RuleASTNode) int {
	switch n.Value {
	case "1":
		return 1
	case "2":
		return 2
	}
	return 0
}
func (a ruleMap) Kind() string { return a.kind }
func (a ruleMap) Raw() any     { return a.m }
func (a ruleMap) Set(k, v int) { a.m.Set(keyNames[k], ruleVal(v)) }
func (a ruleMap) Update(k int, f func(int) int) {
	a.m.Update(keyNames[k], func(n jschema.RuleASTNode) jschema.RuleASTNode { return ruleVal(f(ruleID(n))) })
}
func (a ruleMap) Delete(k int) { a.m.Delete(keyNames[k]) }
func (a ruleMap) Filter(f func(k, v int) bool) {
	a.m.Filter(func(k string, v jschema.RuleASTNode) bool { return f(keyIdx(k), ruleID(v)) })
}
func (a ruleMap) Map(f func(k, v int) (int, error)) error {
	return a.m.Map(func(k string, v jschema.RuleASTNode) (jschema.RuleASTNode, error) {
		nv, err := f(keyIdx(k), ruleID(v))
		return ruleVal(nv), err
	})
}
func (a ruleMap) Find(f func(k, v int) bool) (int, int, bool) {
	it, ok := a.m.Find(func(k string, v jschema.RuleASTNode) bool { return f(keyIdx(k), ruleID(v)) })
	return keyIdx(it.Key), ruleID(it.Value), ok
}
func (a ruleMap) Each(f func(k, v int) error) error {
	return a.m.Each(func(k string, v jschema.RuleASTNode) error { return f(keyIdx(k), ruleID(v)) })
}
func (a ruleMap) EachSafe(f func(k, v int)) {
	a.m.EachSafe(func(k string, v jschema.RuleASTNode) { f(keyIdx(k), ruleID(v)) })
}
func (a ruleMap) Get(k int) (int, bool) { v, ok := a.m.Get(keyNames[k]); return ruleID(v), ok }
func (a ruleMap) GetValue(k int) int    { return ruleID(a.m.GetValue(keyNames[k])) }
func (a ruleMap) Has(k int) bool        { return a.m.Has(keyNames[k]) }
func (a ruleMap) Len() int              { return a.m.Len() }
func (a ruleMap) MarshalJSON() ([]byte, error) {
	return a.m.MarshalJSON()
}
func (a ruleMap) ExpectedJSON(entries [][2]int) string {
	var b strings.Builder
	b.WriteString("{")
	for i, e := range entries {
		if i > 0 {
			b.WriteString(",")
		}
		k, _ := stdjson.Marshal(keyNames[e[0]])
		v, _ := stdjson.Marshal(ruleVal(e[1]))
		b.Write(k)
		b.WriteString(":")
		b.Write(v)
	}
	b.WriteString("}")
	return b.String()
}

// factories of fresh real objects
type factory struct {
	name string
	mk   func() imap
}

func factories() []factory {
	fs := []factory{
		{"ASTNodes(zero)", func() imap { return astMap{&jschema.ASTNodes{}} }},
		{"RuleASTNodes(zero)", func() imap { return ruleMap{&jschema.RuleASTNodes{}, "RuleASTNodes(zero)"} }},
		{"RuleASTNodes(New nil,nil)", func() imap { return ruleMap{jschema.NewRuleASTNodes(nil, nil), "RuleASTNodes(New nil,nil)"} }},
		{"RuleASTNodes(New empty)", func() imap {
			return ruleMap{jschema.NewRuleASTNodes(map[string]jschema.RuleASTNode{}, []string{}), "RuleASTNodes(New empty)"}
		}},
		{"RuleASTNodes(Make 0)", func() imap { return ruleMap{jschema.MakeRuleASTNodes(0), "RuleASTNodes(Make 0)"} }},
		{"RuleASTNodes(Make 3)", func() imap { return ruleMap{jschema.MakeRuleASTNodes(3), "RuleASTNodes(Make 3)"} }},
	}
	return append(fs, hookFactories()...)
}

// internalKey reads the order slice (full backing array) by reflection.
func internalKey(m imap) string {
	v := reflect.ValueOf(m.Raw()).Elem()
	o := v.FieldByName("order")
	var b strings.Builder
	if o.IsValid() && o.Kind() == reflect.Slice {
		n, cp := o.Len(), o.Cap()
		fmt.Fprintf(&b, "len=%d cap=%d [", n, cp)
		if cp > 0 {
			full := o.Slice3(0, cp, cp)
			for i := 0; i < cp; i++ {
				e := full.Index(i)
				switch e.Kind() {
				case reflect.String:
					b.WriteString(e.String())
				case reflect.Int, reflect.Int8, reflect.Int16, reflect.Int32, reflect.Int64:
					fmt.Fprint(&b, e.Int())
				case reflect.Uint, reflect.Uint8, reflect.Uint16, reflect.Uint32, reflect.Uint64:
					fmt.Fprint(&b, e.Uint())
				default:
					b.WriteString("?")
				}
				if i == n-1 {
					b.WriteString("|")
				} else {
					b.WriteString(",")
				}
			}
		}
		b.WriteString("]")
		if o.IsNil() {
			b.WriteString("nil")
		}
	} else {
		b.WriteString("no-order-field")
	}
	d := v.FieldByName("data")
	if d.IsValid() && d.Kind() == reflect.Map {
		fmt.Fprintf(&b, " datalen=%d nil=%v", d.Len(), d.IsNil())
	}
	b.WriteString(" {")
	for k := 0; k < 3; k++ {
		val, ok := m.Get(k)
		fmt.Fprintf(&b, "%d:%v;", val, ok)
	}
	b.WriteString("}")
	return b.String()
}

var errFail = errors.New("callback failure")

// apply executes op on the real map and on the reference and compares what the
// operation itself lets the caller observe. Returns a description of the first
// difference, or "".
func apply(m imap, r *orderedmap.Map, op Op) (diff string) {
	defer func() {
		if p := recover(); p != nil {
			diff = fmt.Sprintf("%s panicked: %v", op, p)
		}
	}()
	switch {
	case op.Name == "Set":
		m.Set(op.K, op.V)
		r.Set(op.K, op.V)
	case op.Name == "Delete":
		m.Delete(op.K)
		r.Delete(op.K)
	case op.Name == "Update":
		calls := 0
		m.Update(op.K, func(v int) int { calls++; return swap(v) })
		_, present := r.Get(op.K)
		r.Update(op.K, swap)
		want := 0
		if present {
			want = 1
		}
		if calls != want {
			return fmt.Sprintf("%s: callback invoked %d times, want %d", op, calls, want)
		}
	case strings.HasPrefix(op.Name, "Filter"):
		var pred func(k, v int) bool
		switch op.Name {
		case "Filter(drop a)":
			pred = func(k, v int) bool { return k != 0 }
		case "Filter(drop odd)":
			pred = func(k, v int) bool { return v%2 == 0 }
		case "Filter(drop all)":
			pred = func(k, v int) bool { return false }
		case "Filter(keep every 8th key)":
			pred = func(k, v int) bool { return k%8 == 0 }
		case "Filter(keep every 2nd key)":
			pred = func(k, v int) bool { return k%2 == 0 }
		default:
			pred = func(k, v int) bool { return true }
		}
		var log [][2]int
		m.Filter(func(k, v int) bool { log = append(log, [2]int{k, v}); return pred(k, v) })
		want := r.Filter(pred)
		if fmt.Sprint(log) != fmt.Sprint(want) {
			return fmt.Sprintf("%s visited %v, an insertion-ordered map visits %v (each entry exactly once, in order)", op, pretty(log), pretty(want))
		}
	case op.Name == "Map(swap)":
		var log [][2]int
		err := m.Map(func(k, v int) (int, error) { log = append(log, [2]int{k, v}); return swap(v), nil })
		want, _ := r.Map(func(k, v int) (int, bool) { return swap(v), true })
		if err != nil {
			return fmt.Sprintf("%s returned %v", op, err)
		}
		if fmt.Sprint(log) != fmt.Sprint(want) {
			return fmt.Sprintf("%s visited %v, want %v", op, pretty(log), pretty(want))
		}
	case op.Name == "Map(fail 2nd)":
		var log [][2]int
		n := 0
		err := m.Map(func(k, v int) (int, error) {
			log = append(log, [2]int{k, v})
			n++
			if n == 2 {
				return swap(v) + 7, errFail // whatever comes with an error must not be stored
			}
			return swap(v), nil
		})
		rn := 0
		want, ok := r.Map(func(k, v int) (int, bool) {
			rn++
			if rn == 2 {
				return v, false
			}
			return swap(v), true
		})
		if (err == nil) != ok {
			return fmt.Sprintf("%s returned error=%v, reference failed=%v", op, err, !ok)
		}
		if err != nil && !errors.Is(err, errFail) {
			return fmt.Sprintf("%s returned a different error: %v", op, err)
		}
		if fmt.Sprint(log) != fmt.Sprint(want) {
			return fmt.Sprintf("%s visited %v, want %v", op, pretty(log), pretty(want))
		}
	}
	return ""
}

func pretty(l [][2]int) string {
	var s []string
	for _, e := range l {
		if e[0] < 0 || e[0] >= 3 {
			s = append(s, fmt.Sprintf("#%d=%d", e[0], e[1]))
			continue
		}
		s = append(s, fmt.Sprintf("%c=%d", 'a'+e[0], e[1]))
	}
	return "[" + strings.Join(s, " ") + "]"
}

func kn(k int) string {
	if k >= 0 && k < len(keyNames) {
		return keyNames[k]
	}
	return fmt.Sprintf("#%d", k)
}

// observe compares every observer with the reference.
func observe(m imap, r *orderedmap.Map) (diff string) {
	defer func() {
		if p := recover(); p != nil {
			diff = fmt.Sprintf("observer panicked: %v", p)
		}
	}()
	want := r.Entries()
	if m.Len() != r.Len() {
		return fmt.Sprintf("Len()=%d, reference has %d live keys %v", m.Len(), r.Len(), pretty(want))
	}
	probe := []int{0, 1, 2}
	for _, e := range want {
		if e[0] > 2 {
			probe = append(probe, e[0])
		}
	}
	for _, k := range probe {
		wv, wok := r.Get(k)
		v, ok := m.Get(k)
		if ok != wok || (ok && v != wv) {
			return fmt.Sprintf("Get(%s)=(%d,%v), want (%d,%v)", kn(k), v, ok, wv, wok)
		}
		if m.Has(k) != wok {
			return fmt.Sprintf("Has(%s)=%v, want %v", kn(k), m.Has(k), wok)
		}
		gv := m.GetValue(k)
		if (wok && gv != wv) || (!wok && gv != 0) {
			return fmt.Sprintf("GetValue(%s)=%d, want %d", kn(k), gv, wv)
		}
	}
	var each [][2]int
	if err := m.Each(func(k, v int) error { each = append(each, [2]int{k, v}); return nil }); err != nil {
		return fmt.Sprintf("Each returned %v", err)
	}
	if fmt.Sprint(each) != fmt.Sprint(want) {
		return fmt.Sprintf("Each iterates %v, insertion order of live keys is %v", pretty(each), pretty(want))
	}
	// Each stops at the first callback error
	if len(want) >= 2 {
		n := 0
		err := m.Each(func(k, v int) error {
			n++
			if n == 2 {
				return errFail
			}
			return nil
		})
		if !errors.Is(err, errFail) || n != 2 {
			return fmt.Sprintf("Each with a failing 2nd callback: err=%v calls=%d", err, n)
		}
	}
	var safe [][2]int
	m.EachSafe(func(k, v int) { safe = append(safe, [2]int{k, v}) })
	if fmt.Sprint(safe) != fmt.Sprint(want) {
		return fmt.Sprintf("EachSafe iterates %v, want %v", pretty(safe), pretty(want))
	}
	preds := []struct {
		name string
		f    func(k, v int) bool
	}{
		{"value==2", func(k, v int) bool { return v == 2 }},
		{"key>=b", func(k, v int) bool { return k >= 1 }},
		{"never", func(k, v int) bool { return false }},
	}
	for _, p := range preds {
		wk, wv, wok := -1, 0, false
		for _, e := range want {
			if p.f(e[0], e[1]) {
				wk, wv, wok = e[0], e[1], true
				break
			}
		}
		k, v, ok := m.Find(p.f)
		if ok != wok || (ok && (k != wk || v != wv)) {
			return fmt.Sprintf("Find(%s)=(%d,%d,%v), want (%d,%d,%v)", p.name, k, v, ok, wk, wv, wok)
		}
	}
	js, err := m.MarshalJSON()
	if err != nil {
		return fmt.Sprintf("MarshalJSON error %v", err)
	}
	if string(js) != m.ExpectedJSON(want) {
		return fmt.Sprintf("MarshalJSON=%s, want %s", js, m.ExpectedJSON(want))
	}
	return ""
}

type caseT struct {
	Map string `json:"map"`
	Ops []Op   `json:"ops"`
}

func opsString(ops []Op) string {
	var s []string
	for _, o := range ops {
		s = append(s, o.String())
	}
	return strings.Join(s, ";")
}

// waitProgress waits for the replay to finish. It gives up only when the replay has made NO progress (no
// further operation started) for blockedAfter: a slow machine is not a blocked call.
func waitProgress[T any](ch chan T, progress *atomic.Int64) (T, bool) {
	last, since := progress.Load(), time.Now()
	tick := time.NewTicker(200 * time.Millisecond)
	defer tick.Stop()
	for {
		select {
		case o := <-ch:
			return o, true
		case <-tick.C:
			if p := progress.Load(); p != last {
				last, since = p, time.Now()
			} else if time.Since(since) > blockedAfter {
				var zero T
				return zero, false
			}
		}
	}
}

// blockedAfter: an operation of a sequential history that has not returned after this long never will (the
// histories take microseconds; the only way to wait is a lock that was not released). Generous on purpose.
const blockedAfter = 30 * time.Second

// runHistory replays a history on a fresh object; returns the first diff. The replay runs in a goroutine of
// its own: a call that blocks forever (a lock leaked by an earlier call) is a violation, not a hang of the check.
func runHistory(f factory, ops []Op) (imap, *orderedmap.Map, string) {
	type out struct {
		m imap
		r *orderedmap.Map
		d string
	}
	ch := make(chan out, 1)
	var progress atomic.Int64
	go func() {
		m, r, d := runHistoryOn(f, ops, &progress)
		ch <- out{m, r, d}
	}()
	if o, ok := waitProgress(ch, &progress); ok {
		return o.m, o.r, o.d
	}
	{
		n := int(progress.Load())
		at := "the observers on the fresh object"
		if n > 0 && n <= len(ops) {
			at = fmt.Sprintf("operation %d (%s) or the observers behind it", n, ops[n-1])
		}
		return f.mk(), orderedmap.New(), fmt.Sprintf("a call never returns: %s blocked for %s (a lock taken by an earlier call was not released)", at, blockedAfter)
	}
}

func runHistoryOn(f factory, ops []Op, progress *atomic.Int64) (imap, *orderedmap.Map, string) {
	m := f.mk()
	r := orderedmap.New()
	if d := observe(m, r); d != "" {
		return m, r, "fresh object: " + d
	}
	for i, op := range ops {
		progress.Store(int64(i + 1))
		if d := apply(m, r, op); d != "" {
			return m, r, d
		}
		if d := observe(m, r); d != "" {
			return m, r, "after " + op.String() + ": " + d
		}
	}
	return m, r, ""
}

func replay(raw stdjson.RawMessage) (bool, string) {
	var cs caseT
	if err := stdjson.Unmarshal(raw, &cs); err != nil {
		return false, err.Error()
	}
	for _, f := range factories() {
		if f.name == cs.Map {
			_, _, d := runHistory(f, cs.Ops)
			return d != "", fmt.Sprintf("%s %s: %s", cs.Map, opsString(cs.Ops), d)
		}
	}
	return false, "unknown map kind " + cs.Map
}

type node struct {
	hist []Op
	key  string
	succ []string
}

func run(c *ev.Ctx) {
	bigMaps(c)
	ops := alphabet()
	c.Bound("keys", 3)
	c.Bound("values", 2)
	c.Bound("operations_in_alphabet", len(ops))
	maxStates := 20000
	if c.Thorough() {
		maxStates = 200000
	}
	for fi, f := range factories() {
		if fi%c.NShards != c.Shard {
			continue
		}
		seen := map[string]*node{}
		m0, _, d0 := runHistory(f, nil)
		if d0 != "" {
			c.Violate(f.name+";", f.name+": "+d0, caseT{f.name, nil})
			continue
		}
		root := &node{key: internalKey(m0)}
		seen[root.key] = root
		queue := []*node{root}
		type mg struct {
			into *node
			hist []Op
		}
		var merges []mg
		maxDepth := 0
		c.Inc("states")
		for len(queue) > 0 {
			if len(seen) > maxStates {
				c.Cap(fmt.Sprintf("more than %d states for %s", maxStates, f.name))
				break
			}
			s := queue[0]
			queue = queue[1:]
			for _, op := range ops {
				h := append(append([]Op{}, s.hist...), op)
				m, _, d := runHistory(f, h)
				c.Inc("transitions")
				c.Inc("traces_validated_against_impl")
				if d != "" {
					s.succ = append(s.succ, "VIOLATION")
					c.Violate(f.name+";"+opsString(h), fmt.Sprintf("%s after %s: %s", f.name, opsString(h), d), caseT{f.name, h})
					if strings.Contains(d, "a call never returns") {
						// every further history would block as well (one minute each): the search of this
						// map type ends here, incomplete
						c.Cap("search of " + f.name + " abandoned after a blocked call")
						queue = nil
						break
					}
					continue
				}
				k := internalKey(m)
				s.succ = append(s.succ, k)
				if old, ok := seen[k]; ok {
					if len(merges) < 3000 {
						merges = append(merges, mg{old, h})
					}
					continue
				}
				n := &node{hist: h, key: k}
				seen[k] = n
				c.Inc("states")
				c.Eval(true)
				if len(h) > maxDepth {
					maxDepth = len(h)
				}
				queue = append(queue, n)
			}
		}
		c.Max("max_depth_"+strings.Fields(f.name)[0], int64(maxDepth))
		c.Add("states_"+f.name, int64(len(seen)))
		// merge validation
		for _, g := range merges {
			if g.into.succ == nil {
				continue
			}
			c.Inc("merges_validated")
			for i, op := range ops {
				h := append(append([]Op{}, g.hist...), op)
				m, _, d := runHistory(f, h)
				k := "VIOLATION"
				if d == "" {
					k = internalKey(m)
				}
				if k != g.into.succ[i] {
					panic(fmt.Sprintf("HARNESS: state key is not a bisimulation for %s: %s and %s share %q but %s leads to %q vs %q", f.name, opsString(g.hist), opsString(g.into.hist), g.into.key, op, k, g.into.succ[i]))
				}
			}
		}
		if len(seen) > 2 {
			for _, n := range seen {
				if len(n.hist) == maxDepth {
					c.Sample(f.name, map[string]any{"history": opsString(n.hist), "state": n.key})
					break
				}
			}
		}
	}
}
