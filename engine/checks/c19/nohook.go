//go:build !verif

package c19

func hookFactories() []factory { return nil }
