package c19

import (
	"fmt"
	"sync/atomic"

	"verif/internal/ev"
)

// bigSizes: map sizes around the capacities a growing slice passes through (Constraints has 26 key values).
var bigSizes = []int{4, 5, 8, 9, 16, 17, 20, 26, 31, 32, 33, 40, 64, 65, 100, 128, 129, 257, 513, 1025}

// bigMaps: the state search covers every history over three keys; what it cannot reach is behaviour that
// depends on the SIZE of a map (growth and shrinking of the order slice, of the data map). Here every real
// map is filled with n keys and emptied again in five deterministic ways - from the front, from the back,
// from the middle, by Filter keeping every 8th / 2nd entry, and with re-insertion between deletions - and after
// EVERY operation all observers are compared with the reference, exactly as in the state search.
func bigMaps(c *ev.Ctx) {
	type plan struct {
		name string
		ops  func(n int) []Op
	}
	fill := func(n int) []Op {
		var ops []Op
		for i := 0; i < n; i++ {
			ops = append(ops, Op{Name: "Set", K: i, V: 1 + i%2})
		}
		return ops
	}
	plans := []plan{
		{"fill, delete from the front", func(n int) []Op {
			ops := fill(n)
			for i := 0; i < n; i++ {
				ops = append(ops, Op{Name: "Delete", K: i})
			}
			return append(ops, Op{Name: "Set", K: 1, V: 2}, Op{Name: "Set", K: 0, V: 1})
		}},
		{"fill, delete from the back", func(n int) []Op {
			ops := fill(n)
			for i := n - 1; i >= 0; i-- {
				ops = append(ops, Op{Name: "Delete", K: i})
			}
			return append(ops, Op{Name: "Set", K: 1, V: 2})
		}},
		{"fill, delete from the middle outwards, re-insert every third", func(n int) []Op {
			ops := fill(n)
			for d := 0; d <= n/2; d++ {
				for _, k := range []int{n/2 - d, n/2 + d} {
					if k >= 0 && k < n {
						ops = append(ops, Op{Name: "Delete", K: k})
						if k%3 == 0 {
							ops = append(ops, Op{Name: "Set", K: k, V: 2})
						}
					}
				}
			}
			return ops
		}},
		{"fill, Filter keeps every 8th, refill, Filter keeps every 2nd, Map, Filter keeps none", func(n int) []Op {
			ops := append(fill(n), Op{Name: "Filter(keep every 8th key)"})
			ops = append(ops, fill(n)...)
			return append(ops, Op{Name: "Filter(keep every 2nd key)"}, Op{Name: "Map(swap)"}, Op{Name: "Filter(drop all)"}, Op{Name: "Set", K: 2, V: 1})
		}},
		{"fill, update all, delete absent keys, delete every other one twice", func(n int) []Op {
			ops := fill(n)
			for i := 0; i < n; i += 3 {
				ops = append(ops, Op{Name: "Update", K: i})
			}
			ops = append(ops, Op{Name: "Delete", K: n}, Op{Name: "Delete", K: n + 1})
			for round := 0; round < 2; round++ {
				for i := round; i < n; i += 2 {
					ops = append(ops, Op{Name: "Delete", K: i}, Op{Name: "Delete", K: i})
				}
			}
			return ops
		}},
	}
	for _, f := range factories() {
		for _, n := range bigSizes {
			if f.name == "Constraints(zero)" && n > 24 {
				continue // 26 constraint types exist; two are kept for the absent-key deletions
			}
			for pi, pl := range plans {
				if !c.MineKey(fmt.Sprint("big;", f.name, ";", n, ";", pi)) {
					continue
				}
				if c.Expired() {
					return
				}
				ops := pl.ops(n)
				// one replay, observers after every operation, in a goroutine of its own (a blocked call
				// is a violation); the step of the first difference comes from the progress counter
				var progress atomic.Int64
				type out struct{ d string }
				ch := make(chan out, 1)
				go func() {
					_, _, d := runHistoryOn(f, ops, &progress)
					ch <- out{d}
				}()
				var d string
				if o, ok := waitProgress(ch, &progress); ok {
					d = o.d
				} else {
					d = fmt.Sprintf("a call never returns: no operation finished for %s (a lock taken by an earlier call was not released)", blockedAfter)
				}
				c.Add("big_map_steps", int64(len(ops)))
				c.Eval(true)
				if d != "" {
					i := int(progress.Load())
					if i < 1 {
						i = 1
					}
					c.Violate(fmt.Sprintf("%s;big;n=%d;%s;step=%d", f.name, n, pl.name, i),
						fmt.Sprintf("%s with %d keys (%s), at operation %d of %d (%s): %s", f.name, n, pl.name, i, len(ops), ops[i-1], d), caseT{f.name, ops[:i]})
				}
			}
		}
	}
	c.Bound("big_map_sizes", fmt.Sprint(bigSizes))
}
