//go:build verif

package c19

import (
	stdjson "encoding/json"
	"strings"

	"github.com/jsightapi/jsight-schema-go-library/notations/jschema/verifhooks"
)

type consMap struct{ m *verifhooks.Constraints }

var consVals = map[int]verifhooks.Constraint{}

func consVal(v int) verifhooks.Constraint {
	if c, ok := consVals[v]; ok {
		return c
	}
	var c verifhooks.Constraint
	if v == 1 {
		c = verifhooks.NewMinLength("1")
	} else if v == 2 {
		c = verifhooks.NewMinLength("2")
	}
	consVals[v] = c
	return c
}
func consID(c verifhooks.Constraint) int {
	if c == nil {
		return 0
	}
	if v, ok := c.(interface{ Value() uint }); ok {
		return int(v.Value())
	}
	return -1
}
func ck(k int) verifhooks.ConstraintType { return verifhooks.ConstraintType(k) }

func (a consMap) Kind() string { return "Constraints" }
func (a consMap) Raw() any     { return a.m }
func (a consMap) Set(k, v int) { a.m.Set(ck(k), consVal(v)) }
func (a consMap) Update(k int, f func(int) int) {
	a.m.Update(ck(k), func(n verifhooks.Constraint) verifhooks.Constraint { return consVal(f(consID(n))) })
}
func (a consMap) Delete(k int) { a.m.Delete(ck(k)) }
func (a consMap) Filter(f func(k, v int) bool) {
	a.m.Filter(func(k verifhooks.ConstraintType, v verifhooks.Constraint) bool { return f(int(k), consID(v)) })
}
func (a consMap) Map(f func(k, v int) (int, error)) error {
	return a.m.Map(func(k verifhooks.ConstraintType, v verifhooks.Constraint) (verifhooks.Constraint, error) {
		nv, err := f(int(k), consID(v))
		return consVal(nv), err
	})
}
func (a consMap) Find(f func(k, v int) bool) (int, int, bool) {
	it, ok := a.m.Find(func(k verifhooks.ConstraintType, v verifhooks.Constraint) bool { return f(int(k), consID(v)) })
	return int(it.Key), consID(it.Value), ok
}
func (a consMap) Each(f func(k, v int) error) error {
	return a.m.Each(func(k verifhooks.ConstraintType, v verifhooks.Constraint) error { return f(int(k), consID(v)) })
}
func (a consMap) EachSafe(f func(k, v int)) {
	a.m.EachSafe(func(k verifhooks.ConstraintType, v verifhooks.Constraint) { f(int(k), consID(v)) })
}
func (a consMap) Get(k int) (int, bool) { v, ok := a.m.Get(ck(k)); return consID(v), ok }
func (a consMap) GetValue(k int) int    { return consID(a.m.GetValue(ck(k))) }
func (a consMap) Has(k int) bool        { return a.m.Has(ck(k)) }
func (a consMap) Len() int              { return a.m.Len() }
func (a consMap) MarshalJSON() ([]byte, error) {
	return a.m.MarshalJSON()
}
func (a consMap) ExpectedJSON(entries [][2]int) string {
	var b strings.Builder
	b.WriteString("{")
	for i, e := range entries {
		if i > 0 {
			b.WriteString(",")
		}
		k, _ := stdjson.Marshal(ck(e[0]))
		v, _ := stdjson.Marshal(consVal(e[1]))
		b.Write(k)
		b.WriteString(":")
		b.Write(v)
	}
	b.WriteString("}")
	return b.String()
}

func hookFactories() []factory {
	return []factory{{"Constraints(zero)", func() imap { return consMap{&verifhooks.Constraints{}} }}}
}
