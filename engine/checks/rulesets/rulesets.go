// Package rulesets: rule sets on scalar examples drawn from each kind's
// applicable rule pool with boundary parameters (the same tables C02 uses; kept
// here as data so that C04 can use them without an import cycle).
package rulesets

import "verif/gen"

type Variant struct {
	Name string
	Vals []gen.Rule
}

func rv(name string, vals ...string) Variant {
	v := Variant{Name: name}
	for _, x := range vals {
		v.Vals = append(v.Vals, gen.R(name, x))
	}
	return v
}

func lits(xs ...string) []gen.RuleItem {
	var out []gen.RuleItem
	for _, x := range xs {
		out = append(out, gen.RuleItem{Lit: x})
	}
	return out
}

var numBounds = []string{"-1", "0", "0.5", "1", "10"}

func NumericPool(float bool) []Variant {
	p := []Variant{
		rv("min", numBounds...),
		rv("max", numBounds...),
		rv("exclusiveMinimum", "true", "false"),
		rv("exclusiveMaximum", "true", "false"),
		rv("nullable", "true", "false"),
		rv("const", "true", "false"),
		{Name: "enum", Vals: []gen.Rule{gen.RL("enum", lits("1", "0.5", `"1"`, "null")...), gen.RL("enum", lits("10", "-1", "true")...)}},
	}
	if float {
		p = append(p, rv("precision", "1", "2"), rv("type", `"float"`, `"decimal"`))
	} else {
		p = append(p, rv("type", `"integer"`, `"float"`))
	}
	return p
}

func StringPool() []Variant {
	return []Variant{
		rv("minLength", "0", "1", "2"),
		rv("maxLength", "0", "1", "2"),
		rv("regex", `"^a"`, `"b$"`, `"a.c"`, `"^[ab]*$"`),
		rv("nullable", "true", "false"),
		rv("const", "true", "false"),
		rv("type", `"string"`, `"email"`, `"uri"`, `"uuid"`, `"date"`, `"datetime"`),
		{Name: "enum", Vals: []gen.Rule{gen.RL("enum", lits(`"a"`, `"ab"`, "1", "null")...), gen.RL("enum", lits(`""`, `"1"`, "true")...)}},
	}
}

var IntExamples = []string{"0", "1", "-1", "2", "10", "11", "-2", "5"}
var FloatExamples = []string{"0.5", "1.5", "-0.5", "0.75", "10.5", "0.25", "-1.5", "0.05", "2.25", "1.0"}
var StrExamples = []string{`""`, `"a"`, `"ab"`, `"abc"`, `"b"`, `"bc"`, `"a@b.cc"`, `"http://a.b/c"`, `"550e8400-e29b-41d4-a716-446655440000"`, `"2024-02-29"`, `"2023-01-31T23:59:59Z"`}

// RuleSets enumerates all rule lists with at most k distinct names.
func RuleSets(pool []Variant, k int, f func([]gen.Rule)) {
	var rec func(start int, cur []gen.Rule)
	rec = func(start int, cur []gen.Rule) {
		f(append([]gen.Rule{}, cur...))
		if len(cur) == k {
			return
		}
		for i := start; i < len(pool); i++ {
			for _, v := range pool[i].Vals {
				rec(i+1, append(cur, v))
			}
		}
	}
	rec(0, nil)
}
