package c09

import (
	"fmt"
	"sort"
	"strings"

	"github.com/jsightapi/jsight-schema-go-library/notations/jschema"

	"verif/gen"
	"verif/internal/ev"
	"verif/internal/lib"
	"verif/ref/typegraph"
)

type usedCase struct {
	Root   string `json:"root"`
	Before string `json:"called_before"`
	AsType bool   `json:"root_used_as_added_type,omitempty"`
}

// usedTypesFamily: UsedUserTypes answers from the schema TEXT. Compilation rewrites the node tree of an
// object that extends types (inherited properties are copied in, the allOf rule is removed), so the answer
// is asked for the first time after each other call - Check, Validate, Example, GetAST, Len - on the object
// itself, and on the object while it serves as an added type of another schema that was used first.
func usedTypesFamily(c *ev.Ctx) {
	ref := func(n string) *gen.Node { return gen.Ref(n) }
	heirs := []*gen.Node{
		gen.Obj(gen.P("o", ref("@own"))).With(gen.R("allOf", `"@base"`)),
		gen.Obj().With(gen.RL("allOf", gen.RuleItem{Lit: `"@base"`}, gen.RuleItem{Lit: `"@b2"`})),
		gen.Obj(gen.P("x", gen.Obj(gen.P("o", ref("@own"))).With(gen.R("allOf", `"@base"`)))),
		gen.Arr(gen.Obj().With(gen.R("allOf", `"@b2"`))),
		gen.Obj(gen.P("o", ref("@own").With(gen.R("optional", "true"))), gen.P("l", gen.Arr(ref("@inh")))).With(gen.R("allOf", `"@base"`)),
		gen.Obj(gen.P("k", gen.Int("1"))).With(gen.R("additionalProperties", `"@own"`), gen.R("allOf", `"@base"`)),
	}
	types := map[string]string{
		"@base": "{\n  \"i\": @inh\n}",
		"@b2":   "{\n  \"j\": @own,\n  \"jj\": @deep\n}",
		"@own":  "1",
		"@inh":  "\"s\"",
		"@deep": "{\n  \"d\": 1\n}",
	}
	names := []string{"@base", "@b2", "@own", "@inh", "@deep"}
	befores := []string{"", "Check", "Validate", "Example", "GetAST", "Len"}
	call := func(s *jschema.Schema, what string) {
		_ = lib.Guard(func() error {
			switch what {
			case "Check":
				return s.Check()
			case "Validate":
				return s.Validate(lib.NewDoc(0, "d", "{}"))
			case "Example":
				_, err := s.Example()
				return err
			case "GetAST":
				_, err := s.GetAST()
				return err
			case "Len":
				_, err := s.Len()
				return err
			}
			return nil
		})
	}
	for hi, h := range heirs {
		text := gen.Render(h, gen.Canonical).Text
		want := append([]string{}, typegraph.Referenced(h)...)
		sort.Strings(want)
		for _, before := range befores {
			for _, asType := range []bool{false, true} {
				if !c.MineKey(fmt.Sprint("used;", hi, before, asType)) {
					continue
				}
				obj := jschema.New("heir", text)
				user := obj
				if asType {
					user = jschema.New("root", "{\n  \"h\": @heir\n}")
					_ = user.AddType("@heir", obj)
				}
				for _, n := range names {
					_ = user.AddType(n, jschema.New(n, types[n]))
					if asType {
						_ = obj.AddType(n, jschema.New(n, types[n]))
					}
				}
				call(user, before)
				var used []string
				res := lib.Guard(func() error {
					u, err := obj.UsedUserTypes()
					used = append([]string{}, u...)
					return err
				})
				c.Eval(true)
				c.Inc("used_types_cases")
				sort.Strings(used)
				if !res.OK || strings.Join(used, ",") != strings.Join(want, ",") {
					who := "the schema"
					if asType {
						who = "the schema that holds it as an added type"
					}
					c.Violate(fmt.Sprintf("used-types-after;%d;%s;%v", hi, before, asType),
						fmt.Sprintf("schema %q: UsedUserTypes() = %v (%s) when first asked after %s() on %s; its text references %v", text, used, res, before, who, want),
						usedCase{text, before, asType})
				}
			}
		}
	}
}
