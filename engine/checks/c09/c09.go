// Package c09: user-type references are resolved completely and recursion is
// decided correctly.
package c09

import (
	stdjson "encoding/json"
	"fmt"
	"sort"
	"strings"
	"time"

	"verif/checks/sc"
	"verif/gen"
	"verif/internal/ev"
	"verif/internal/lib"
	"verif/ref/refv"
	"verif/ref/typegraph"
)

func init() {
	ev.Register(&ev.Check{
		ID:               "C09",
		Level:            "exploration",
		Rule:             "ALL type graphs over a root (5 root forms) and 2 user types with the full body alphabet (scalar, alias, or-shortcut, array, allOf parent at the type's root / on an array element / on a property value, additionalProperties type, key shortcut, objects with 1-2 slots each one of {scalar, required ref, optional ref, array item, or-shortcut, nested object}) and over 3 (thorough: 3 with two-slot objects / 4 with one-slot) user types with the one-slot alphabet, x EVERY subset of types left un-added; plus structured families up to 6 types (rings, chains into rings, diamonds, rings with one optional/array/or-terminating edge at each position). Oracles: typegraph reference (missing-name set, referenced-name set, least-fixpoint inhabitation), termination of Check/Validate/Example on every accepted graph (worker death or 40 s without progress = violation). Non-trivial = distinct graph with >= 1 reference edge.",
		Run:              run,
		Replay:           replay,
		QuickBudget:      200 * time.Second,
		ThoroughBudget:   14 * time.Minute,
		CrashIsViolation: true,
		Assumptions: []string{
			"graphs whose uninhabited types are not required by the root position are not asserted for (c)",
			"which missing name is reported when several are missing is not asserted; graphs that fail Check for a non-recursion, non-missing reason (e.g. allOf parent that is not an object) are skipped",
		},
	})
}

type caseT struct {
	Root    *gen.Node   `json:"root"`
	Names   []string    `json:"names"`
	Bodies  []*gen.Node `json:"bodies"`
	Missing int         `json:"missing_mask"`
	Mesh    bool        `json:"mesh,omitempty"`
}

func (cs caseT) graph() *typegraph.Graph {
	g := &typegraph.Graph{Root: cs.Root, Types: map[string]*gen.Node{}}
	for i, n := range cs.Names {
		if cs.Missing&(1<<uint(i)) != 0 {
			g.Types[n] = nil
		} else {
			g.Types[n] = cs.Bodies[i]
		}
	}
	return g
}

func (cs caseT) scCase() sc.Case {
	c := sc.Case{Root: cs.Root, Mesh: cs.Mesh}
	for i, n := range cs.Names {
		if cs.Missing&(1<<uint(i)) == 0 {
			c.Types = append(c.Types, sc.TypeDecl{Name: n, Body: cs.Bodies[i]})
		}
	}
	return c
}

var recursionCodes = map[int]bool{104: true, 703: true, 1303: true}

// eval returns (direction, description).
func eval(cs caseT, trace func(string)) (string, string) {
	g := cs.graph()
	c := cs.scCase()
	desc := c.Describe()
	if trace != nil {
		trace(desc)
	}
	s, b := lib.Build(c.Spec())
	if !b.OK {
		return "", ""
	}
	// (b) used types
	used, err := s.UsedUserTypes()
	if err == nil {
		want := typegraph.Referenced(cs.Root)
		a, w := append([]string{}, used...), append([]string{}, want...)
		sort.Strings(a)
		sort.Strings(w)
		if strings.Join(a, ",") != strings.Join(w, ",") {
			return "used-types", fmt.Sprintf("%s: UsedUserTypes() = %v, the schema text references %v", desc, used, want)
		}
	}
	// ... and also when it is asked for the first time AFTER the schema was checked (compilation rewrites
	// the node tree: inherited properties are copied in, allOf rules removed)
	if err == nil {
		if s2, b2 := lib.Build(c.Spec()); b2.OK {
			_ = lib.Guard(s2.Check)
			if used2, err2 := s2.UsedUserTypes(); err2 == nil {
				a, w := append([]string{}, used2...), append([]string{}, used...)
				sort.Strings(a)
				sort.Strings(w)
				if strings.Join(a, ",") != strings.Join(w, ",") {
					return "used-types-after-check", fmt.Sprintf("%s: UsedUserTypes() = %v when first asked after Check, %v on a fresh schema", desc, used2, used)
				}
			}
		}
	}
	chk := lib.Guard(s.Check)
	if chk.Panic != "" {
		return "panic", fmt.Sprintf("%s: Check panics: %s", desc, chk.Panic)
	}
	// (a) missing
	miss := g.ReachableMissing()
	if len(miss) > 0 {
		if chk.OK {
			return "missing-accepted", fmt.Sprintf("%s: types %v are referenced but not added, yet Check succeeds", desc, miss)
		}
		if chk.Code != 1302 {
			return "", "" // the graph has another problem that is reported first: not asserted
		}
		named := false
		for n, body := range g.Types {
			if body == nil && strings.Contains(chk.Msg, n) {
				named = true
			}
		}
		for _, m := range miss {
			named = named || strings.Contains(chk.Msg, m)
		}
		if !named {
			return "missing-not-named", fmt.Sprintf("%s: Check fails with %s but does not name one of the missing types %v", desc, chk, miss)
		}
		return "", ""
	}
	if g.AnyMissing() {
		return "", ""
	}
	if chk.Code == 1302 {
		return "false-missing", fmt.Sprintf("%s: every referenced type is added, yet Check reports %s", desc, chk)
	}
	// an allOf parent that is not an object makes the graph invalid for a reason
	// of its own; which of the two problems Check names first is not asserted
	if allOfNonObject(g) {
		return "", ""
	}
	// (c) recursion
	g.NullableTerminates = true
	rootInh := g.RootInhabited() // lenient: "must reject" only if even null does not help
	g.NullableTerminates = false
	allInh := g.AllInhabited() // strict: "must not report recursion" only without relying on nullable
	g.NullableTerminates = true
	if !rootInh && chk.OK {
		return "recursion-accepted", fmt.Sprintf("%s: a chain of required references returns to a type being expanded (no finite document exists), yet Check succeeds", desc)
	}
	if allInh && !chk.OK && recursionCodes[chk.Code] {
		return "recursion-false-alarm", fmt.Sprintf("%s: every cycle passes through an optional property, an array or a terminating or-alternative, yet Check rejects: %s", desc, chk)
	}
	if !chk.OK {
		return "", ""
	}
	// (d) termination on accepted graphs (a non-terminating call kills the worker)
	if rootInh {
		if w := g.Witness(cs.Root); w != nil {
			v := lib.Validate(s, w.Compact())
			if v.Panic != "" {
				return "panic", fmt.Sprintf("%s: Validate(%s) panics: %s", desc, w.Compact(), v.Panic)
			}
			if !v.OK && allInh && refv.Accepts(c.Env(), cs.Root, w) == refv.Accept {
				return "witness-rejected", fmt.Sprintf("%s: the smallest inhabitant %s is rejected: %s", desc, w.Compact(), v)
			}
		}
	}
	for _, d := range []string{"null", "{}", `{"p":{"p":{"p":1}}}`, "[[[]]]"} {
		if v := lib.Validate(s, d); v.Panic != "" {
			return "panic", fmt.Sprintf("%s: Validate(%s) panics: %s", desc, d, v.Panic)
		}
	}
	exRes := lib.Guard(func() error { _, err := s.Example(); return err })
	if exRes.Panic != "" {
		return "panic", fmt.Sprintf("%s: Example() panics: %s", desc, exRes.Panic)
	}
	return "", ""
}

// allOfNonObject: some allOf rule names a type that is not (an alias of) an object.
func allOfNonObject(g *typegraph.Graph) bool {
	isObj := func(name string) bool {
		for i := 0; i < 8; i++ {
			b, ok := g.Types[name]
			if !ok || b == nil {
				return true // missing types are handled elsewhere
			}
			if b.Kind == gen.KObj {
				return true
			}
			if b.Kind == gen.KRef && !strings.Contains(b.Lit, "|") {
				name = strings.TrimSpace(b.Lit)
				continue
			}
			return false
		}
		return false
	}
	bad := false
	visit := func(n *gen.Node) {
		if n == nil {
			return
		}
		n.Walk(func(x *gen.Node) {
			a := x.Rule("allOf")
			if a == nil {
				return
			}
			if a.List {
				for _, it := range a.Items {
					bad = bad || !isObj(gen.StrValue(it.Lit))
				}
			} else {
				bad = bad || !isObj(gen.StrValue(a.Val))
			}
		})
	}
	visit(g.Root)
	for _, b := range g.Types {
		visit(b)
	}
	return bad
}

const strType = "@S"

func strBody() *gen.Node { return gen.Str(`"k"`).With(gen.R("minLength", "1")) }

func slots(names []string, rich bool) []*gen.Node {
	out := []*gen.Node{gen.Int("1")}
	for _, x := range names {
		out = append(out, gen.Ref(x))
		out = append(out, gen.Ref(x).With(gen.R("optional", "true")))
		out = append(out, gen.Arr(gen.Ref(x)))
		out = append(out, gen.Arr(gen.Int("1"), gen.Ref(x)), gen.Arr(gen.Ref(x), gen.Int("1")))
		if rich {
			out = append(out, gen.Obj(gen.P("q", gen.Ref(x))))
			out = append(out, gen.Ref(x).With(gen.R("nullable", "true")))
		}
	}
	for i, x := range names {
		for _, y := range names[i+1:] {
			out = append(out, gen.Ref(x, y))
		}
	}
	return out
}

func bodies(names []string, twoSlots, rich bool) []*gen.Node {
	out := []*gen.Node{gen.Int("1")}
	for _, x := range names {
		// a SECOND key shortcut (behind one that names the string type) whose key type is x
		out = append(out, gen.Obj(gen.PS(strType, gen.Int("1")), gen.PS(x, gen.Int("2"))))
		// allOf below the type's root: on an array element and on a property value
		out = append(out, gen.Arr(gen.Obj().With(gen.R("allOf", `"`+x+`"`))),
			gen.Obj(gen.P("p", gen.Obj().With(gen.R("allOf", `"`+x+`"`)))))
		out = append(out, gen.Ref(x), gen.Arr(gen.Ref(x)),
			gen.Obj().With(gen.R("allOf", `"`+x+`"`)),
			gen.Obj().With(gen.R("additionalProperties", `"`+x+`"`)),
			gen.Obj(gen.PS(strType, gen.Ref(x))))
	}
	for i, x := range names {
		for _, y := range names[i+1:] {
			out = append(out, gen.Ref(x, y))
		}
	}
	sl := slots(names, rich)
	for _, a := range sl {
		out = append(out, gen.Obj(gen.P("p", a.Clone())))
	}
	if twoSlots {
		for _, a := range sl {
			for _, b := range sl {
				out = append(out, gen.Obj(gen.P("p", a.Clone()), gen.P("q", b.Clone())))
			}
		}
	}
	return out
}

func roots(names []string) []*gen.Node {
	out := []*gen.Node{gen.Ref(names[0]), gen.Obj(gen.P("r", gen.Ref(names[0]))), gen.Arr(gen.Ref(names[0])),
		gen.Obj(gen.P("r", gen.Ref(names[0]).With(gen.R("optional", "true"))))}
	if len(names) > 1 {
		out = append(out, gen.Ref(names[0], names[1]),
			gen.Obj(gen.P("x", gen.Ref(names[0])), gen.P("y", gen.Ref(names[1]))),
			gen.Obj(gen.P("y", gen.Ref(names[1])), gen.P("x", gen.Ref(names[0]))))
	}
	return out
}

// directSelfLoop: the root position is uninhabited already when only
// self-references of the types are taken into account (every reference to
// another type is assumed satisfiable). This is exactly the recursion the
// library's checker is built to see (root -> T -> T).
func directSelfLoop(cs caseT) bool {
	g := cs.graph()
	g.NullableTerminates = true
	inh := map[string]bool{}
	for n, b := range g.Types {
		if b == nil {
			continue
		}
		others := map[string]bool{}
		for m := range g.Types {
			others[m] = m != n
		}
		inh[n] = g.NodeInhabited(b, others)
	}
	return !g.NodeInhabited(cs.Root, inh)
}

var reductions int

func report(c *ev.Ctx, cs caseT, dir string) {
	if dir == "recursion-accepted" && !directSelfLoop(cs) && !cs.Mesh {
		// Known class (see known_findings.json): required recursion that is not a
		// direct self-reference of a type named by the root. One key for the class.
		_, desc := eval(cs, nil)
		c.Inc("recursion_accepted_beyond_one_hop")
		c.Violate("recursion-accepted;not-a-direct-self-reference", desc, cs)
		return
	}
	// Under a defect that makes most cases fail, reducing every one of them
	// (hundreds of library runs each) would take the whole budget: after the
	// first 24 reductions of this worker the case is reported as enumerated.
	// (The recorded class above never comes here, so no recorded key depends
	// on a reduction having run.)
	reductions++
	if reductions > 24 {
		red := canonical(cs)
		_, desc := eval(red, nil)
		c.Inc("reported_unreduced")
		c.Violate(dir+";"+red.scCase().Describe()+fmt.Sprintf(";missing=%d", red.Missing), desc, red)
		return
	}
	red := ev.Reduce(cs, func(x caseT) []caseT {
		var out []caseT
		// replace a body by a scalar, or simplify it
		for i := range x.Bodies {
			if x.Bodies[i].Kind != gen.KInt || len(x.Bodies[i].Rules) > 0 {
				y := x
				y.Bodies = append([]*gen.Node{}, x.Bodies...)
				y.Bodies[i] = gen.Int("1")
				out = append(out, y)
			}
		}
		if x.Missing != 0 {
			for i := range x.Names {
				if x.Missing&(1<<uint(i)) != 0 {
					y := x
					y.Missing &^= 1 << uint(i)
					out = append(out, y)
				}
			}
		}
		for i, b := range x.Bodies {
			for _, s := range sc.Cands(sc.Case{Root: b}) {
				y := x
				y.Bodies = append([]*gen.Node{}, x.Bodies...)
				y.Bodies[i] = s.Root
				out = append(out, y)
			}
		}
		for _, s := range sc.Cands(sc.Case{Root: x.Root}) {
			y := x
			y.Root = s.Root
			out = append(out, y)
		}
		// root := @Ti
		for _, n := range x.Names {
			if !(x.Root.Kind == gen.KRef && x.Root.Lit == n && len(x.Root.Rules) == 0) {
				y := x
				y.Root = gen.Ref(n)
				out = append(out, y)
			}
		}
		// drop an unreferenced type
		for i := range x.Names {
			if !referenced(x, x.Names[i]) {
				y := x
				y.Names = append(append([]string{}, x.Names[:i]...), x.Names[i+1:]...)
				y.Bodies = append(append([]*gen.Node{}, x.Bodies[:i]...), x.Bodies[i+1:]...)
				y.Missing = dropBit(x.Missing, i)
				out = append(out, y)
			}
		}
		// redirect every reference to A towards B
		for i, b := range x.Bodies {
			for _, a := range x.Names {
				for _, to := range x.Names {
					if a == to {
						continue
					}
					nb, changed := redirect(b, a, to)
					if changed {
						y := x
						y.Bodies = append([]*gen.Node{}, x.Bodies...)
						y.Bodies[i] = nb
						out = append(out, y)
					}
				}
			}
		}
		return out
	}, func(x caseT) bool {
		if dir == "crash" {
			return false
		}
		d, _ := eval(x, nil)
		return d == dir
	})
	red = canonical(red)
	_, desc := eval(red, nil)
	c.Violate(dir+";"+red.scCase().Describe()+fmt.Sprintf(";missing=%d", red.Missing), desc, red)
}

func dropBit(mask, i int) int {
	low := mask & ((1 << uint(i)) - 1)
	high := mask >> uint(i+1)
	return low | high<<uint(i)
}

func referenced(x caseT, name string) bool {
	for _, r := range typegraph.Referenced(x.Root) {
		if r == name {
			return true
		}
	}
	for i, b := range x.Bodies {
		if x.Missing&(1<<uint(i)) != 0 {
			continue
		}
		for _, r := range typegraph.Referenced(b) {
			if r == name {
				return true
			}
		}
	}
	return false
}

func renameIn(s, from, to string) string {
	// names are @ + [a-z0-9]; replace whole-name occurrences
	var b strings.Builder
	for i := 0; i < len(s); {
		if strings.HasPrefix(s[i:], from) {
			j := i + len(from)
			if j == len(s) || !(s[j] >= 'a' && s[j] <= 'z' || s[j] >= '0' && s[j] <= '9' || s[j] == '_') {
				b.WriteString(to)
				i = j
				continue
			}
		}
		b.WriteByte(s[i])
		i++
	}
	return b.String()
}

// redirect replaces references to name `from` by `to` everywhere in the node.
func redirect(n *gen.Node, from, to string) (*gen.Node, bool) {
	c := n.Clone()
	changed := false
	c.Walk(func(x *gen.Node) {
		if x.Kind == gen.KRef {
			if nl := renameIn(x.Lit, from, to); nl != x.Lit {
				x.Lit = nl
				changed = true
			}
		}
		for i := range x.Rules {
			if nv := renameIn(x.Rules[i].Val, from, to); nv != x.Rules[i].Val {
				x.Rules[i].Val = nv
				changed = true
			}
			for j := range x.Rules[i].Items {
				if nv := renameIn(x.Rules[i].Items[j].Lit, from, to); nv != x.Rules[i].Items[j].Lit {
					x.Rules[i].Items[j].Lit = nv
					changed = true
				}
			}
		}
		for i := range x.Props {
			if x.Props[i].Shortcut {
				if nk := renameIn(x.Props[i].Key, from, to); nk != x.Props[i].Key {
					x.Props[i].Key = nk
					changed = true
				}
			}
		}
	})
	return c, changed
}

// canonical renames the types in order of first reference from the root.
func canonical(x caseT) caseT {
	order := []string{}
	seen := map[string]bool{}
	idx := map[string]int{}
	for i, n := range x.Names {
		idx[n] = i
	}
	var visit func(n *gen.Node)
	visit = func(n *gen.Node) {
		for _, r := range typegraph.Referenced(n) {
			if seen[r] {
				continue
			}
			seen[r] = true
			order = append(order, r)
			if i, ok := idx[r]; ok && x.Missing&(1<<uint(i)) == 0 {
				visit(x.Bodies[i])
			}
		}
	}
	visit(x.Root)
	for _, n := range x.Names {
		if !seen[n] {
			order = append(order, n)
		}
	}
	// two-phase rename to avoid collisions
	tmp := func(i int) string { return fmt.Sprintf("@zz%d", i) }
	fin := func(i int) string { return fmt.Sprintf("@n%d", i) }
	y := caseT{Root: x.Root, Missing: 0, Mesh: x.Mesh}
	bodies := map[string]*gen.Node{}
	miss := map[string]bool{}
	for i, n := range x.Names {
		bodies[n] = x.Bodies[i]
		miss[n] = x.Missing&(1<<uint(i)) != 0
	}
	ren := func(n *gen.Node) *gen.Node {
		c := n
		for i, o := range order {
			c, _ = redirect(c, o, tmp(i))
		}
		for i := range order {
			c, _ = redirect(c, tmp(i), fin(i))
		}
		return c
	}
	y.Root = ren(x.Root)
	for i, o := range order {
		if _, ok := bodies[o]; !ok {
			continue
		}
		y.Names = append(y.Names, fin(i))
		y.Bodies = append(y.Bodies, ren(bodies[o]))
		if miss[o] {
			y.Missing |= 1 << uint(len(y.Names)-1)
		}
	}
	return y
}

func run(c *ev.Ctx) {
	usedTypesFamily(c)
	trace := func(s string) { c.Trace(func() string { return s }) }
	evalOne := func(cs caseT) {
		if !c.Mine() {
			return
		}
		dir, _ := eval(cs, trace)
		c.Eval(len(typegraph.Referenced(cs.Root)) > 0)
		if len(cs.Names) >= 3 {
			c.Sample(fmt.Sprintf("graph-%d-types-missing-%d", len(cs.Names)-1, cs.Missing), cs.scCase().Describe())
		}
		if dir != "" {
			report(c, cs, dir)
		}
		if cs.Missing == 0 && len(cs.Names) <= 5 {
			// the same graph with every type also added to every type schema
			m := cs
			m.Mesh = true
			dir, _ := eval(m, trace)
			c.Eval(true)
			c.Inc("mesh_graphs")
			if dir != "" {
				report(c, m, dir)
			}
		}
	}
	// exhaustive small graphs
	type cfg struct {
		n        int
		twoSlots bool
		rich     bool
		tiny     bool
		allMasks bool
		nroots   int
	}
	cfgs := []cfg{{1, true, true, false, true, 7}, {2, true, false, false, true, 7}, {3, false, false, false, false, 7}}
	if c.Thorough() {
		cfgs = []cfg{{1, true, true, false, true, 7}, {2, true, true, false, true, 7}, {3, false, true, false, true, 7}, {4, false, false, true, false, 7}}
	}
	for _, cf := range cfgs {
		names := []string{"@t0", "@t1", "@t2", "@t3"}[:cf.n]
		bs := bodies(names, cf.twoSlots, cf.rich)
		if cf.tiny {
			bs = []*gen.Node{gen.Int("1")}
			for _, x := range names {
				bs = append(bs, gen.Ref(x), gen.Obj(gen.P("p", gen.Ref(x))), gen.Obj(gen.P("p", gen.Ref(x).With(gen.R("optional", "true")))))
			}
		}
		c.Bound(fmt.Sprintf("bodies_per_type_n%d", cf.n), len(bs))
		idx := make([]int, cf.n)
		var rec func(i int)
		rec = func(i int) {
			if c.Expired() {
				return
			}
			if i == cf.n {
				rs := roots(names)
				if len(rs) > cf.nroots {
					rs = rs[:cf.nroots]
				}
				for _, root := range rs {
					maxMask := 1 << uint(cf.n)
					for mask := 0; mask < maxMask; mask++ {
						if !cf.allMasks && mask&(mask-1) != 0 {
							continue // at most one missing type
						}
						cs := caseT{Root: root, Names: append(append([]string{}, names...), strType), Missing: mask}
						for _, j := range idx {
							cs.Bodies = append(cs.Bodies, bs[j])
						}
						cs.Bodies = append(cs.Bodies, strBody())
						evalOne(cs)
						c.Inc("graphs")
					}
				}
				return
			}
			for j := range bs {
				idx[i] = j
				rec(i + 1)
			}
		}
		rec(0)
	}
	families(c, evalOne)
}

// families: rings, chains into rings, diamonds up to 6 types with one
// distinguished edge at each position.
func families(c *ev.Ctx, evalOne func(caseT)) {
	edge := func(kind int, to string) *gen.Node {
		switch kind {
		case 0:
			return gen.Obj(gen.P("p", gen.Ref(to)))
		case 1:
			return gen.Obj(gen.P("p", gen.Ref(to).With(gen.R("optional", "true"))))
		case 2:
			return gen.Obj(gen.P("p", gen.Arr(gen.Ref(to))))
		case 3:
			return gen.Obj(gen.P("p", gen.Ref(to, "@leaf")))
		case 4:
			return gen.Ref(to)
		case 5:
			return gen.Obj().With(gen.R("allOf", `"`+to+`"`))
		case 6:
			return gen.Obj(gen.P("p", gen.Ref(to).With(gen.R("nullable", "true"))))
		}
		return gen.Int("1")
	}
	for n := 2; n <= 6; n++ {
		names := make([]string, n)
		for i := range names {
			names[i] = fmt.Sprintf("@r%d", i)
		}
		for special := -1; special < n; special++ {
			for kind := 1; kind <= 6; kind++ {
				if special < 0 && kind > 1 {
					break
				}
				for base := 0; base <= 4; base += 4 {
					// ring: r0 -> r1 -> ... -> r0, all edges "base" (required property / alias) except one
					var bs []*gen.Node
					for i := 0; i < n; i++ {
						k := base
						if i == special {
							k = kind
						}
						bs = append(bs, edge(k, names[(i+1)%n]))
					}
					ns := append(append([]string{}, names...), "@leaf")
					bs = append(bs, gen.Int("1"))
					evalOne(caseT{Root: gen.Ref(names[0]), Names: ns, Bodies: bs})
					// chain into the ring
					ns2 := append(append([]string{}, ns...), "@c0", "@c1")
					bs2 := append(append([]*gen.Node{}, bs...), edge(0, "@c1"), edge(0, names[n/2]))
					evalOne(caseT{Root: gen.Obj(gen.P("x", gen.Ref("@c0"))), Names: ns2, Bodies: bs2})
					if c != nil {
						c.Inc("family_graphs")
					}
				}
			}
		}
		// diamonds (no recursion): r0 -> r1..r(n-2) -> r(n-1)
		if n >= 3 {
			for _, viaOr := range []bool{false, true} {
				var bs []*gen.Node
				var ps []gen.Prop
				for i := 1; i < n-1; i++ {
					ps = append(ps, gen.P(fmt.Sprintf("k%d", i), gen.Ref(names[i])))
				}
				if viaOr {
					var alts []string
					for i := 1; i < n; i++ {
						alts = append(alts, names[i])
					}
					bs = append(bs, gen.Ref(alts...))
				} else {
					bs = append(bs, gen.Obj(ps...))
				}
				for i := 1; i < n-1; i++ {
					bs = append(bs, edge(0, names[n-1]))
				}
				bs = append(bs, gen.Int("1"))
				evalOne(caseT{Root: gen.Ref(names[0]), Names: names, Bodies: bs})
				// typed-value diamond: or-list naming a type and a type that aliases it
				evalOne(caseT{Root: gen.Int("1").With(gen.RL("or", gen.RuleItem{Lit: `"` + names[1] + `"`}, gen.RuleItem{Lit: `"` + names[n-1] + `"`})),
					Names: names, Bodies: append(append([]*gen.Node{gen.Int("1")}, repeatAlias(names[n-1], n-2)...), gen.Int("1"))})
				if c != nil {
					c.Inc("family_graphs")
				}
			}
		}
	}
}

func repeatAlias(to string, k int) []*gen.Node {
	var out []*gen.Node
	for i := 0; i < k; i++ {
		out = append(out, gen.Int("1").With(gen.R("type", `"`+to+`"`)))
	}
	return out
}

func replay(raw stdjson.RawMessage) (bool, string) {
	var cs caseT
	if err := stdjson.Unmarshal(raw, &cs); err != nil {
		return false, err.Error()
	}
	if cs.Root == nil {
		var cr struct {
			Crash string `json:"crash_case"`
		}
		stdjson.Unmarshal(raw, &cr)
		return true, "process-fatal failure on: " + cr.Crash + " (re-run the check to reproduce; a replay would kill this process)"
	}
	d, desc := eval(cs, nil)
	return d != "", desc
}

// ForEachSchema enumerates type graphs (nothing missing) whose types are all
// inhabited: n=1 rich, n=2 two-slot alphabets, plus the ring families with an
// optional / array / terminating edge.
func ForEachSchema(f func(sc.Case)) { forEachSchema(false, f) }

// ForEachSchemaDeep additionally gives the two-type graphs two-property
// object bodies (every pair of slots), so that a type can recurse both
// directly and through the other type.
func ForEachSchemaDeep(f func(sc.Case)) { forEachSchema(true, f) }

func forEachSchema(deep bool, f func(sc.Case)) {
	emit := func(cs caseT) {
		if cs.Missing != 0 {
			return
		}
		g := cs.graph()
		g.NullableTerminates = true
		if !g.AllInhabited() || !g.RootInhabited() {
			return
		}
		f(cs.scCase())
	}
	for _, n := range []int{1, 2} {
		names := []string{"@t0", "@t1"}[:n]
		bs := bodies(names, n == 1 || deep, n == 1)
		idx := make([]int, n)
		var rec func(i int)
		rec = func(i int) {
			if i == n {
				for _, root := range roots(names) {
					cs := caseT{Root: root, Names: append(append([]string{}, names...), strType)}
					for _, j := range idx {
						cs.Bodies = append(cs.Bodies, bs[j])
					}
					cs.Bodies = append(cs.Bodies, strBody())
					emit(cs)
				}
				return
			}
			for j := range bs {
				idx[i] = j
				rec(i + 1)
			}
		}
		rec(0)
	}
	families(nil, emit)
}
