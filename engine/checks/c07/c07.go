// Package c07: every API call returns a structured error instead of panicking.
package c07

import (
	stdjson "encoding/json"
	"errors"
	"fmt"
	"io"
	"os"
	"path/filepath"
	"sort"
	"strings"
	"time"

	jlib "github.com/jsightapi/jsight-schema-go-library"
	"github.com/jsightapi/jsight-schema-go-library/formats/json"
	"github.com/jsightapi/jsight-schema-go-library/notations/jschema"
	"github.com/jsightapi/jsight-schema-go-library/notations/regex"
	"github.com/jsightapi/jsight-schema-go-library/rules/enum"

	"verif/internal/ev"
)

func init() {
	ev.Register(&ev.Check{
		ID:               "C07",
		Level:            "exploration",
		Rule:             "roles {schema, user type (8 usages: alias, property, item, key shortcut, allOf parent at the root and deep inside a long root text, type rule, or rule), enum rule, regex type, document (2 modes, 4 schemas)} x every public method on fresh objects and in sequence on one object, over inputs: (i) ALL strings <= 4 (thorough 5) over a 26-symbol schema alphabet; (ii) every truncation and every single-byte deletion / insertion / substitution by 12 (thorough 26) symbols at every offset of the corpus (all testdata schema/type/enum/json files <= 400 (thorough 4096) bytes + generator outputs); (v) grammar-directed product: 7 examples x 21 rule names x 46 hostile rule values x 6 annotation positions (+ 7 second rules in both orders), 140 type bodies over self/other/missing references, enum and regex bodies x 18 comment/literal tails, runs of 1..12 malformed UTF-8 units inside strings in every role; (iii) numerals with huge exponents in isolated, memory-capped processes; (iv) EVERY errors.Format / ErrorCode construction site found by go/parser in the current tree and EVERY row of the template table, executed. Oracle: no panic, no process death, termination, every error exposes ErrCode()+Message() (directly or via errors.As), Position() < max(1,len(source it names)), Error()/Line()/SourceSubString() do not panic. Non-trivial = distinct (role, input).",
		Run:              run,
		Replay:           replay,
		QuickBudget:      300 * time.Second,
		ThoroughBudget:   14 * time.Minute,
		CrashIsViolation: true,
		Finish:           finish,
		Assumptions: []string{
			"API misuse that is not input-driven (AddRule after load, foreign Document implementations) is not asserted",
			"a validation error without a position (ErrEmptyJson) is a library error; positions are checked where exposed",
		},
	})
}

type libErr interface {
	ErrCode() int
	Message() string
}
type positioner interface{ Position() uint }
type filenamer interface{ Filename() string }

// problem describes why a returned error (or a panic) violates the property.
type problem struct {
	class string
	desc  string
}

// sources maps file names to contents for the position check.
type sources map[string]string

func checkErr(err error, src sources, main string) *problem {
	if err == nil || err == io.EOF {
		return nil
	}
	var le libErr
	if !errors.As(err, &le) {
		return &problem{"non-library-error:" + fmt.Sprintf("%T", err), fmt.Sprintf("returns %T (%q) which does not expose an error code and message", err, firstLine(safeError(err)))}
	}
	var p positioner
	if errors.As(err, &p) {
		content := src[main]
		var fn filenamer
		if errors.As(err, &fn) {
			if c, ok := src[fn.Filename()]; ok {
				content = c
			}
		}
		limit := len(content)
		if limit < 1 {
			limit = 1
		}
		if int(p.Position()) >= limit {
			return &problem{"position-out-of-range", fmt.Sprintf("error %d %q reports position %d outside its %d-byte source", le.ErrCode(), le.Message(), p.Position(), len(content))}
		}
	}
	if msg := renderPanics(err); msg != "" {
		return &problem{"error-text-panics", "rendering the returned error panics: " + msg}
	}
	return nil
}

func safeError(err error) (s string) {
	defer func() {
		if r := recover(); r != nil {
			s = fmt.Sprintf("<Error() panicked: %v>", r)
		}
	}()
	return err.Error()
}

func renderPanics(err error) (msg string) {
	defer func() {
		if r := recover(); r != nil {
			msg = fmt.Sprint(r)
		}
	}()
	_ = err.Error()
	type liner interface {
		Line() uint
		SourceSubString() string
	}
	var l liner
	if errors.As(err, &l) {
		_ = l.Line()
		_ = l.SourceSubString()
	}
	return ""
}

func firstLine(s string) string {
	if i := strings.IndexByte(s, '\n'); i >= 0 {
		return s[:i]
	}
	return s
}

// call runs f, converting panics and bad errors into a problem.
func call(f func() error, src sources, main string) (p *problem) {
	defer func() {
		if r := recover(); r != nil {
			p = &problem{"panic", fmt.Sprintf("panics: %v", r)}
		}
	}()
	return checkErr(f(), src, main)
}

type finding struct {
	method string
	p      *problem
}

const (
	typeText = `"k" // {minLength: 1}`
)

var fixedDocs = []string{`{"a":1}`, `[1,"s"]`, `1`}

// methods of each role: name -> call on a fresh object built from text.
type methodT struct {
	name   string
	f      func() error
	schema string // content of the file "schema" for this method ("" = src["schema"])
}

func roleMethods(role, text string) (src sources, main string, ms []methodT) {
	curSchema := ""
	add := func(name string, f func() error) {
		ms = append(ms, methodT{name, f, curSchema})
	}
	src = sources{}
	switch role {
	case "schema":
		main = "schema"
		src["schema"] = text
		src["@t"] = typeText
		mk := func() *jschema.Schema { return jschema.New("schema", text) }
		add("Len", func() error { _, err := mk().Len(); return err })
		add("Check", func() error { return mk().Check() })
		for i, d := range fixedDocs {
			d := d
			dn := fmt.Sprintf("doc%d", i)
			src[dn] = d
			add("Validate("+d+")", func() error { return mk().Validate(json.New(dn, d)) })
		}
		add("Example", func() error { _, err := mk().Example(); return err })
		add("GetAST", func() error { _, err := mk().GetAST(); return err })
		add("UsedUserTypes", func() error { _, err := mk().UsedUserTypes(); return err })
		add("AddType+Check", func() error {
			s := mk()
			if err := s.AddType("@t", jschema.New("@t", typeText)); err != nil {
				return err
			}
			return s.Check()
		})
		add("sequence reversed", func() error {
			s := mk()
			s.Check()
			s.Validate(json.New("doc0", fixedDocs[0]))
			s.Example()
			s.GetAST()
			s.UsedUserTypes()
			s.Check()
			_, err := s.Len()
			return err
		})
		add("sequence", func() error {
			s := mk()
			s.Len()
			s.UsedUserTypes()
			s.GetAST()
			s.Example()
			s.Validate(json.New("doc0", fixedDocs[0]))
			return s.Check()
		})
	case "type":
		main = "@t"
		src["@t"] = text
		for _, root := range typeRoots {
			root := root
			mk := func() (*jschema.Schema, error) {
				s := jschema.New("schema", root)
				if e := s.AddType("@u", jschema.New("@u", "1")); e != nil {
					return s, e
				}
				if strings.Contains(root, "@a") {
					// an heir of the type under test whose NAME sorts in front of it (types are visited in
					// name order: the error inside @t is first met through @a)
					if e := s.AddType("@a", jschema.New("@a", heirOfT)); e != nil {
						return s, e
					}
				}
				err := s.AddType("@t", jschema.New("@t", text))
				return s, err
			}
			curSchema = root
			add("AddType in "+firstLine(root), func() error { _, err := mk(); return err })
			add("Check in "+firstLine(root), func() error {
				s, err := mk()
				if err != nil {
					return nil
				}
				return s.Check()
			})
			add("Validate in "+firstLine(root), func() error {
				s, err := mk()
				if err != nil {
					return nil
				}
				return s.Validate(json.New("doc", `{"k":1}`))
			})
			add("Example in "+firstLine(root), func() error {
				s, err := mk()
				if err != nil {
					return nil
				}
				_, e := s.Example()
				return e
			})
		}
		curSchema = ""
		// the root schema and the document are sources too (errors may name them)
		src["schema"] = "{\n  \"k\": @t\n}"
		src["doc"] = `{"k":1}`
		src["@u"] = "1"
		src["@a"] = heirOfT
	case "enum":
		main = "@e"
		src["@e"] = text
		src["schema"] = "1 // {enum: @e}"
		mk := func() *enum.Enum { return enum.New("@e", text) }
		add("Len", func() error { _, err := mk().Len(); return err })
		add("Check", func() error { return mk().Check() })
		add("Values", func() error { _, err := mk().Values(); return err })
		add("GetAST", func() error { _, err := mk().GetAST(); return err })
		add("sequence", func() error {
			e := mk()
			_, _ = e.Len()
			_, _ = e.Values()
			_ = e.Check()
			_, _ = e.GetAST()
			_, _ = e.Values()
			_, err := e.Len()
			return err
		})
		add("AddRule+Check", func() error {
			s := jschema.New("schema", "1 // {enum: @e}")
			if err := s.AddRule("@e", mk()); err != nil {
				return err
			}
			return s.Check()
		})
	case "regex":
		main = "@r"
		src["@r"] = text
		src["schema"] = "@r"
		mk := func() *regex.Schema { return regex.New("@r", text) }
		add("Pattern", func() error { _, err := mk().Pattern(); return err })
		add("Len", func() error { _, err := mk().Len(); return err })
		add("Example", func() error { _, err := mk().Example(); return err })
		add("Check", func() error { return mk().Check() })
		add("GetAST", func() error { _, err := mk().GetAST(); return err })
		add("sequence", func() error {
			r := mk()
			_, _ = r.Len()
			_, _ = r.Example()
			_ = r.Check()
			_, _ = r.GetAST()
			_, _ = r.Pattern()
			_, err := r.Example()
			return err
		})
		add("AddType+Check", func() error {
			s := jschema.New("schema", "@r")
			if err := s.AddType("@r", mk()); err != nil {
				return err
			}
			return s.Check()
		})
	case "document":
		main = "doc"
		src["doc"] = text
		for _, trailing := range []bool{false, true} {
			trailing := trailing
			mk := func() jlib.Document {
				if trailing {
					return json.New("doc", text, json.AllowTrailingNonSpaceCharacters())
				}
				return json.New("doc", text)
			}
			sfx := ""
			if trailing {
				sfx = "[trailing]"
			}
			add("Len"+sfx, func() error { _, err := mk().Len(); return err })
			add("Check"+sfx, func() error { return mk().Check() })
			add("NextLexeme*"+sfx, func() error {
				d := mk()
				for i := 0; i < 10*len(text)+10; i++ {
					if _, err := d.NextLexeme(); err != nil {
						return err
					}
				}
				return fmt.Errorf("lexeme stream does not terminate")
			})
			// ONE document object used several times: the stream read up to its first error (or its
			// end), then the other calls on the same object; every call must return, not panic
			drain := func(d jlib.Document) {
				for i := 0; i < 10*len(text)+10; i++ {
					if _, err := d.NextLexeme(); err != nil {
						return
					}
				}
			}
			add("NextLexeme*;Check"+sfx, func() error { d := mk(); drain(d); return d.Check() })
			add("NextLexeme*;Len"+sfx, func() error { d := mk(); drain(d); _, err := d.Len(); return err })
			add("NextLexeme*;NextLexeme;Check;Check"+sfx, func() error {
				d := mk()
				drain(d)
				_, _ = d.NextLexeme()
				_ = d.Check()
				return d.Check()
			})
			add("Len;NextLexeme*;Check;NextLexeme"+sfx, func() error {
				d := mk()
				_, _ = d.Len()
				drain(d)
				_ = d.Check()
				_, err := d.NextLexeme()
				if err == io.EOF {
					return nil
				}
				return err
			})
			add("Validate;Check;Len"+sfx, func() error {
				d := mk()
				_ = jschema.New("schema", `1 // {type: "any"}`).Validate(d)
				_ = d.Check()
				_, err := d.Len()
				return err
			})
		}
		for _, st := range []string{`1 // {min: 0}`, "{ // {additionalProperties: \"any\"}\n  \"a\": 1 // {optional: true}\n}", `"s" // {type: "any"}`, "[\n  1\n]"} {
			st := st
			src["schema"] = st
			curSchema = st
			add("Validate under "+firstLine(st), func() error { return jschema.New("schema", st).Validate(json.New("doc", text)) })
		}
	}
	return
}

// evalInput runs every method of the role; returns the findings.
func evalInput(role, text string) []finding {
	src, main, ms := roleMethods(role, text)
	var out []finding
	for _, m := range ms {
		if m.schema != "" {
			src["schema"] = m.schema
		}
		if p := call(m.f, src, main); p != nil {
			out = append(out, finding{m.name, p})
		}
	}
	return out
}

type caseT struct {
	Role   string `json:"role"`
	Input  string `json:"input"`
	Method string `json:"method,omitempty"`
	Class  string `json:"class,omitempty"`
}

func hasFinding(role, text, method, class string) bool {
	for _, f := range evalInput(role, text) {
		if f.method == method && f.p.class == class {
			return true
		}
	}
	return false
}

func report(c *ev.Ctx, role, text string, f finding) {
	if strings.HasPrefix(f.p.class, "non-library-error:errors.Errorf") && strings.Contains(f.p.desc, "Infinity recursion detected") {
		// Known class: the recursion checker's error is returned as a bare errors.Errorf.
		c.Violate("errorf;infinity-recursion", fmt.Sprintf("%s %q, %s: %s", role, text, f.method, f.p.desc), caseT{role, text, f.method, f.p.class})
		return
	}
	red := text
	if len(text) <= 300 {
		red = ev.Reduce(text, func(t string) []string {
			var out []string
			// drop halves first for long inputs, then single bytes
			if len(t) > 16 {
				out = append(out, t[:len(t)/2], t[len(t)/2:])
			}
			for i := 0; i < len(t); i++ {
				out = append(out, t[:i]+t[i+1:])
			}
			return out
		}, func(t string) bool { return hasFinding(role, t, f.method, f.p.class) })
	}
	if strings.HasPrefix(f.p.class, "non-library-error:errors.Errorf") && strings.Contains(f.p.desc, "Infinity recursion detected") {
		// Known class: the recursion checker's error is returned as a bare errors.Errorf.
		c.Violate("errorf;infinity-recursion", fmt.Sprintf("%s %q, %s: %s", role, text, f.method, f.p.desc), caseT{role, text, f.method, f.p.class})
		return
	}
	desc := f.p.desc
	for _, g := range evalInput(role, red) {
		if g.method == f.method && g.p.class == f.p.class {
			desc = g.p.desc
		}
	}
	c.Violate(fmt.Sprintf("%s;%s;%s;%q", role, f.method, f.p.class, red),
		fmt.Sprintf("%s %q, %s: %s", role, red, f.method, desc), caseT{role, red, f.method, f.p.class})
}

// typeRoots: the usages of the user type @t the type role is run under.
var typeRoots = []string{"@t", "{\n  \"k\": @t\n}", "[\n  @t\n]",
	"{\n  @t : 1\n}", "{ // {allOf: \"@t\"}\n  \"y\": 1\n}", "1 // {type: \"@t\"}", "{\n  \"k\": 1 // {or: [\"@t\", \"@u\"]}\n}",
	// the type is an allOf parent of an object that lies deep inside a long root text:
	// a position taken from the wrong file falls behind the end of the type's own text
	// the type is reached through an heir type whose name sorts in front of it
	"{\n  \"k\": @a\n}", "@a | @u",
	"{\n  \"a_long_key_in_front_of_the_object_that_inherits_from_the_type_under_test\": \"and a long value as well, so that offsets in this file exceed the length of short type texts\",\n  \"n\": { // {allOf: \"@t\"}\n    \"y\": 1\n  }\n}"}

// heirOfT: a short type that extends the type under test.
const heirOfT = "{ // {allOf: \"@t\"}\n}"

// repoRoot: the library tree the harness was built against (the launcher sets
// VERIF_REPO when it is not /repo).
func repoRoot() string {
	if r := os.Getenv("VERIF_REPO"); r != "" {
		return r
	}
	return "/repo"
}

var roles = []string{"schema", "type", "enum", "regex", "document"}

const alphabet = "{}[]:,\"\\/*#@|-.01etna \n\ré"

func evalAndReport(c *ev.Ctx, role, text string) []finding {
	c.Trace(func() string { return fmt.Sprintf("%s %q", role, text) })
	fs := evalInput(role, text)
	c.Eval(len(text) > 0)
	for _, f := range fs {
		report(c, role, text, f)
	}
	return fs
}

func run(c *ev.Ctx) {
	if iso := os.Getenv("VERIF_ISOLATED"); iso != "" {
		runIsolated(c, iso)
		return
	}
	L := 4
	if c.Thorough() {
		L = 5
	}
	c.Bound("string_length", L)
	syms := []string{}
	for _, r := range alphabet {
		syms = append(syms, string(r))
	}
	c.Bound("alphabet", len(syms))
	for _, role := range roles {
		var rec func(w string, n int)
		rec = func(w string, n int) {
			if n > 0 && (n >= 2 || c.Shard == 0) {
				evalAndReport(c, role, w)
				c.Inc("strings_" + role)
			}
			if n == L || (role == "type" && n == L-1) || c.Expired() {
				return
			}
			for _, s := range syms {
				if n == 1 && !c.MineKey(role+w+s) {
					continue
				}
				rec(w+s, n+1)
			}
		}
		rec("", 0)
	}
	grammar(c)
	corpusEdits(c)
	if c.Shard == 0 {
		sites(c)
	}
}

func replay(raw stdjson.RawMessage) (bool, string) {
	var cs caseT
	if err := stdjson.Unmarshal(raw, &cs); err != nil {
		return false, err.Error()
	}
	if cs.Role == "" {
		return true, "process-fatal failure: " + string(raw)
	}
	var descs []string
	for _, f := range evalInput(cs.Role, cs.Input) {
		if cs.Method == "" || (f.method == cs.Method && f.p.class == cs.Class) {
			descs = append(descs, f.method+": "+f.p.desc)
		}
	}
	sort.Strings(descs)
	return len(descs) > 0, fmt.Sprintf("%s %q: %s", cs.Role, cs.Input, strings.Join(descs, "; "))
}

// ---- corpus ---------------------------------------------------------------------

type corpusItem struct {
	role string
	text string
	name string
}

func loadCorpus(maxLen int) []corpusItem {
	var out []corpusItem
	root := repoRoot() + "/testdata"
	filepath.Walk(root, func(p string, info os.FileInfo, err error) error {
		if err != nil || info.IsDir() || info.Size() > int64(maxLen) || info.Size() == 0 {
			return nil
		}
		role := ""
		switch filepath.Ext(p) {
		case ".jschema":
			role = "schema"
		case ".type":
			role = "type"
		case ".enum":
			role = "enum"
		case ".json":
			role = "document"
		}
		if role == "" {
			return nil
		}
		b, err := os.ReadFile(p)
		if err == nil {
			out = append(out, corpusItem{role, string(b), strings.TrimPrefix(p, root+"/")})
		}
		return nil
	})
	gens := []corpusItem{
		{"schema", "{ // {additionalProperties: \"string\", nullable: true} - note\n  \"a\": 1, // {min: 0, max: 5.5, exclusiveMinimum: true}\n  \"b\": [ // {minItems: 1}\n    \"s\", // {regex: \"^s\", optional: false}\n    @t | @u\n  ],\n  @t: true,\n  \"c\": \"x\" /* {enum: [\"x\", 1, null]}\n  - multi */\n}", "gen/schema-1"},
		{"schema", "@t | @u // {nullable: true}", "gen/schema-2"},
		{"schema", "1 // {or: [{type: \"integer\", min: 0}, \"@t\", {enum: [1, 2]}]}", "gen/schema-3"},
		{"schema", "###\nblock\n###\n[ # c\n  {\n    \"k\": 1.5 // {precision: 1}\n  }\n]", "gen/schema-4"},
		{"type", "{\n  \"k\": @t // {optional: true}\n} // {allOf: \"@t\"}", "gen/type-1"},
		{"type", "\"k\" // {regex: \"^k\"}", "gen/type-2"},
		{"type", "@t | @u", "gen/type-3"},
		{"type", "@u | @t", "gen/type-4"},
		{"type", "{\n  \"k\": @t | @u,\n  \"l\": [\n    @t\n  ]\n}", "gen/type-5"},
		{"type", "1 // {or: [\"@t\", \"@u\"]}", "gen/type-6"},
		{"type", "{ // {allOf: \"@u\"}\n  \"k\": 1 // {type: \"@u\"}\n}", "gen/type-7"},
		{"schema", "1 // {type: \"@t\"}", "gen/schema-5"},
		{"schema", "{ // {additionalProperties: \"@t\", allOf: [\"@t\"]}\n  \"k\": 1 // {enum: @e}\n}", "gen/schema-6"},
		{"enum", "[\n  1, // one\n  \"a\", /* two */\n  null\n] // tail", "gen/enum-1"},
		{"regex", "/^a[bc]+\\/d$/ rest", "gen/regex-1"},
		{"document", "{\"a\":[1,2.5e-3,\"x\\n\\u00e9\",true,null,{}],\"b\":{\"c\":[]}}", "gen/doc-1"},
	}
	// single lines of 300..500 bytes (minified texts): every edit puts an error on a line longer than the
	// 200 bytes a rendered excerpt may have, most of them in its last 197 bytes
	var props, nums []string
	for i := 0; i < 24; i++ {
		props = append(props, fmt.Sprintf("\"key%02d\": \"value %02d\"", i, i))
	}
	for i := 0; i < 90; i++ {
		nums = append(nums, fmt.Sprint(100+i))
	}
	longObj := "{" + strings.Join(props, ", ") + "}"
	gens = append(gens,
		corpusItem{"schema", longObj, "gen/long-line-schema"},
		corpusItem{"schema", "  " + longObj[:len(longObj)-1] + ", \"last\": true }", "gen/long-line-schema-2"},
		corpusItem{"type", longObj, "gen/long-line-type"},
		corpusItem{"document", longObj, "gen/long-line-document"},
		corpusItem{"document", "[" + strings.Join(nums, ",") + "]", "gen/long-line-document-2"},
		corpusItem{"enum", "[" + strings.Join(nums, ", ") + "]", "gen/long-line-enum"},
		corpusItem{"regex", "/^" + strings.Repeat("[a-z]+-", 40) + "$/", "gen/long-line-regex"},
	)
	out = append(out, gens...)
	sort.Slice(out, func(i, j int) bool { return out[i].name < out[j].name })
	return out
}

func corpusEdits(c *ev.Ctx) {
	maxLen, syms := 400, "{}[]:,\"/@|# \n"
	if c.Thorough() {
		maxLen, syms = 4096, alphabet
	}
	items := loadCorpus(maxLen)
	c.Bound("corpus_items", len(items))
	c.Bound("corpus_edit_symbols", len(syms))
	seenText := map[string]bool{}
	for _, it := range items {
		if seenText[it.role+it.text] {
			continue
		}
		seenText[it.role+it.text] = true
		if !c.Mine() {
			continue
		}
		if c.Expired() {
			return
		}
		c.Inc("corpus_files_" + it.role)
		c.Sample("corpus-"+it.role, it.name)
		evalAndReport(c, it.role, it.text)
		t := it.text
		for i := 0; i <= len(t); i++ {
			evalAndReport(c, it.role, t[:i]) // truncation
			if i < len(t) {
				evalAndReport(c, it.role, t[:i]+t[i+1:]) // deletion
			}
			for _, s := range syms {
				evalAndReport(c, it.role, t[:i]+string(s)+t[i:]) // insertion
				if i < len(t) {
					evalAndReport(c, it.role, t[:i]+string(s)+t[i+1:]) // substitution
				}
			}
			if c.Expired() {
				return
			}
		}
	}
}
