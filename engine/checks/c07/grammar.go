package c07

import (
	"fmt"
	"strings"

	"verif/internal/ev"
)

// Grammar-directed hostile inputs: the byte-level families reach only inputs
// within one edit of the corpus or of length <= 5, so well-formed annotations
// whose VALUES are hostile (empty type name, rule given the wrong JSON kind,
// dangling or-list, self-referring alternatives) are enumerated here as a
// product over small alphabets.

var gExamples = []string{`1`, `1.5`, `"s"`, `true`, `null`, `@t`, `@t | @u`}

var gRules = []string{"type", "optional", "nullable", "min", "max", "exclusiveMinimum", "exclusiveMaximum",
	"minLength", "maxLength", "minItems", "maxItems", "precision", "regex", "enum", "or", "allOf",
	"additionalProperties", "const", "serializeFormat", "x", ""}

var gValues = []string{`""`, `"@"`, `"@t"`, `"@x"`, `"#"`, `"x"`, `" "`, `"integer"`, `"any"`, `"mixed"`, `"enum"`, `"array"`, `"object"`,
	`0`, `-1`, `1`, `1.5`, `1e3`, `-0`, `true`, `false`, `null`,
	`[]`, `[1]`, `[""]`, `["@t"]`, `["@t", "@t"]`, `["@x", ""]`, `[{}]`, `[{}, {}]`, `[{type: ""}, {type: "@"}]`, `[{type: "@t"}, {min: 1}]`, `[[]]`, `[null]`,
	`{}`, `{a: 1}`, `{type: ""}`, `@t`, `@e`, `@`, `#`, ``, `"\u0000"`, `"\""`, `"^("`, `"[a-"`}

// gPairs: second rules combined with every (rule,value) in thorough mode and
// with the type-like rules in quick mode.
var gSecond = []string{`type: "@t"`, `type: "mixed"`, `nullable: true`, `optional: true`, `or: ["@t", "@u"]`, `enum: @e`, `const: true`}

func gContexts(ex, ann string) []string {
	a := ""
	if ann != "" {
		a = " // " + ann
	}
	return []string{
		ex + a,
		"{\n  \"k\": " + ex + a + "\n}",
		"[\n  " + ex + a + "\n]",
		"{" + a + "\n  \"k\": " + ex + "\n}",
		"[" + a + "\n  " + ex + "\n]",
		"{\n  @t : " + ex + a + "\n}",
	}
}

// gTypeBodies: type texts over the names @t (the type itself) and @u.
func gTypeBodies() []string {
	refs := []string{"@t", "@u", "@t | @u", "@u | @t", "@t | @t", "@x", "@t | @x"}
	var out []string
	out = append(out, refs...)
	for _, r := range refs {
		for _, ann := range []string{"", ` // {optional: true}`, ` // {nullable: true}`} {
			out = append(out, "{\n  \"p\": "+r+ann+"\n}", "[\n  "+r+ann+"\n]", "{\n  @t : "+r+ann+"\n}", "{\n  @u : "+r+ann+"\n}")
		}
		out = append(out, "{\n  \"p\": "+r+",\n  \"q\": "+r+" // {optional: true}\n}")
	}
	for _, n := range []string{"@t", "@u", "@x", ""} {
		out = append(out,
			"{ // {allOf: \""+n+"\"}\n  \"z\": 1\n}",
			"{ // {allOf: [\""+n+"\", \"@u\"]}\n}",
			"{ // {additionalProperties: \""+n+"\"}\n}",
			"1 // {type: \""+n+"\"}",
			"1 // {or: [\""+n+"\", \"@u\"]}",
			"1 // {or: [{type: \""+n+"\"}, {type: \"integer\"}]}",
			"\"k\" // {type: \""+n+"\"}")
	}
	out = append(out, "{\n  \"z\": tru\n}", "{\n  \"z\": 1 // {min: 2}\n}", "{\n  \"z\": 1, // {type: \"\"}\n  \"y\": 2\n}")
	return out
}

func grammar(c *ev.Ctx) {
	n := 0
	eval := func(role, text string) {
		n++
		if !c.MineKey(fmt.Sprintf("g%d", n)) || c.Expired() {
			return
		}
		c.Inc("grammar_" + role)
		evalAndReport(c, role, text)
	}
	for _, ex := range gExamples {
		for _, r := range gRules {
			for _, v := range gValues {
				ann := "{" + r + ": " + v + "}"
				for _, t := range gContexts(ex, ann) {
					eval("schema", t)
				}
				eval("type", ex+" // "+ann)
				typeLike := r == "type" || r == "or" || r == "enum" || r == "allOf" || r == "additionalProperties"
				if !c.Thorough() && !typeLike {
					continue
				}
				for _, s := range gSecond {
					for _, ann2 := range []string{"{" + r + ": " + v + ", " + s + "}", "{" + s + ", " + r + ": " + v + "}"} {
						eval("schema", ex+" // "+ann2)
						eval("type", ex+" // "+ann2)
					}
				}
			}
		}
	}
	for _, b := range gTypeBodies() {
		eval("type", b)
	}
	// runs of bytes that are not valid UTF-8 inside strings (decoding replaces each
	// by U+FFFD, which is longer): 1..12 repetitions of four malformed units, in
	// every role that unquotes strings
	for _, unit := range []string{"\xff", "\xc3", "\xe2\x82", "\xf0\x9f\x98"} {
		for k := 1; k <= 12; k++ {
			bad := strings.Repeat(unit, k)
			q := "\"" + bad + "\""
			eval("schema", q)
			eval("schema", "{\n  "+q+": 1\n}")
			eval("schema", "{\n  \"k\": "+q+" // {const: true}\n}")
			eval("schema", "\"x\" // {enum: ["+q+", \"x\"]}")
			eval("schema", "\"x\" // {regex: "+q+"}")
			eval("type", q+" // {minLength: 1}")
			eval("enum", "["+q+"]")
			eval("enum", "[1, "+q+", "+q+"]")
			eval("regex", "/"+bad+"/")
			eval("document", q)
			eval("document", "{"+q+":"+q+"}")
			eval("document", "{\"a\":"+q+"}")
		}
	}
	// enum rule and regex type bodies with unterminated / nested comment and literal tails
	tails := []string{"", " ", "\n", " #", " # c", " /", " /*", " /* abc", " /* abc *", " /* abc */", " /* abc */ x", " //", " // c", "\n]", " ,", "#", "/*", "//"}
	for _, body := range []string{"[1]", "[\n  1\n]", "[1, \"a\"]", "[]", "[1,]", "[", "[1", "[\"a", "[1 # c\n]", "[1 /* c */]", "[1 /* c ]", "[1 // c\n]"} {
		for _, tl := range tails {
			eval("enum", body+tl)
			eval("enum", strings.TrimSpace(tl)+body)
		}
	}
	for _, body := range []string{"/a/", "/a", "/", "//", "/a\\/", "/a\\", "/(/", "/[a-/", "/a/ /b/",
		// patterns no string matches (empty character classes), huge repetitions
		"/[^\\s\\S]/", "/[^\\x00-\\x{10FFFF}]/", "/a[^\\d\\D]+b/", "/[^\\w\\W]?/", "/a{1000}/", "/(a{100}){100}/", "/\\b\\B/", "/$a^/"} {
		for _, tl := range tails {
			eval("regex", body+tl)
			eval("regex", tl+body)
		}
	}
}
