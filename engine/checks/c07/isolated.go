package c07

import (
	"fmt"
	"os"
	"os/exec"
	"strings"
	"time"

	"verif/internal/ev"
)

// family (iii): inputs aimed at resource exhaustion, each run in its own
// memory-capped process by the parent (finish).
type isoCase struct {
	id    string
	role  string
	input string
}

func isoCases() []isoCase {
	var out []isoCase
	for _, nines := range []int{3, 6, 9, 10, 12, 19} {
		e := strings.Repeat("9", nines)
		for _, form := range []string{"1e" + e, "1e-" + e, "1.5E+" + e, "-1e" + e} {
			out = append(out, isoCase{fmt.Sprintf("document:%s", form), "document", form})
			out = append(out, isoCase{fmt.Sprintf("document-in-array:%s", form), "document", "[" + form + "]"})
		}
	}
	out = append(out,
		isoCase{"schema:deep-arrays", "schema", strings.Repeat("[", 5000) + strings.Repeat("]", 5000)},
		isoCase{"document:deep-arrays", "document", strings.Repeat("[", 100000) + strings.Repeat("]", 100000)},
		isoCase{"document:long-string", "document", `"` + strings.Repeat("a", 1<<20) + `"`},
		isoCase{"schema:long-number", "schema", strings.Repeat("9", 100000)},
	)
	return out
}

func runIsolated(c *ev.Ctx, id string) {
	for _, ic := range isoCases() {
		if ic.id == id {
			evalAndReport(c, ic.role, ic.input)
			return
		}
	}
}

// finish runs in the parent: one child process per isolated case.
func finish(m *ev.Merged) {
	self, _ := os.Executable()
	cases := isoCases()
	type res struct {
		ic   isoCase
		out  string
		err  error
		took time.Duration
	}
	results := make(chan res, len(cases))
	sem := make(chan struct{}, 4)
	for _, ic := range cases {
		ic := ic
		go func() {
			sem <- struct{}{}
			defer func() { <-sem }()
			start := time.Now()
			// ulimit -v: 2 GiB of address space per child
			cmd := exec.Command("bash", "-c", fmt.Sprintf("ulimit -v 2500000; exec timeout 60 %q C07 %s", self, m.Tier))
			cmd.Env = append(os.Environ(), "VERIF_SHARD=0/1", "VERIF_ISOLATED="+ic.id, "GOMAXPROCS=2")
			out, err := cmd.CombinedOutput()
			results <- res{ic, string(out), err, time.Since(start)}
		}()
	}
	for range cases {
		r := <-results
		m.Counters["evaluations"]++
		m.Counters["isolated_cases"]++
		if r.err != nil {
			reason := "process died"
			for _, l := range strings.Split(r.out, "\n") {
				if strings.HasPrefix(l, "fatal error:") || strings.HasPrefix(l, "runtime: out of memory") || strings.Contains(l, "cannot allocate memory") {
					reason = l
					break
				}
			}
			if strings.Contains(r.err.Error(), "124") {
				reason = "no result within 60 s"
			}
			in := r.ic.input
			if len(in) > 40 {
				in = in[:40] + fmt.Sprintf("...(%d bytes)", len(r.ic.input))
			}
			if strings.HasPrefix(r.ic.id, "document") && strings.Contains(r.ic.input, "9") && (strings.Contains(reason, "out of memory") || strings.Contains(reason, "cannot allocate")) {
				// Known class: the exponent of a numeral is expanded into that many zero bytes.
				m.Violate("fatal;numeral-exponent-expansion", fmt.Sprintf("document %q: the process does not survive validation (%s) under a 2.5 GB address-space cap", in, reason), map[string]any{"role": r.ic.role, "isolated": r.ic.id})
				continue
			}
			m.Violate("fatal;"+r.ic.id, fmt.Sprintf("%s %q: the process does not survive the call (%s) under a 2.5 GB address-space cap", r.ic.role, in, reason), map[string]any{"role": r.ic.role, "isolated": r.ic.id})
			continue
		}
		// forward violations the child found itself
		for _, l := range strings.Split(r.out, "\n") {
			if strings.HasPrefix(l, "RESULT ") && strings.Contains(l, `"viol":[{`) {
				m.Violate("isolated-violation;"+r.ic.id, fmt.Sprintf("%s: the isolated run reported a violation: %s", r.ic.id, firstLine(l[:min(len(l), 600)])), map[string]any{"isolated": r.ic.id})
			}
		}
	}
}

func min(a, b int) int {
	if a < b {
		return a
	}
	return b
}
