package c07

import (
	"fmt"
	"go/ast"
	"go/parser"
	"go/token"
	"os"
	"path/filepath"
	"strings"

	liberrors "github.com/jsightapi/jsight-schema-go-library/errors"

	"verif/internal/ev"
)

// sites: engine E. Enumerates every errors.Format(code, args...) call and every
// bare use of an errors.ErrXxx constant in the current tree, and executes the
// real message construction for each.
func sites(c *ev.Ctx) {
	codes := codeTable()
	c.Bound("error_codes_in_table", len(codes))
	// every code: either ErrorCode.Error() (0 placeholders) or Format with the right arity works
	for name, code := range codes {
		n, ok := placeholders(code)
		c.Eval(true)
		c.Inc("template_rows")
		if !ok {
			c.Violate("site;no-template;"+name, fmt.Sprintf("error code %s (%d) has no message template: rendering it panics", name, int(code)), caseT{Role: "site", Input: name})
		}
		_ = n
	}
	fset := token.NewFileSet()
	nsites := 0
	filepath.Walk(repoRoot(), func(p string, info os.FileInfo, err error) error {
		if err != nil {
			return nil
		}
		if info.IsDir() {
			if strings.HasPrefix(info.Name(), ".") && p != repoRoot() {
				return filepath.SkipDir
			}
			return nil
		}
		if !strings.HasSuffix(p, ".go") || strings.HasSuffix(p, "_test.go") {
			return nil
		}
		f, err := parser.ParseFile(fset, p, nil, 0)
		if err != nil {
			return nil
		}
		// local name of the errors package in this file
		local := ""
		for _, im := range f.Imports {
			if strings.Trim(im.Path.Value, `"`) == "github.com/jsightapi/jsight-schema-go-library/errors" {
				local = "errors"
				if im.Name != nil {
					local = im.Name.Name
				}
			}
		}
		inErrorsPkg := f.Name.Name == "errors" && strings.HasSuffix(filepath.Dir(p), "/errors")
		if local == "" && !inErrorsPkg {
			return nil
		}
		formatCallArgs := map[ast.Expr]bool{}
		ast.Inspect(f, func(n ast.Node) bool {
			call, ok := n.(*ast.CallExpr)
			if !ok {
				return true
			}
			isFormat := false
			switch fn := call.Fun.(type) {
			case *ast.SelectorExpr:
				if id, ok := fn.X.(*ast.Ident); ok && id.Name == local && fn.Sel.Name == "Format" {
					isFormat = true
				}
			case *ast.Ident:
				if inErrorsPkg && fn.Name == "Format" {
					isFormat = true
				}
			}
			if !isFormat || len(call.Args) == 0 {
				return true
			}
			codeName := ""
			switch a := call.Args[0].(type) {
			case *ast.SelectorExpr:
				codeName = a.Sel.Name
			case *ast.Ident:
				codeName = a.Name
			}
			formatCallArgs[call.Args[0]] = true
			code, known := codes[codeName]
			if !known {
				return true // code passed through a variable: covered by the table rows
			}
			nargs := len(call.Args) - 1
			if call.Ellipsis != token.NoPos {
				return true
			}
			nsites++
			c.Eval(true)
			pos := fset.Position(call.Pos())
			site := fmt.Sprintf("%s:%d", strings.TrimPrefix(pos.Filename, repoRoot()+"/"), pos.Line)
			args := make([]interface{}, nargs)
			for i := range args {
				args[i] = "x"
			}
			if msg := renderFormat(code, args); msg != "" {
				c.Violate("site;format;"+codeName+fmt.Sprintf(";args=%d", nargs), fmt.Sprintf("%s: errors.Format(%s, %d args): rendering the message panics: %s", site, codeName, nargs, msg), caseT{Role: "site", Input: site})
			}
			return true
		})
		// bare uses of ErrXxx as an error value (not as Format's first argument)
		ast.Inspect(f, func(n ast.Node) bool {
			var name string
			switch e := n.(type) {
			case *ast.SelectorExpr:
				if id, ok := e.X.(*ast.Ident); ok && id.Name == local && strings.HasPrefix(e.Sel.Name, "Err") {
					if formatCallArgs[e] {
						return true
					}
					name = e.Sel.Name
				}
			}
			if name == "" {
				return true
			}
			code, known := codes[name]
			if !known {
				return true
			}
			// Only uses in value position that end up rendered matter: panic(errors.ErrX),
			// return errors.ErrX, NewDocumentError(f, errors.ErrX) ... We execute the
			// rendering for every bare use that is not a comparison or a map key.
			n0, ok := placeholders(code)
			if ok && n0 > 0 && usedAsValue(f, n) {
				pos := fset.Position(n.Pos())
				site := fmt.Sprintf("%s:%d", strings.TrimPrefix(pos.Filename, repoRoot()+"/"), pos.Line)
				nsites++
				c.Eval(true)
				c.Violate("site;bare;"+name, fmt.Sprintf("%s: %s is used as an error value but its template needs %d arguments: rendering it panics", site, name, n0), caseT{Role: "site", Input: site})
			} else if ok {
				nsites++
				c.Eval(true)
			}
			return true
		})
		return nil
	})
	c.Bound("construction_sites", nsites)
}

// usedAsValue: conservative syntactic test — the selector is an argument of a
// call (panic, NewDocumentError, NewLexEventError ...) or a return value.
func usedAsValue(f *ast.File, target ast.Node) bool {
	found := false
	ast.Inspect(f, func(n ast.Node) bool {
		switch x := n.(type) {
		case *ast.CallExpr:
			for _, a := range x.Args {
				if a == target {
					if id, ok := x.Fun.(*ast.Ident); ok && id.Name == "panic" {
						found = true
					}
					if sel, ok := x.Fun.(*ast.SelectorExpr); ok && (sel.Sel.Name == "NewDocumentError" || sel.Sel.Name == "NewLexEventError" || sel.Sel.Name == "NewValidatorError") {
						found = true
					}
				}
			}
		case *ast.ReturnStmt:
			for _, r := range x.Results {
				if r == target {
					found = true
				}
			}
		}
		return true
	})
	return found
}

func renderFormat(code liberrors.ErrorCode, args []interface{}) (msg string) {
	defer func() {
		if r := recover(); r != nil {
			msg = fmt.Sprint(r)
		}
	}()
	_ = liberrors.Format(code, args...).Error()
	return ""
}

// placeholders returns the number of arguments the template of code needs.
func placeholders(code liberrors.ErrorCode) (n int, ok bool) {
	for k := 0; k <= 6; k++ {
		args := make([]interface{}, k)
		for i := range args {
			args[i] = "x"
		}
		if renderFormat(code, args) == "" {
			return k, true
		}
	}
	return 0, false
}

// codeTable parses errors/code.go for the constant names and values.
func codeTable() map[string]liberrors.ErrorCode {
	out := map[string]liberrors.ErrorCode{}
	fset := token.NewFileSet()
	f, err := parser.ParseFile(fset, repoRoot()+"/errors/code.go", nil, 0)
	if err != nil {
		return out
	}
	for _, d := range f.Decls {
		gd, ok := d.(*ast.GenDecl)
		if !ok || gd.Tok != token.CONST {
			continue
		}
		for _, sp := range gd.Specs {
			vs := sp.(*ast.ValueSpec)
			for i, n := range vs.Names {
				if i < len(vs.Values) {
					if bl, ok := vs.Values[i].(*ast.BasicLit); ok {
						var v int
						fmt.Sscanf(bl.Value, "%d", &v)
						out[n.Name] = liberrors.ErrorCode(v)
					}
				}
			}
		}
	}
	return out
}
