//go:build !shim

// Package c11 needs the scheduler/overlay variant of the harness.
package c11
