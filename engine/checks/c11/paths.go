//go:build shim

package c11

import (
	stdjson "encoding/json"
	"fmt"
	"strings"

	"verif/checks/c03"
	"verif/checks/c16"
	"verif/checks/sc"
	"verif/internal/ev"
	"verif/internal/lib"
	shim "github.com/jsightapi/jsight-schema-go-library/verifshim"
)

// observeSpec is observeCase for a spec whose Via field selects the construction path of every object
// (schema, added types, rules and the validated documents).
func observeSpec(sp lib.SchemaSpec, docs []string) string {
	var b strings.Builder
	s, r := lib.Check(sp)
	fmt.Fprintf(&b, "check=%s;", r.Full())
	if s == nil {
		return b.String()
	}
	for _, d := range docs {
		fmt.Fprintf(&b, "%s;", lib.ValidateVia(s, d, sp.Via).Full())
	}
	ex, err := s.Example()
	fmt.Fprintf(&b, "ex=%s %s;", ex, lib.FromErr(err).Full())
	u, err := s.UsedUserTypes()
	fmt.Fprintf(&b, "used=%v %s;", u, lib.FromErr(err).Full())
	n, err := s.Len()
	fmt.Fprintf(&b, "len=%d %s;", n, lib.FromErr(err).Full())
	if a, err := s.GetAST(); err == nil {
		j, _ := stdjson.Marshal(a)
		b.Write(j)
	}
	return b.String()
}

var viaNames = []string{"New(name, string)", "New(name, []byte)", "FromFile(fs.NewFile(name, string))", "New(name, bytes.Bytes)", "FromFile(fs.NewFile(name, []byte))"}

// constructionPaths: equal inputs give equal results whichever constructor received them. Every case of
// C16's rule family and a sample of C03's families is built through the five construction paths (root,
// added types, rules and documents alike): verdict, code, position, file, example, used types, Len and AST
// must be those of the string constructor.
func constructionPaths(c *ev.Ctx) {
	docs := []string{`{"a":1}`, `{"k":1}`, `{"k":"ab","l":1}`, `[1]`, `"ab"`, `1`, `{}`, `{"k":1.5}`, `null`}
	n := 0
	visit := func(cs sc.Case) {
		n++
		if !c.MineKey(fmt.Sprint("paths;", n)) || c.Expired() {
			return
		}
		sp := cs.Spec()
		var base string
		shim.RunEnv(nil, func() { base = observeSpec(sp, docs) })
		for via := 1; via < len(viaNames); via++ {
			sp.Via = via
			var obs string
			shim.RunEnv(nil, func() { obs = observeSpec(sp, docs) })
			c.Eval(true)
			c.Inc("construction_path_cases")
			if obs != base {
				c.Violate(fmt.Sprintf("paths;%d;%s", via, cs.Describe()), fmt.Sprintf("%s: objects made with %s give %.200q, made with %s %.200q", cs.Describe(), viaNames[via], obs, viaNames[0], base), caseT{Kind: "paths", Env: []int{via}, Case: &cs})
			}
		}
	}
	c16.AstFamily(visit)
	k := 0
	c03.ForEachSchema(c.Thorough(), func(cs sc.Case) {
		k++
		if c.Thorough() && k%5 == 0 || k%41 == 0 {
			visit(cs)
		}
	})
	c.Bound("construction_paths", len(viaNames))
}

var _ = ev.Register
