//go:build shim

// Package c11: results are deterministic, history-independent and stable.
package c11

import (
	stdjson "encoding/json"
	"fmt"
	"io"
	"os"
	"sort"
	"strings"
	"time"

	jlib "github.com/jsightapi/jsight-schema-go-library"
	"github.com/jsightapi/jsight-schema-go-library/formats/json"
	"github.com/jsightapi/jsight-schema-go-library/notations/jschema"
	"github.com/jsightapi/jsight-schema-go-library/notations/regex"
	"github.com/jsightapi/jsight-schema-go-library/rules/enum"
	shim "github.com/jsightapi/jsight-schema-go-library/verifshim"

	"verif/checks/c03"
	"verif/checks/c09"
	"verif/checks/sc"
	"verif/checks/streamx"
	"verif/gen"
	"verif/internal/ev"
	"verif/internal/lib"
)

func init() {
	ev.Register(&ev.Check{
		ID:             "C11",
		Level:          "model_checking",
		Rule:           "(a) histories: ALL sequences of <= 3 (thorough 4) operations from a 59-operation alphabet (incl. a 60-property schema whose example outgrows the pooled buffers) (8 schema methods x {plain schema, schema with types/allOf and an enum rule object that is itself in the pool, invalid schema}, 6 on a lexically broken schema, 4 on a broken enum rule, Check/Len on 3 documents and on an embedded document with trailing text, Validate and the NextLexeme stream of LIVE document objects that have only been through the rewinding Len/Check, 4 enum-rule methods, 4 regex-type methods) over one pool of live objects, plus each operation repeated 12 times and 3 round-robins of the whole alphabet; every result (verdict, code, position, AST, example bytes, used-type list, enum values) must equal the result on fresh objects, and every value handed to the caller must still equal its snapshot at the end of the history; (c) a second, smaller alphabet (14 operations on two schemas sharing ONE added type object through allOf lists, and on that object) one level deeper; the same with every single sync.Pool answer deviated (fresh object / oldest pooled object) for histories <= 2; (d) interleaved streams: for every pair of 6 small documents (the first also as an embedded document with trailing text) ALL merges of the two NextLexeme call sequences: each document must deliver exactly the events it delivers when read alone; (b) map order: for every scenario of a corpus (type-reference / allOf / additionalProperties / key-shortcut families, type graphs, multi-shortcut objects) ALL single deviations (descending, rotations) of every dynamic range-over-map instance (thorough: pairs) - the library is built through an overlay that turns every `for k := range map` into iteration over an explicitly ordered key list - must leave all public results unchanged. states = distinct (history prefix) pool states, transitions = operations executed, traces_validated_against_impl = histories/scenario runs executed on the real library.",
		Workers:        func(string) int { return 16 },
		Run:            run,
		Replay:         replay,
		Finish:         finish,
		QuickBudget:    450 * time.Second,
		ThoroughBudget: 14 * time.Minute,
		Assumptions: []string{
			"message text is not compared (it may embed map-ordered key lists and pointer-derived names); verdict, code, position and structured values are",
			"a Document object already consumed by Validate/NextLexeme is not re-validated (the interface documents a one-pass stream): it is replaced by a fresh object; live objects are validated only after the rewinding Len/Check",
		},
	})
}

// ---- (a) histories -------------------------------------------------------------------------

const plainText = "{\n  \"a\": 1, // {min: 0}\n  \"b\": [\n    \"s\"\n  ]\n}"
const typedText = "{ // {allOf: \"@base\"}\n  \"id\": 1, // {enum: @lvl}\n  \"n\": @str | @num,\n  @key: true // {optional: true}\n}"
const invalidText = "{\n  \"a\": 1 // {min: 5}\n}"

var docTexts = []string{`{"a":1,"b":["x"]}`, `{"a":-1,"b":[]}`, `{"a":1,`, `{"id":1,"n":"x","k1":true,"base":2}`}

type pool struct {
	P, U, X, L *jschema.Schema // plain, with types/rule, semantically invalid, lexically broken
	BIG        *jschema.Schema // 60 properties: its example (> 1 KiB) outgrows the regular size of pooled buffers
	D          []jlib.Document
	consumed   []bool     // D[k] has been read through NextLexeme/Validate since its last rewinding Len/Check
	E, E2      *enum.Enum // E is ALSO the rule @lvl of schema U; E2 is lexically broken
	R          *regex.Schema
	// S1 and S2 are different schemas to which the SAME type object B was added
	S1, S2, B *jschema.Schema
	// C extends @base and is added to S3 together with B; alone, C does not know @base
	C, S3 *jschema.Schema
	// schemas without an example value (empty text, blanks, a comment only) and schemas whose LOAD fails
	// half-way (unknown rule, duplicate key): what a failed load leaves behind must not reach the next one
	EM, EB, EC, LR, LD *jschema.Schema
}

const brokenText = "{\n  \"a\": 1,\n  \"b\": tru\n}"
const enumText = "[\n  // small\n  1, // one\n  // large\n  2,\n  \"two\",\n  \"1.5\"\n]"

const baseText = "{\n  \"id\": 1\n}"
const childText = "{ // {allOf: \"@base\"}\n  \"name\": \"x\"\n}"

func newPool() *pool {
	p := &pool{}
	p.P = jschema.New("plain", plainText)
	p.U = jschema.New("typed", typedText)
	p.E = enum.New("@lvl", enumText)
	p.U.AddRule("@lvl", p.E)
	p.U.AddType("@base", jschema.New("@base", "{\n  \"base\": 1 // {optional: true}\n}"))
	p.U.AddType("@str", jschema.New("@str", "\"s\" // {minLength: 1}"))
	p.U.AddType("@num", jschema.New("@num", "1"))
	p.U.AddType("@key", jschema.New("@key", "\"k\" // {regex: \"^k\"}"))
	p.X = jschema.New("invalid", invalidText)
	p.L = jschema.New("broken", brokenText)
	var big strings.Builder
	big.WriteString("{\n")
	for i := 0; i < 60; i++ {
		fmt.Fprintf(&big, "  \"key_%02d\": \"some value number %02d\"", i, i)
		if i < 59 {
			big.WriteString(",")
		}
		big.WriteString("\n")
	}
	big.WriteString("}")
	p.BIG = jschema.New("big", big.String())
	p.E2 = enum.New("@e2", "[\n  1,\n  \"x")
	for i := range docTexts {
		p.D = append(p.D, newDoc(i))
	}
	p.D = append(p.D, newDoc(4))
	p.consumed = make([]bool, len(p.D))
	p.R = regex.New("@r", "/^ab+c$/")
	p.B = jschema.New("@base", baseText)
	p.S1 = jschema.New("s1", "{ // {allOf: [\"@base\", \"@left\"]}\n}")
	p.S1.AddType("@base", p.B)
	p.S1.AddType("@left", jschema.New("@left", "{\n  \"name\": \"x\"\n}"))
	p.S2 = jschema.New("s2", "{ // {allOf: [\"@base\", \"@right\"]}\n  \"own\": true // {optional: true}\n}")
	p.S2.AddType("@base", p.B)
	p.S2.AddType("@right", jschema.New("@right", "{\n  \"size\": 1\n}"))
	p.EM = jschema.New("empty", "")
	p.EB = jschema.New("blank", " \n\t ")
	p.EC = jschema.New("comment", "# nothing but a comment\n")
	p.LR = jschema.New("badrule", "{\n  \"id\": 1, // {mni: 0}\n  \"name\": \"Tom\"\n}")
	p.LD = jschema.New("dupkey", "{\n  \"id\": 1,\n  \"name\": \"Tom\",\n  \"id\": 2\n}")
	p.C = jschema.New("@child", childText)
	p.S3 = jschema.New("s3", "{\n  \"c\": @child\n}")
	p.S3.AddType("@child", p.C)
	p.S3.AddType("@base", p.B)
	return p
}

// newDoc: documents 0..3 are plain; 4 is an embedded document (trailing text
// allowed and present).
func newDoc(i int) jlib.Document {
	if i == 4 {
		return json.New("docT", docTexts[0]+"\nGET /next", json.AllowTrailingNonSpaceCharacters())
	}
	return json.New(fmt.Sprintf("doc%d", i), docTexts[i])
}

func errStr(err error) string {
	r := lib.FromErr(err)
	if r.OK {
		return "ok"
	}
	return fmt.Sprintf("err code=%d pos=%d haspos=%v", r.Code, r.Pos, r.HasPos)
}

// held is a value handed to the caller; render re-serialises it.
type held struct {
	op     string
	render func() string
	snap   string
}

type opT struct {
	name string
	run  func(p *pool) (result string, h *held)
}

func schemaOps(name string, get func(p *pool) *jschema.Schema) []opT {
	var out []opT
	out = append(out, opT{name + ".Check", func(p *pool) (string, *held) {
		err := get(p).Check()
		return errStr(err), &held{render: func() string { return errStr(err) + safeText(err) }}
	}})
	for i := range docTexts {
		i := i
		out = append(out, opT{fmt.Sprintf("%s.Validate(doc%d)", name, i), func(p *pool) (string, *held) {
			err := get(p).Validate(json.New(fmt.Sprintf("doc%d", i), docTexts[i]))
			return errStr(err), &held{render: func() string { return errStr(err) + safeText(err) }}
		}})
	}
	out = append(out, opT{name + ".Example", func(p *pool) (string, *held) {
		b, err := get(p).Example()
		return string(b) + " " + errStr(err), &held{render: func() string { return string(b) }}
	}})
	out = append(out, opT{name + ".GetAST", func(p *pool) (string, *held) {
		a, err := get(p).GetAST()
		j, _ := stdjson.Marshal(a)
		return string(j) + " " + errStr(err), &held{render: func() string { j, _ := stdjson.Marshal(a); return string(j) }}
	}})
	out = append(out, opT{name + ".UsedUserTypes", func(p *pool) (string, *held) {
		u, err := get(p).UsedUserTypes()
		return fmt.Sprint(u, " ", errStr(err)), &held{render: func() string { return fmt.Sprint(u) }}
	}})
	out = append(out, opT{name + ".Len", func(p *pool) (string, *held) {
		n, err := get(p).Len()
		return fmt.Sprint(n, " ", errStr(err)), nil
	}})
	return out
}

func safeText(err error) (s string) {
	if err == nil {
		return ""
	}
	defer func() {
		if r := recover(); r != nil {
			s = " <Error() panics>"
		}
	}()
	return " " + err.Error()
}

func alphabet() []opT {
	var ops []opT
	ops = append(ops, schemaOps("P", func(p *pool) *jschema.Schema { return p.P })...)
	ops = append(ops, schemaOps("U", func(p *pool) *jschema.Schema { return p.U })...)
	ops = append(ops, schemaOps("X", func(p *pool) *jschema.Schema { return p.X })...)
	for i := 0; i < 3; i++ {
		i := i
		ops = append(ops, opT{fmt.Sprintf("doc%d.Check", i), func(p *pool) (string, *held) {
			e := errStr(p.D[i].Check())
			p.consumed[i] = false
			return e, nil
		}})
		ops = append(ops, opT{fmt.Sprintf("doc%d.Len", i), func(p *pool) (string, *held) {
			n, err := p.D[i].Len()
			p.consumed[i] = false
			return fmt.Sprint(n, " ", errStr(err)), nil
		}})
	}
	// live document objects that have only been through the rewinding Len/Check:
	// validating / streaming them must give what a fresh object gives. A consumed
	// object is replaced by a fresh one (one-pass stream).
	for _, k := range []int{0, 4} {
		k := k
		mk := func() jlib.Document { return newDoc(k) }
		if k == 4 {
			ops = append(ops, opT{"docT.Check", func(p *pool) (string, *held) {
				e := errStr(p.D[k].Check())
				p.consumed[k] = false
				return e, nil
			}})
			ops = append(ops, opT{"docT.Len", func(p *pool) (string, *held) {
				n, err := p.D[k].Len()
				p.consumed[k] = false
				return fmt.Sprint(n, " ", errStr(err)), nil
			}})
		}
		ops = append(ops, opT{fmt.Sprintf("P.Validate(live doc%d)", k), func(p *pool) (string, *held) {
			if p.consumed[k] {
				p.D[k] = mk() // a consumed stream is not read again: take a fresh object
			}
			err := p.P.Validate(p.D[k])
			p.consumed[k] = true // the object stays: Len/Check on it must still be right
			return errStr(err), nil
		}})
		ops = append(ops, opT{fmt.Sprintf("doc%d.NextLexeme*", k), func(p *pool) (string, *held) {
			if p.consumed[k] {
				p.D[k] = mk()
			}
			var b strings.Builder
			for i := 0; i < 200; i++ {
				lex, err := p.D[k].NextLexeme()
				if err != nil {
					if err == io.EOF {
						b.WriteString("EOF")
					} else {
						b.WriteString(errStr(err))
					}
					break
				}
				fmt.Fprintf(&b, "%s[%d:%d];", lex.Type(), lex.Begin(), lex.End())
			}
			p.consumed[k] = true
			return b.String(), nil
		}})
	}
	for _, o := range schemaOps("BIG", func(p *pool) *jschema.Schema { return p.BIG }) {
		if strings.HasSuffix(o.name, ".Example") || strings.HasSuffix(o.name, ".Check") {
			ops = append(ops, o)
		}
	}
	// a lexically broken schema and a lexically broken enum rule: errors must be as stable as results
	for _, o := range schemaOps("L", func(p *pool) *jschema.Schema { return p.L }) {
		if !strings.Contains(o.name, "Validate(doc") || strings.HasSuffix(o.name, "Validate(doc0)") {
			ops = append(ops, o)
		}
	}
	ops = append(ops,
		opT{"E2.Check", func(p *pool) (string, *held) { return errStr(p.E2.Check()), nil }},
		opT{"E2.Values", func(p *pool) (string, *held) {
			v, err := p.E2.Values()
			return fmt.Sprint(len(v), " ", errStr(err)), nil
		}},
		opT{"E2.Len", func(p *pool) (string, *held) { n, err := p.E2.Len(); return fmt.Sprint(n, " ", errStr(err)), nil }},
		opT{"E2.GetAST", func(p *pool) (string, *held) { _, err := p.E2.GetAST(); return errStr(err), nil }},
	)
	ops = append(ops,
		opT{"E.Check", func(p *pool) (string, *held) { return errStr(p.E.Check()), nil }},
		opT{"E.Values", func(p *pool) (string, *held) {
			v, err := p.E.Values()
			ser := func() string {
				var s []string
				for _, x := range v {
					s = append(s, fmt.Sprintf("%s|%s|%s", x.Type, x.Value, x.Comment))
				}
				return strings.Join(s, ";")
			}
			return ser() + " " + errStr(err), &held{render: ser}
		}},
		opT{"E.GetAST", func(p *pool) (string, *held) {
			a, err := p.E.GetAST()
			j, _ := stdjson.Marshal(a)
			return string(j) + " " + errStr(err), &held{render: func() string { j, _ := stdjson.Marshal(a); return string(j) }}
		}},
		opT{"E.Len", func(p *pool) (string, *held) { n, err := p.E.Len(); return fmt.Sprint(n, " ", errStr(err)), nil }},
		opT{"R.Pattern", func(p *pool) (string, *held) { s, err := p.R.Pattern(); return s + " " + errStr(err), nil }},
		opT{"R.Example", func(p *pool) (string, *held) {
			b, err := p.R.Example()
			return string(b) + " " + errStr(err), &held{render: func() string { return string(b) }}
		}},
		opT{"R.Len", func(p *pool) (string, *held) { n, err := p.R.Len(); return fmt.Sprint(n, " ", errStr(err)), nil }},
		opT{"R.GetAST", func(p *pool) (string, *held) {
			a, err := p.R.GetAST()
			j, _ := stdjson.Marshal(a)
			return string(j) + " " + errStr(err), nil
		}},
	)
	return ops
}

// sharedAlphabet: operations on two schemas sharing one added type object, and on that object.
func sharedAlphabet() []opT {
	val := func(name string, get func(p *pool) *jschema.Schema, doc string) opT {
		return opT{fmt.Sprintf("%s.Validate(%s)", name, doc), func(p *pool) (string, *held) {
			return errStr(get(p).Validate(json.New("d", doc))), nil
		}}
	}
	s1 := func(p *pool) *jschema.Schema { return p.S1 }
	s2 := func(p *pool) *jschema.Schema { return p.S2 }
	b := func(p *pool) *jschema.Schema { return p.B }
	ex := func(name string, get func(p *pool) *jschema.Schema) opT {
		return opT{name + ".Example", func(p *pool) (string, *held) {
			x, err := get(p).Example()
			return string(x) + " " + errStr(err), &held{render: func() string { return string(x) }}
		}}
	}
	return []opT{
		{"S1.Check", func(p *pool) (string, *held) { return errStr(p.S1.Check()), nil }},
		val("S1", s1, `{"id":7,"name":"x"}`), val("S1", s1, `{"id":7}`), val("S1", s1, `{"id":7,"size":1}`), ex("S1", s1),
		{"S2.Check", func(p *pool) (string, *held) { return errStr(p.S2.Check()), nil }},
		val("S2", s2, `{"id":7,"size":2}`), val("S2", s2, `{"id":7}`), val("S2", s2, `{"id":7,"name":"x"}`), ex("S2", s2),
		{"B.Check", func(p *pool) (string, *held) { return errStr(p.B.Check()), nil }},
		val("B", b, `{"id":7}`), val("B", b, `{}`), ex("B", b),
	}
}

// heirAlphabet: a type object that extends @base is used on its own (where @base is unknown: every call
// fails) and through a schema that knows both; plus the schemas sharing @base.
func heirAlphabet() []opT {
	val := func(name string, get func(p *pool) *jschema.Schema, doc string) opT {
		return opT{fmt.Sprintf("%s.Validate(%s)", name, doc), func(p *pool) (string, *held) {
			return errStr(get(p).Validate(json.New("d", doc))), nil
		}}
	}
	s3 := func(p *pool) *jschema.Schema { return p.S3 }
	cc := func(p *pool) *jschema.Schema { return p.C }
	s1 := func(p *pool) *jschema.Schema { return p.S1 }
	return []opT{
		{"C.Check", func(p *pool) (string, *held) { return errStr(p.C.Check()), nil }},
		val("C", cc, `{"id":7,"name":"x"}`),
		{"C.Example", func(p *pool) (string, *held) { x, err := p.C.Example(); return string(x) + " " + errStr(err), nil }},
		{"S3.Check", func(p *pool) (string, *held) { return errStr(p.S3.Check()), nil }},
		val("S3", s3, `{"c":{"id":7,"name":"x"}}`), val("S3", s3, `{"c":{"name":"x"}}`),
		{"S3.Example", func(p *pool) (string, *held) { x, err := p.S3.Example(); return string(x) + " " + errStr(err), nil }},
		{"B.Check", func(p *pool) (string, *held) { return errStr(p.B.Check()), nil }},
		{"S1.Check", func(p *pool) (string, *held) { return errStr(p.S1.Check()), nil }},
		val("S1", s1, `{"id":7}`),
	}
}

// emptyAlphabet: loads that fail half-way next to first uses of schemas that have no example at all.
func emptyAlphabet() []opT {
	type get func(p *pool) *jschema.Schema
	check := func(name string, g get) opT {
		return opT{name + ".Check", func(p *pool) (string, *held) { return errStr(g(p).Check()), nil }}
	}
	example := func(name string, g get) opT {
		return opT{name + ".Example", func(p *pool) (string, *held) { x, err := g(p).Example(); return string(x) + " " + errStr(err), nil }}
	}
	ast := func(name string, g get) opT {
		return opT{name + ".GetAST", func(p *pool) (string, *held) {
			a, err := g(p).GetAST()
			j, _ := stdjson.Marshal(a)
			return string(j) + " " + errStr(err), nil
		}}
	}
	val := func(name string, g get) opT {
		return opT{name + `.Validate({"id":1,"name":"Tom"})`, func(p *pool) (string, *held) {
			return errStr(g(p).Validate(json.New("d", `{"id":1,"name":"Tom"}`))), nil
		}}
	}
	em := func(p *pool) *jschema.Schema { return p.EM }
	eb := func(p *pool) *jschema.Schema { return p.EB }
	ec := func(p *pool) *jschema.Schema { return p.EC }
	lr := func(p *pool) *jschema.Schema { return p.LR }
	ld := func(p *pool) *jschema.Schema { return p.LD }
	l := func(p *pool) *jschema.Schema { return p.L }
	pp := func(p *pool) *jschema.Schema { return p.P }
	return []opT{
		check("LR", lr), check("LD", ld), check("L", l), example("LR", lr), check("P", pp),
		check("EM", em), example("EM", em), ast("EM", em), val("EM", em),
		example("EB", eb), val("EB", eb), example("EC", ec), ast("EC", ec),
	}
}

// runHistory executes the history on a fresh pool; returns the first deviation.
func runHistory(ops []opT, fresh []string, hist []int) string {
	p := newPool()
	var holds []*held
	for step, oi := range hist {
		var res string
		var h *held
		func() {
			defer func() {
				if r := recover(); r != nil {
					res = fmt.Sprintf("PANIC %v", r)
				}
			}()
			res, h = ops[oi].run(p)
		}()
		if res != fresh[oi] {
			return fmt.Sprintf("step %d %s returns %.160q, on fresh objects it returns %.160q", step+1, ops[oi].name, res, fresh[oi])
		}
		if h != nil {
			h.op = fmt.Sprintf("step %d %s", step+1, ops[oi].name)
			h.snap = h.render()
			holds = append(holds, h)
		}
	}
	for _, h := range holds {
		if now := h.render(); now != h.snap {
			return fmt.Sprintf("the value returned by %s changed after later calls: was %.120q, now %.120q", h.op, h.snap, now)
		}
	}
	return ""
}

type caseT struct {
	Kind    string   `json:"kind"` // "history" | "maporder"
	History []string `json:"history,omitempty"`
	Env     []int    `json:"env_choices,omitempty"`
	Case    *sc.Case `json:"case,omitempty"`
}

func names(ops []opT, hist []int) []string {
	var out []string
	for _, i := range hist {
		out = append(out, ops[i].name)
	}
	return out
}

func histories(c *ev.Ctx) {
	depth := 3
	if c.Thorough() {
		depth = 4
	}
	// the small alphabets first, one level deeper than the big one; each part may use a share of what is
	// left of the budget, so that a deadline cuts the tail of the big alphabet and nothing else
	// two schemas that share one added type object
	c.Part("histories over the shared-type alphabet", 0.15)
	historiesOver(c, sharedAlphabet(), depth+1, "shared_types_")
	// a type that extends another one, used alone (failing) and inside a schema that knows its base
	c.Part("histories over the heir alphabet", 0.15)
	historiesOver(c, heirAlphabet(), depth+1, "heir_types_")
	// schemas without an example next to loads that fail half-way
	c.Part("histories over the empty-schema alphabet", 0.15)
	historiesOver(c, emptyAlphabet(), depth+1, "empty_schemas_")
	c.EndPart()
	historiesOver(c, alphabet(), depth, "")
}

func historiesOver(c *ev.Ctx, ops []opT, depth int, tag string) {
	fresh := make([]string, len(ops))
	for i := range ops {
		shim.RunEnv(nil, func() { fresh[i], _ = ops[i].run(newPool()) })
	}
	c.Bound(tag+"operations", len(ops))
	c.Bound(tag+"history_depth", depth)
	seenPrefix := map[string]bool{}
	eval := func(hist []int, withEnv bool) {
		var d string
		e := shim.RunEnv(nil, func() { d = runHistory(ops, fresh, hist) })
		c.Inc("traces_validated_against_impl")
		c.Add("transitions", int64(len(hist)))
		c.Eval(len(hist) > 1)
		k := tag + fmt.Sprint(hist)
		if !seenPrefix[k] {
			seenPrefix[k] = true
			c.Inc("states")
		}
		if len(hist) == 3 {
			c.Sample("history-3", names(ops, hist))
		}
		if d != "" {
			reportHistory(c, ops, fresh, hist, nil, d)
		}
		if !withEnv {
			return
		}
		// (c) every single pool-answer deviation
		for i, dec := range e.Decisions {
			for alt := 1; alt < dec.Options; alt++ {
				prefix := make([]int, i+1)
				prefix[i] = alt
				var d2 string
				shim.RunEnv(prefix, func() { d2 = runHistory(ops, fresh, hist) })
				c.Inc("traces_validated_against_impl")
				c.Inc("pool_answer_deviations")
				c.Eval(true)
				if d2 != "" {
					reportHistory(c, ops, fresh, hist, prefix, d2)
				}
			}
		}
	}
	var rec func(hist []int)
	rec = func(hist []int) {
		if len(hist) > 0 {
			eval(hist, len(hist) <= 2)
		}
		if len(hist) == depth || c.Expired() {
			return
		}
		for i := range ops {
			if len(hist) == 1 && !c.MineKey(fmt.Sprint(hist[0], ",", i)) {
				continue
			}
			if len(hist) == 0 && c.Shard != 0 {
				// singletons are evaluated by shard 0 only, but every shard descends
				rec2 := append(append([]int{}, hist...), i)
				for j := range ops {
					if c.MineKey(fmt.Sprint(i, ",", j)) {
						rec(append(append([]int{}, rec2...), j))
					}
				}
				continue
			}
			rec(append(append([]int{}, hist...), i))
		}
	}
	rec(nil)
	if c.Shard == 0 {
		// long structured histories
		for i := range ops {
			var h []int
			for k := 0; k < 12; k++ {
				h = append(h, i)
			}
			eval(h, false)
		}
		var rr []int
		for k := 0; k < 3; k++ {
			for i := range ops {
				rr = append(rr, i)
			}
		}
		eval(rr, false)
		var rev []int
		for i := len(ops) - 1; i >= 0; i-- {
			rev = append(rev, i, i)
		}
		eval(rev, false)
		c.Sample("history", names(ops, rr[:12]))
	}
}

func reportHistory(c *ev.Ctx, ops []opT, fresh []string, hist []int, env []int, d string) {
	run := func(h []int) string {
		var out string
		shim.RunEnv(env, func() { out = runHistory(ops, fresh, h) })
		return out
	}
	red := hist
	if env == nil {
		red = ev.Reduce(hist, func(h []int) [][]int {
			var out [][]int
			for i := range h {
				out = append(out, append(append([]int{}, h[:i]...), h[i+1:]...))
			}
			return out
		}, func(h []int) bool { return len(h) > 0 && run(h) != "" })
	}
	key := fmt.Sprintf("history;%v;env=%v", names(ops, red), env)
	if extendedInPlace(ops, fresh, red, env) {
		key = "history;added-type-using-allOf-is-extended-in-place-by-the-schema-it-was-added-to"
	}
	c.Violate(key, fmt.Sprintf("history %v (pool answers %v): %s", names(ops, red), env, run(red)), caseT{Kind: "history", History: names(ops, red), Env: env})
}

// extendedInPlace recognises ONE recorded defect by what it does, not by where it shows: the first
// deviating step is an operation on the type object C (which extends @base and fails alone, @base being
// unknown to it), an earlier step used S3 (to which C was added together with @base), and the deviating
// result is exactly what the same operation returns on a twin of C that knows @base - i.e. S3's compilation
// has extended the shared type object in place. Any other deviation keeps its own key.
func extendedInPlace(ops []opT, fresh []string, hist []int, env []int) bool {
	step, got := -1, ""
	shim.RunEnv(env, func() {
		p := newPool()
		for i, oi := range hist {
			var res string
			func() {
				defer func() {
					if r := recover(); r != nil {
						res = fmt.Sprintf("PANIC %v", r)
					}
				}()
				res, _ = ops[oi].run(p)
			}()
			if res != fresh[oi] {
				step, got = i, res
				return
			}
		}
	})
	if step < 1 || !strings.HasPrefix(ops[hist[step]].name, "C.") {
		return false
	}
	usedRoot := false
	for _, oi := range hist[:step] {
		if strings.HasPrefix(ops[oi].name, "S3.") {
			usedRoot = true
		}
	}
	if !usedRoot {
		return false
	}
	var twin string
	shim.RunEnv(nil, func() {
		p := newPool()
		p.C = jschema.New("@child", childText)
		p.C.AddType("@base", jschema.New("@base", baseText))
		twin, _ = ops[hist[step]].run(p)
	})
	return got == twin
}

// ---- (b) map order --------------------------------------------------------------------------------------

func observeCase(cs sc.Case, docs []string) string {
	var b strings.Builder
	s, r := lib.Check(cs.Spec())
	fmt.Fprintf(&b, "check=%s;", r.Full())
	if s == nil {
		return b.String()
	}
	for _, d := range docs {
		fmt.Fprintf(&b, "%s;", lib.Validate(s, d).Full())
	}
	ex, err := s.Example()
	fmt.Fprintf(&b, "ex=%s %s;", ex, lib.FromErr(err).Full())
	u, err := s.UsedUserTypes()
	fmt.Fprintf(&b, "used=%v %s;", u, lib.FromErr(err).Full())
	if a, err := s.GetAST(); err == nil {
		j, _ := stdjson.Marshal(a)
		b.Write(j)
	}
	return b.String()
}

func mapOrderCases(thorough bool, f func(sc.Case, []string)) {
	docs := []string{`{"a":1}`, `{"k":1}`, `{"a":1,"b":"s","c":true,"r":1}`, `{"ab":1,"x":"s"}`, `{"p":1}`, `[1]`, `"s"`, `1`, `{"a":1,"z":"q","y":2}`, `{}`}
	n := 0
	c03.ForEachSchema(thorough, func(cs sc.Case) {
		n++
		if thorough || n%23 == 0 {
			f(cs, docs)
		}
	})
	m := 0
	c09.ForEachSchema(func(cs sc.Case) {
		m++
		if thorough || m%11 == 0 {
			f(cs, docs)
		}
	})
	// objects with several shortcuts / required keys / allOf parents: the sites that iterate maps
	kt := func(rule gen.Rule) *gen.Node { return gen.Str(`"ab"`).With(rule) }
	multi := sc.Case{Root: gen.Obj(gen.PS("@K", gen.Int("1")), gen.PS("@L", gen.Str(`"s"`)), gen.P("x", gen.Str(`"s"`)), gen.P("y", gen.Int("1")), gen.P("z", gen.Bool("true"))),
		Types: []sc.TypeDecl{{Name: "@K", Body: kt(gen.R("minLength", "1"))}, {Name: "@L", Body: kt(gen.R("maxLength", "3"))}}}
	mdocs := []string{`{"ab":1,"x":"s","y":1,"z":true}`, `{"ab":"s","x":"s","y":1,"z":true}`, `{"a":1,"abc":"s","x":"s","y":1,"z":true}`, `{"x":"s"}`, `{}`, `{"q":1,"r":2,"s":3}`}
	f(multi, mdocs)
	lit := func(s string) gen.RuleItem { return gen.RuleItem{Lit: s} }
	allof := sc.Case{Root: gen.Obj(gen.P("r", gen.Int("1"))).With(gen.RL("allOf", lit(`"@P1"`), lit(`"@P2"`), lit(`"@P3"`))),
		Types: []sc.TypeDecl{{Name: "@P1", Body: gen.Obj(gen.P("a", gen.Int("1")))}, {Name: "@P2", Body: gen.Obj(gen.P("b", gen.Str(`"s"`)))}, {Name: "@P3", Body: gen.Obj(gen.P("c", gen.Bool("true"))).With(gen.R("allOf", `"@P4"`))}, {Name: "@P4", Body: gen.Obj(gen.P("d", gen.Null()))}}}
	f(allof, []string{`{"r":1,"a":1,"b":"s","c":true,"d":null}`, `{"r":1}`, `{}`, `{"a":1,"b":"s","c":true,"d":null}`, `{"r":1,"a":"x","b":1,"c":1,"d":1}`})
	bad := sc.Case{Root: gen.Obj(gen.P("a", gen.Ref("@M1")), gen.P("b", gen.Ref("@M2")), gen.P("c", gen.Int("1").With(gen.R("min", "5")))), Types: []sc.TypeDecl{{Name: "@T", Body: gen.Int("1")}}}
	f(bad, []string{`{}`})
	// errors located inside added types (also inside the unnamed types of their
	// or-alternatives): which type the checker visits first is a map order
	for _, body := range []*gen.Node{
		gen.Obj(gen.P("p", gen.Ref("@T", "@X"))),
		gen.Obj(gen.P("first", gen.Int("1")), gen.P("p", gen.Ref("@X", "@T")), gen.P("q", gen.Ref("@Y"))),
		gen.Arr(gen.Ref("@X", "@Y")),
		gen.Obj(gen.P("p", gen.Int("1").With(gen.RL("or", gen.RuleItem{Set: []gen.Rule{gen.R("type", `"@X"`), gen.R("min", "1")}}, gen.RuleItem{Set: []gen.Rule{gen.R("type", `"integer"`)}})))),
		gen.Obj(gen.P("p", gen.Int("1").With(gen.R("min", "5"))), gen.P("q", gen.Ref("@T", "@U"))),
	} {
		for _, root := range []*gen.Node{gen.Ref("@T"), gen.Obj(gen.P("k", gen.Ref("@T")), gen.P("l", gen.Ref("@U"))), gen.Arr(gen.Ref("@U", "@T"))} {
			for _, mesh := range []bool{false, true} {
				f(sc.Case{Root: root, Mesh: mesh, Types: []sc.TypeDecl{{Name: "@T", Body: body}, {Name: "@U", Body: gen.Obj(gen.P("u", gen.Ref("@T", "@U").With(gen.R("optional", "true"))))}}}, []string{`{}`})
			}
		}
	}
	// two added types with an error each: which one Check reports must not depend on the map order
	for _, mesh := range []bool{false, true} {
		f(sc.Case{Root: gen.Obj(gen.P("p", gen.Ref("@A")), gen.P("q", gen.Ref("@B"))), Mesh: mesh, Types: []sc.TypeDecl{
			{Name: "@A", Body: gen.Obj(gen.P("x", gen.Int("1").With(gen.R("min", "5"))))},
			{Name: "@B", Body: gen.Obj(gen.P("y", gen.Int("1").With(gen.R("min", "6"))))},
			{Name: "@C", Body: gen.Obj(gen.P("z", gen.Int("1").With(gen.RL("or", gen.RuleItem{Set: []gen.Rule{gen.R("type", `"string"`), gen.R("minLength", "1")}}, gen.RuleItem{Set: []gen.Rule{gen.R("type", `"boolean"`)}}))))}}}, []string{`{}`})
	}
	// the same with names that a comparator which is not a total order would tie (letter case only,
	// one a prefix of the other, equal lengths, punctuation only, order that flips when case is folded):
	// wherever the library puts type names in a "fixed" order, ties fall back to the map order
	tiePairs := [][2]string{{"@Pet", "@pet"}, {"@a", "@ab"}, {"@B", "@a"}}
	if thorough {
		tiePairs = append(tiePairs, [2]string{"@ab", "@ba"}, [2]string{"@a-1", "@a_1"})
	}
	for _, pr := range tiePairs {
		f(sc.Case{Root: gen.Obj(gen.P("p", gen.Ref(pr[0])), gen.P("q", gen.Ref(pr[1]))), Types: []sc.TypeDecl{
			{Name: pr[0], Body: gen.Obj(gen.P("x", gen.Int("1").With(gen.R("min", "5"))))},
			{Name: pr[1], Body: gen.Str(`"abc"`).With(gen.R("maxLength", "1"))}}}, []string{`{}`})
	}
	// an error inside a node inherited through allOf: it lies in the parent's file
	for _, root := range []*gen.Node{gen.Ref("@A"), gen.Obj(gen.P("k", gen.Ref("@A")))} {
		for _, mesh := range []bool{false, true} {
			f(sc.Case{Root: root, Mesh: mesh, Types: []sc.TypeDecl{
				{Name: "@A", Body: gen.Obj().With(gen.R("allOf", `"@B"`))},
				{Name: "@B", Body: gen.Obj(gen.P("a_rather_long_key_to_move_the_error_behind_the_child", gen.Int("1")), gen.P("q", gen.Ref("@X")))}}}, []string{`{}`})
		}
	}
	orr := sc.Case{Root: gen.Int("1").With(gen.RL("or", gen.RuleItem{Set: []gen.Rule{gen.R("type", `"integer"`), gen.R("min", "0")}}, gen.RuleItem{Set: []gen.Rule{gen.R("type", `"string"`), gen.R("maxLength", "2")}}, gen.RuleItem{Set: []gen.Rule{gen.R("type", `"boolean"`)}}))}
	f(orr, []string{"1", "-1", `"ab"`, `"abc"`, "true", "null", "{}"})
}

func mapOrder(c *ev.Ctx) {
	devs := 1
	if c.Thorough() {
		devs = 2
	}
	c.Bound("map_order_deviations", devs)
	mapOrderCases(c.Thorough(), func(cs sc.Case, docs []string) {
		if !c.Mine() {
			return
		}
		if c.Expired() {
			return
		}
		var base string
		e := shim.RunEnv(nil, func() { base = observeCase(cs, docs) })
		c.Inc("traces_validated_against_impl")
		c.Inc("map_order_scenarios")
		c.Sample(fmt.Sprintf("maporder-%d-decisions", len(e.Decisions)/4), map[string]any{"scenario": cs.Describe(), "order_decisions": len(e.Decisions)})
		c.Eval(len(e.Decisions) > 0)
		c.Add("transitions", int64(len(e.Decisions)))
		var explore func(prefix []int, from int, left int)
		explore = func(prefix []int, from int, left int) {
			var cur *shim.Execution
			var obs string
			cur = shim.RunEnv(prefix, func() { obs = observeCase(cs, docs) })
			if len(prefix) > 0 {
				c.Inc("traces_validated_against_impl")
				c.Inc("map_order_runs")
				c.Eval(true)
				if obs != base {
					site := ""
					for i, d := range cur.Decisions {
						if i < len(prefix) && prefix[i] != 0 {
							site += d.Kind + " "
						}
					}
					c.Violate("maporder;"+strings.TrimSpace(site)+";"+cs.Describe(), fmt.Sprintf("%s: results change when %s iterates in another order: default %.200q, deviated %.200q", cs.Describe(), strings.TrimSpace(site), base, obs), caseT{Kind: "maporder", Env: prefix, Case: &cs})
				}
			}
			if left == 0 {
				return
			}
			for i := from; i < len(cur.Decisions); i++ {
				if !strings.HasPrefix(cur.Decisions[i].Kind, "maporder:") {
					continue
				}
				for alt := 1; alt < cur.Decisions[i].Options; alt++ {
					np := make([]int, i+1)
					copy(np, prefix)
					np[i] = alt
					explore(np, i+1, left-1)
				}
			}
		}
		explore(nil, 0, devs)
	})
	if c.Shard == 0 {
		// site coverage is per process; report this shard's view (every shard sees a slice of the corpus)
	}
	reached := shim.SitesReached()
	for s := range reached {
		c.Site(s)
	}
}

func run(c *ev.Ctx) {
	twins(c)
	c.Part("stream merges", 0.1)
	streamx.Run(c)
	c.Part("construction paths", 0.15)
	constructionPaths(c)
	c.Part("map orders", 0.4)
	mapOrder(c)
	c.EndPart()
	histories(c)
	// static site inventory (written by the overlay generator)
	if data, err := os.ReadFile(os.Getenv("VERIF_DIR") + "/.build/overlay/sites.json"); err == nil {
		var inv struct {
			Sites []struct {
				ID string `json:"id"`
			} `json:"range_over_map_sites"`
		}
		if stdjson.Unmarshal(data, &inv) == nil {
			var ids []string
			for _, s := range inv.Sites {
				ids = append(ids, s.ID)
			}
			sort.Strings(ids)
			c.Bound("static_range_over_map_sites", ids)
		}
	}
}

// finish reports the static range-over-map sites that no scenario reached
// with at least two keys (uncovered, not silently passed).
func finish(m *ev.Merged) {
	inv, ok := m.Bounds["static_range_over_map_sites"].([]interface{})
	if !ok {
		return
	}
	var uncovered []string
	for _, s := range inv {
		if id, ok := s.(string); ok && !m.Sites[id] {
			uncovered = append(uncovered, id)
		}
	}
	m.Bounds["range_over_map_sites_never_reached_with_2_keys"] = uncovered
}

func replay(raw stdjson.RawMessage) (bool, string) {
	var cs caseT
	if err := stdjson.Unmarshal(raw, &cs); err != nil {
		return false, err.Error()
	}
	if cs.Kind == "streams" {
		var sc streamx.Case
		if err := stdjson.Unmarshal(raw, &sc); err != nil {
			return false, err.Error()
		}
		d := streamx.RunMerge(sc)
		return d != "", d
	}
	if cs.Kind == "history" {
		ops := append(append(append(alphabet(), sharedAlphabet()...), heirAlphabet()...), emptyAlphabet()...)
		fresh := make([]string, len(ops))
		for i := range ops {
			shim.RunEnv(nil, func() { fresh[i], _ = ops[i].run(newPool()) })
		}
		var hist []int
		for _, n := range cs.History {
			for i, o := range ops {
				if o.name == n {
					hist = append(hist, i)
					break // equally named operations of different alphabets are the same operation
				}
			}
		}
		var d string
		shim.RunEnv(cs.Env, func() { d = runHistory(ops, fresh, hist) })
		return d != "", d
	}
	if cs.Kind == "paths" && cs.Case != nil && len(cs.Env) == 1 {
		docs := []string{`{"a":1}`, `{"k":1}`, `{"k":"ab","l":1}`, `[1]`, `"ab"`, `1`, `{}`, `{"k":1.5}`, `null`}
		sp := cs.Case.Spec()
		var a, b string
		shim.RunEnv(nil, func() { a = observeSpec(sp, docs) })
		sp.Via = cs.Env[0]
		shim.RunEnv(nil, func() { b = observeSpec(sp, docs) })
		return a != b, fmt.Sprintf("string constructor %.150q, other constructor %.150q", a, b)
	}
	if cs.Case != nil {
		docs := []string{`{"a":1}`, `{}`}
		var a, b string
		shim.RunEnv(nil, func() { a = observeCase(*cs.Case, docs) })
		shim.RunEnv(cs.Env, func() { b = observeCase(*cs.Case, docs) })
		return a != b, fmt.Sprintf("default %.150q deviated %.150q", a, b)
	}
	return false, "unknown case"
}
