//go:build shim

package c11

import (
	stdjson "encoding/json"
	"fmt"

	shim "github.com/jsightapi/jsight-schema-go-library/verifshim"

	"github.com/jsightapi/jsight-schema-go-library/notations/jschema"
	"github.com/jsightapi/jsight-schema-go-library/rules/enum"

	"verif/internal/ev"
)

// twins: an object that serves another one - an enum rule added to a schema, a type object added to two
// schemas - answers like a twin made from the same text that serves nobody, before and after each use of
// the schemas it serves. (The history alphabets compare every object with ITSELF on a fresh pool, where it
// has been attached already; what attaching or using does to it is only visible against a detached twin.)
func twins(c *ev.Ctx) {
	enumObs := func(e *enum.Enum) string {
		v, err := e.Values()
		a, err2 := e.GetAST()
		j, _ := stdjson.Marshal(a)
		n, err3 := e.Len()
		return fmt.Sprintf("check=%s values=%v %s ast=%s %s len=%d %s", errStr(e.Check()), v, errStr(err), j, errStr(err2), n, errStr(err3))
	}
	schemaObs := func(s *jschema.Schema) string {
		ex, err := s.Example()
		a, err2 := s.GetAST()
		j, _ := stdjson.Marshal(a)
		u, err3 := s.UsedUserTypes()
		n, err4 := s.Len()
		return fmt.Sprintf("check=%s ex=%s %s ast=%s %s used=%v %s len=%d %s", errStr(s.Check()), ex, errStr(err), j, errStr(err2), u, errStr(err3), n, errStr(err4))
	}
	uses := []struct {
		name string
		f    func(p *pool)
	}{
		{"nothing", func(p *pool) {}},
		{"U.Check", func(p *pool) { _ = p.U.Check() }},
		{"U.Example", func(p *pool) { _, _ = p.U.Example() }},
		{"U.GetAST", func(p *pool) { _, _ = p.U.GetAST() }},
		{"S1.Check;S2.Check", func(p *pool) { _ = p.S1.Check(); _ = p.S2.Check() }},
		{"S2.Example;S1.Example", func(p *pool) { _, _ = p.S2.Example(); _, _ = p.S1.Example() }},
	}
	for ui, u := range uses {
		if !c.MineKey(fmt.Sprint("twins;", ui)) {
			continue
		}
		var eGot, eWant, bGot, bWant string
		shim.RunEnv(nil, func() {
			p := newPool()
			u.f(p)
			eGot = enumObs(p.E)
			bGot = schemaObs(p.B)
		})
		shim.RunEnv(nil, func() {
			eWant = enumObs(enum.New("@lvl", enumText))
			bWant = schemaObs(jschema.New("@base", baseText))
		})
		c.Eval(true)
		c.Inc("twin_comparisons")
		if eGot != eWant {
			c.Violate("twins;enum;"+u.name, fmt.Sprintf("the enum rule added to schema U answers %.300q after %s, a detached rule made from the same text answers %.300q", eGot, u.name, eWant), caseT{Kind: "twins", History: []string{u.name}})
		}
		if bGot != bWant {
			c.Violate("twins;type;"+u.name, fmt.Sprintf("the type object added to S1 and S2 answers %.300q after %s, a detached object made from the same text answers %.300q", bGot, u.name, bWant), caseT{Kind: "twins", History: []string{u.name}})
		}
	}
}
