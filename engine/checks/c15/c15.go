// Package c15: Example() emits well-formed JSON that its own schema accepts.
package c15

import (
	stdjson "encoding/json"
	"fmt"
	"time"

	"verif/checks/c09"
	"verif/checks/c16"
	"verif/checks/corpus"
	"verif/checks/sc"
	"verif/gen"
	"verif/internal/ev"
	"verif/internal/lib"
	"verif/ref/jsonpda"
	"verif/ref/refv"
)

func init() {
	ev.Register(&ev.Check{
		ID:          "C15",
		Level:       "exploration",
		Rule:        "every Check-accepted case of the C01 (all rule-free schemas <= 3/4 nodes, both configs), C03 (type references, or, allOf, additionalProperties, key shortcuts), C04 (34 rule slots x 13 contexts) and C09 (all fully inhabited type graphs over 1-2 types + ring/diamond families with optional/array/terminating edges, recursive child first/middle/last/only) generators plus the deep C09 family (two types, every pair of slots per object body, 7 roots), the heirs family (@h1 and @h2 extend @base - or @h2 extends @h1 - and a node of @base, nested object / body / two levels deep / array, holds every non-empty subset of optional references to @h1, @h2, @base; 6 roots) and hostile keys/strings: Example() must return nil error and bytes accepted by the reference PDA and encoding/json; Validate(Example()) on the same schema must succeed; for plain-JSON examples the bytes must equal the generator's compact rendering. Non-trivial = distinct accepted schema (rendered text + environment).",
		Run:         run,
		Replay:      replay,
		QuickBudget: 80 * time.Second,
		Assumptions: []string{"graphs in the class of the C09 known finding (required recursion accepted by Check) are excluded: no finite example exists for them"},
	})
}

func example(cs sc.Case) (ok bool, text string, chk lib.Res, desc string, dir string) {
	s, r := lib.Check(cs.Spec())
	if !r.OK {
		return false, "", r, "", ""
	}
	var ex []byte
	res := lib.Guard(func() error {
		b, err := s.Example()
		ex = append([]byte(nil), b...) // copy at once: the returned slice is library-owned
		return err
	})
	d := cs.Describe()
	if res.Panic != "" {
		return true, "", r, fmt.Sprintf("%s: Example() panics: %s", d, res.Panic), "panic"
	}
	// the example of a schema is the result of EVERY Example() call on it
	var ex2 []byte
	res2 := lib.Guard(func() error {
		b, err := s.Example()
		ex2 = append([]byte(nil), b...)
		return err
	})
	if res2.OK != res.OK || res2.Panic != "" || string(ex2) != string(ex) {
		return true, string(ex), r, fmt.Sprintf("%s: the first Example() returns %q (%s), a second call on the same schema %q (%s)", d, ex, res, ex2, res2), "unstable"
	}
	if !res.OK {
		return true, "", r, fmt.Sprintf("%s: Check succeeds but Example() fails: %s", d, res), "example-error"
	}
	if !jsonpda.Valid(ex) || !stdjson.Valid(ex) {
		return true, string(ex), r, fmt.Sprintf("%s: Example() returns %q which is not well-formed JSON", d, ex), "malformed"
	}
	if v := lib.Validate(s, string(ex)); !v.OK {
		return true, string(ex), r, fmt.Sprintf("%s: the schema rejects its own Example() %s: %s", d, ex, v), "self-rejected"
	}
	if want, plain := gen.ExampleJSON(cs.Root); plain && !usesAllOf(cs.Root) && want != string(ex) {
		return true, string(ex), r, fmt.Sprintf("%s: Example() = %s, the example without annotations and whitespace is %s", d, ex, want), "differs"
	}
	return true, string(ex), r, "", ""
}

// policyFails: the simulated cut-off policy produces no document or one the
// reference validator does not accept.
func policyFails(cs sc.Case) bool {
	d := simulate(cs)
	if d == nil {
		return true
	}
	return refv.Accepts(cs.Env(), cs.Root, d) != refv.Accept
}

func usesAllOf(n *gen.Node) bool {
	found := false
	n.Walk(func(x *gen.Node) { found = found || x.Rule("allOf") != nil })
	return found
}

func run(c *ev.Ctx) {
	seen := map[string]bool{}
	each := func(family string, cs sc.Case) {
		if !c.Mine() {
			return
		}
		if c.Expired() {
			return
		}
		key := cs.Describe()
		if seen[key] {
			return
		}
		seen[key] = true
		ok, text, _, desc, dir := example(cs)
		if !ok {
			c.Inc("check_rejected_" + family)
			return
		}
		c.Eval(true)
		c.Inc("accepted_" + family)
		if len(text) > 8 {
			c.Sample(family, map[string]any{"schema": cs.Spec().Text, "example": text})
		}
		if (dir == "self-rejected" || dir == "malformed") && policyFails(cs) {
			// Known class: the documented cut-off policy itself (first alternative,
			// omit the third nested occurrence of a type) yields a rejected example
			// on this graph. A library result that is invalid although the policy's
			// result is valid is a different violation and is reported below.
			c.Inc("cutoff_policy_" + dir)
			c.Violate(dir+";recursion-cut-off-policy", desc, cs)
			return
		}
		if dir == "example-error" && shortcutWithOrRule(cs) {
			// Known class: a type shortcut that also carries a written or rule of JSON types passes
			// Check and has no example. Decided by construction: the case holds such a node AND without
			// the or rules on those nodes the schema has an example that passes every clause.
			c.Inc("shortcut_with_or_rule")
			c.Violate("example-error;type-shortcut-with-or-rule", desc, cs)
			return
		}
		if dir != "" {
			red := ev.Reduce(cs, sc.GraphCands, func(x sc.Case) bool {
				ok2, _, _, _, d2 := example(x)
				if !ok2 || d2 != dir {
					return false
				}
				return !((dir == "self-rejected" || dir == "malformed") && policyFails(x))
			})
			red = sc.Canonical(red)
			_, _, _, desc, _ = example(red)
			c.Violate(dir+";"+red.Describe(), desc, red)
		}
	}
	corpus.ForEach(c.Thorough(), each)
	// two-type graphs with two-property bodies: a type that recurses both
	// directly and through an alias/or-alias of itself
	c09.ForEachSchemaDeep(func(cs sc.Case) { each("c09deep", cs) })
	// C16's family: one example value per kind of rule (numeric bounds, precision, regex, const, enum by
	// list and by name, or sets, shortcuts with rules, allOf, additionalProperties, item counts), alone,
	// as a property next to another one, optional, inside an array
	c16.AstFamily(func(cs sc.Case) { each("ast", cs) })
	// type shortcuts that carry WRITTEN rules next to the ones the library synthesises for them:
	// type: "mixed" (what the library itself writes for @A | @B), nullable, optional, alone and together
	{
		tdecl := func() []sc.TypeDecl {
			return []sc.TypeDecl{{Name: "@A", Body: gen.Int("1")}, {Name: "@B", Body: gen.Str(`"s"`)}, {Name: "@C", Body: gen.Obj(gen.P("k", gen.Int("1")))}}
		}
		mixed := gen.R("type", `"mixed"`)
		for _, names := range [][]string{{"@A", "@B"}, {"@B", "@A"}, {"@C", "@A", "@B"}, {"@A"}} {
			for _, rules := range [][]gen.Rule{{mixed}, {mixed, gen.R("nullable", "true")}, {gen.R("nullable", "true"), mixed}, {gen.R("nullable", "true")}, {gen.R("nullable", "false"), mixed}} {
				ref := gen.Ref(names...).With(rules...)
				each("shortcut-rules", sc.Case{Root: ref.Clone(), Types: tdecl()})
				each("shortcut-rules", sc.Case{Root: gen.Obj(gen.P("x", ref.Clone())), Types: tdecl()})
				each("shortcut-rules", sc.Case{Root: gen.Obj(gen.P("x", ref.Clone().With(gen.R("optional", "true"))), gen.P("y", gen.Int("1"))), Types: tdecl()})
				each("shortcut-rules", sc.Case{Root: gen.Arr(ref.Clone()), Types: tdecl()})
				each("shortcut-rules", sc.Case{Root: gen.Obj(gen.P("t", gen.Ref("@T"))), Types: append(tdecl(), sc.TypeDecl{Name: "@T", Body: ref.Clone()})})
			}
		}
	}
	// heirs that share an inherited node which refers back to them: @h1 and @h2 extend @base (or @h2
	// extends @h1), and a node of @base - a nested object, an array, the body itself - holds optional
	// references to the heirs and to the base; the inherited node is ONE object living in every heir
	opt := gen.R("optional", "true")
	refs := []gen.Prop{gen.P("p", gen.Ref("@h1").With(opt)), gen.P("q", gen.Ref("@h2").With(opt)), gen.P("r", gen.Ref("@base").With(opt))}
	for mask := 1; mask < 8; mask++ {
		var sel []gen.Prop
		for i, r := range refs {
			if mask&(1<<uint(i)) != 0 {
				sel = append(sel, gen.Prop{Key: r.Key, Val: r.Val.Clone()})
			}
		}
		clone := func() []gen.Prop {
			var o []gen.Prop
			for _, r := range sel {
				o = append(o, gen.Prop{Key: r.Key, Val: r.Val.Clone()})
			}
			return o
		}
		var arrItems []*gen.Node
		for _, r := range sel {
			arrItems = append(arrItems, gen.Ref(r.Val.Lit))
		}
		bases := []*gen.Node{
			gen.Obj(gen.P("sub", gen.Obj(clone()...))),
			gen.Obj(append([]gen.Prop{gen.P("id", gen.Int("1"))}, clone()...)...),
			gen.Obj(gen.P("sub", gen.Obj(gen.P("deep", gen.Obj(clone()...))))),
			gen.Obj(gen.P("list", gen.Arr(arrItems...))),
		}
		for _, base := range bases {
			for chain := 0; chain < 2; chain++ {
				h2parent := `"@base"`
				if chain == 1 {
					h2parent = `"@h1"`
				}
				types := []sc.TypeDecl{
					{Name: "@base", Body: base.Clone()},
					{Name: "@h1", Body: gen.Obj(gen.P("a", gen.Int("1"))).With(gen.R("allOf", `"@base"`))},
					{Name: "@h2", Body: gen.Obj(gen.P("b", gen.Int("2"))).With(gen.R("allOf", h2parent))},
				}
				for _, root := range []*gen.Node{gen.Ref("@h1"), gen.Ref("@h2"), gen.Ref("@base"), gen.Obj(gen.P("k", gen.Ref("@h1")), gen.P("l", gen.Ref("@h2"))), gen.Arr(gen.Ref("@h2"), gen.Ref("@h1")), gen.Obj(gen.P("own", gen.Int("1"))).With(gen.RL("allOf", gen.RuleItem{Lit: `"@h1"`}))} {
					var ts []sc.TypeDecl
					for _, t := range types {
						ts = append(ts, sc.TypeDecl{Name: t.Name, Body: t.Body.Clone()})
					}
					each("heirs", sc.Case{Root: root.Clone(), Types: ts})
				}
			}
		}
	}
	// big examples: objects of n properties and arrays of n items (examples from some hundred bytes to
	// > 16 KiB: the pooled buffers grow, are dropped, are reused), alone, followed by a small sibling, and
	// twice in a row; every case is also the "next example" of the case before it in this process
	for _, n := range []int{20, 60, 100, 150, 200, 300, 600, 1200} {
		var props []gen.Prop
		var items []*gen.Node
		for i := 0; i < n; i++ {
			props = append(props, gen.P(fmt.Sprintf("property_%04d", i), gen.Str(`"value"`)))
			items = append(items, gen.Str(fmt.Sprintf(`"item %04d"`, i)))
		}
		big := gen.Obj(props...)
		small := gen.Obj(gen.P("a", gen.Int("1")))
		each("big", sc.Case{Root: big})
		each("big", sc.Case{Root: small.Clone()})
		each("big", sc.Case{Root: gen.Arr(big.Clone(), small.Clone())})
		each("big", sc.Case{Root: gen.Obj(gen.P("first", big.Clone()), gen.P("then", small.Clone()), gen.P("list", gen.Arr(gen.Int("1"), gen.Int("2"))))})
		each("big", sc.Case{Root: gen.Arr(items...)})
		each("big", sc.Case{Root: gen.Arr(gen.Arr(items...), gen.Arr(gen.Int("1")))})
		each("big", sc.Case{Root: gen.Obj(gen.P("t", gen.Ref("@big")), gen.P("s", gen.Obj(gen.P("b", gen.Bool("true"))))), Types: []sc.TypeDecl{{Name: "@big", Body: big.Clone()}}})
	}
}

// shortcutWithOrRule: the case has type-shortcut nodes carrying an or rule, and dropping those or rules (and
// nothing else) yields a schema whose Example() passes every clause.
func shortcutWithOrRule(cs sc.Case) bool {
	x := cs.Clone()
	found := false
	strip := func(n *gen.Node) {
		n.Walk(func(m *gen.Node) {
			if m.Kind != gen.KRef || m.Rule("or") == nil {
				return
			}
			found = true
			var keep []gen.Rule
			for _, r := range m.Rules {
				if r.Name != "or" {
					keep = append(keep, r)
				}
			}
			m.Rules = keep
		})
	}
	strip(x.Root)
	for _, t := range x.Types {
		if t.Body != nil {
			strip(t.Body)
		}
	}
	if !found {
		return false
	}
	ok, _, _, _, dir := example(x)
	return ok && dir == ""
}

func replay(raw stdjson.RawMessage) (bool, string) {
	var cs sc.Case
	if err := stdjson.Unmarshal(raw, &cs); err != nil {
		return false, err.Error()
	}
	_, _, _, desc, dir := example(cs)
	return dir != "", desc
}
