package c15

import (
	"strings"

	"verif/checks/sc"
	"verif/gen"
)

// simulate reproduces the example builder's documented cut-off policy on the
// abstract schema: follow the first alternative of a type reference, expand a
// user type at most twice along one path ("do not process already processed
// type more than twice") and omit the reference beyond that; omitted children
// are dropped from their object/array. It returns nil when the root itself is
// omitted. The known C15 finding is exactly: this policy yields a document the
// schema rejects.
func simulate(cs sc.Case) *gen.JV {
	types := map[string]*gen.Node{}
	for _, t := range cs.Types {
		if t.Body != nil {
			types[t.Name] = t.Body
		}
	}
	counts := map[string]int{}
	var build func(n *gen.Node) *gen.JV
	collect := func(n *gen.Node, seen map[string]bool) []gen.Prop { return nil }
	var collectProps func(n *gen.Node, seen map[string]bool) []gen.Prop
	collectProps = func(n *gen.Node, seen map[string]bool) []gen.Prop {
		out := append([]gen.Prop{}, n.Props...)
		if a := n.Rule("allOf"); a != nil {
			var names []string
			if a.List {
				for _, it := range a.Items {
					names = append(names, gen.StrValue(it.Lit))
				}
			} else {
				names = []string{gen.StrValue(a.Val)}
			}
			for _, nm := range names {
				if seen[nm] {
					continue
				}
				seen[nm] = true
				if t, ok := types[nm]; ok && t.Kind == gen.KObj {
					out = append(out, collectProps(t, seen)...)
				}
			}
		}
		return out
	}
	_ = collect
	build = func(n *gen.Node) *gen.JV {
		switch n.Kind {
		case gen.KRef:
			name := strings.TrimSpace(strings.Split(n.Lit, "|")[0])
			t, ok := types[name]
			if !ok {
				return nil
			}
			if counts[name] > 1 {
				return nil
			}
			counts[name]++
			defer func() { counts[name]-- }()
			return build(t)
		case gen.KObj:
			var mem []gen.Member
			for _, p := range collectProps(n, map[string]bool{}) {
				v := build(p.Val)
				if v == nil {
					continue
				}
				key := p.Key
				if p.Shortcut {
					kt, ok := types[p.Key]
					if !ok || kt.Kind != gen.KStr {
						return nil
					}
					key = gen.StrValue(kt.Lit)
				}
				mem = append(mem, gen.Member{Key: key, Val: v})
			}
			return gen.JObj(mem...)
		case gen.KArr:
			var items []*gen.JV
			for _, it := range n.Items {
				if v := build(it); v != nil {
					items = append(items, v)
				}
			}
			return gen.JArr(items...)
		}
		return &gen.JV{Kind: n.Kind, Lit: n.Lit}
	}
	return build(cs.Root)
}
