// Package streamx: two live JSON documents read through NextLexeme in turns
// (shared by C06 and C11).
package streamx

import (
	"fmt"
	"io"
	"strings"

	jlib "github.com/jsightapi/jsight-schema-go-library"
	"github.com/jsightapi/jsight-schema-go-library/formats/json"

	"verif/internal/ev"
	"verif/internal/lib"
)

// (d) interleaved streams: two live documents read through NextLexeme in turns.
// ALL merges of the two call sequences are enumerated; in every merge each
// document must deliver exactly the events it delivers when read alone
// (operations on another Document object must not influence the result).

var streamTexts = []string{`[1]`, `{"a":true}`, `"s"`, `[[],{}]`, `{"k":[1,"x"]}`, `-0`}

func drainAlone(text string, trailing bool) []string {
	d := newStreamDoc(text, trailing)
	var out []string
	for i := 0; i < 100; i++ {
		e, done := stepDoc(d)
		out = append(out, e)
		if done {
			break
		}
	}
	return out
}

func newStreamDoc(text string, trailing bool) jlib.Document {
	if trailing {
		return json.New("d", text+" x", json.AllowTrailingNonSpaceCharacters())
	}
	return json.New("d", text)
}

func stepDoc(d jlib.Document) (ev string, done bool) {
	defer func() {
		if r := recover(); r != nil {
			ev, done = fmt.Sprintf("PANIC %v", r), true
		}
	}()
	lex, err := d.NextLexeme()
	if err != nil {
		if err == io.EOF {
			return "EOF", true
		}
		return streamErr(err), true
	}
	return fmt.Sprintf("%s[%d:%d]", lex.Type(), lex.Begin(), lex.End()), false
}

type Case struct {
	Kind  string `json:"kind"` // "streams"
	A, B  string
	TA    bool   `json:"a_trailing"`
	Merge string `json:"merge"` // sequence of 'a' / 'b'
}

func RunMerge(cs Case) string {
	sa, sb := drainAlone(cs.A, cs.TA), drainAlone(cs.B, false)
	da, db := newStreamDoc(cs.A, cs.TA), newStreamDoc(cs.B, false)
	ia, ib := 0, 0
	for _, c := range cs.Merge {
		if c == 'a' {
			e, _ := stepDoc(da)
			if ia >= len(sa) || e != sa[ia] {
				return fmt.Sprintf("documents %q and %q read in turns (%s): call %d on the first returns %s, read alone it returns %s", cs.A, cs.B, cs.Merge, ia+1, e, at(sa, ia))
			}
			ia++
		} else {
			e, _ := stepDoc(db)
			if ib >= len(sb) || e != sb[ib] {
				return fmt.Sprintf("documents %q and %q read in turns (%s): call %d on the second returns %s, read alone it returns %s", cs.A, cs.B, cs.Merge, ib+1, e, at(sb, ib))
			}
			ib++
		}
	}
	return ""
}

func at(s []string, i int) string {
	if i < len(s) {
		return s[i]
	}
	return "<nothing: the stream has ended>"
}

func Run(c *ev.Ctx) {
	n := 0
	for i, a := range streamTexts {
		for j, b := range streamTexts {
			if j < i {
				continue
			}
			for _, ta := range []bool{false, true} {
				n++
				if !c.MineKey(fmt.Sprintf("streams%d", n)) || c.Expired() {
					continue
				}
				la, lb := len(drainAlone(a, ta)), len(drainAlone(b, false))
				if la+lb > 19 {
					c.Inc("stream_pairs_skipped_too_long")
					continue
				}
				c.Inc("stream_pairs")
				var rec func(ra, rb int, merge []byte)
				found := false
				rec = func(ra, rb int, merge []byte) {
					if found {
						return
					}
					if ra == 0 && rb == 0 {
						cs := Case{"streams", a, b, ta, string(merge)}
						c.Inc("traces_validated_against_impl")
						c.Inc("stream_interleavings")
						c.Eval(strings.Contains(cs.Merge, "ab") && strings.Contains(cs.Merge, "ba"))
						if d := RunMerge(cs); d != "" {
							found = true // one (the first, lexicographically smallest) witness per pair
							c.Violate(fmt.Sprintf("streams;%q;%q;%v", a, b, ta), d, cs)
						}
						return
					}
					if ra > 0 {
						rec(ra-1, rb, append(merge, 'a'))
					}
					if rb > 0 {
						rec(ra, rb-1, append(merge, 'b'))
					}
				}
				rec(la, lb, nil)
			}
		}
	}
}

func streamErr(err error) string {
	r := lib.FromErr(err)
	return fmt.Sprintf("err code=%d pos=%d haspos=%v", r.Code, r.Pos, r.HasPos)
}
