// Package c13: meaning is invariant under surface syntax of schema and document.
package c13

import (
	stdjson "encoding/json"
	"fmt"
	"strings"
	"time"

	jlib "github.com/jsightapi/jsight-schema-go-library"

	"verif/checks/c03"
	"verif/checks/c04"
	"verif/checks/c08"
	"verif/checks/c16"
	"verif/checks/sc"
	"verif/gen"
	"verif/internal/ev"
	"verif/internal/lib"
)

func init() {
	ev.Register(&ev.Check{
		ID:             "C13",
		Level:          "exploration",
		Rule:           "schemas: accepted AND rejected canonical cases (34 rule slots x 13 contexts incl. corruptions, C03 construct families, C08 rule sets of <= 2 rules on 10 node kinds, the AST family of C16, every kind of rule value as first / last rule of a rule object) x the FULL product of spelling dimensions: line end {LF,CRLF,CR} x indentation {none,2 spaces,tab} x user comments {none,# at line ends,### blocks} x annotation form {inline, /* */ one line, /* */ three lines} x rule names {bare,quoted} x trailing comma {no,yes} (324 spellings + 54 with tabs / runs of blanks in front of annotations, comments and commas and at line ends; a # comment also follows inline annotations and notes) + notes added under the full product of line end x comments x annotation form (27 spellings) + all rule permutations (<= 3 rules): Check verdict, AST (comments blanked) and the verdict of every probe document must equal the canonical spelling's. documents: each probe x {compact, spaced, newline-heavy, CRLF} x all property permutations (<= 3 keys) x string spellings {plain, \\uXXXX for every char, \\/}: verdict equal under every schema. Entirely reference-free (metamorphic). Non-trivial = distinct (schema, spelling) or (schema, document spelling).",
		Run:            run,
		Replay:         replay,
		QuickBudget:    400 * time.Second,
		ThoroughBudget: 14 * time.Minute,
		Assumptions:    []string{"comments inside rule objects or between a key and its colon, and intra-line blanks inside empty brackets, are not in the statement's list and are not generated"},
	})
}

type observation struct {
	check string
	ast   string
	docs  []string
}

func astSansComments(a jlib.ASTNode) string {
	var walk func(n *jlib.ASTNode)
	var b strings.Builder
	var rule func(name string, r jlib.RuleASTNode)
	rule = func(name string, r jlib.RuleASTNode) {
		fmt.Fprintf(&b, "(%s %s %q %d", name, r.TokenType, r.Value, r.Source)
		if r.Properties != nil {
			r.Properties.EachSafe(func(k string, v jlib.RuleASTNode) { rule(k, v) })
		}
		for _, it := range r.Items {
			rule("", it)
		}
		b.WriteString(")")
	}
	walk = func(n *jlib.ASTNode) {
		fmt.Fprintf(&b, "[%s %s %q %q %v", n.TokenType, n.SchemaType, n.Key, n.Value, n.IsKeyShortcut)
		if n.Rules != nil {
			n.Rules.EachSafe(func(k string, v jlib.RuleASTNode) { rule(k, v) })
		}
		for i := range n.Children {
			walk(&n.Children[i])
		}
		b.WriteString("]")
	}
	walk(&a)
	return b.String()
}

func observe(sp lib.SchemaSpec, docs []string, sortRules bool) observation {
	s, r := lib.Check(sp)
	o := observation{check: "ok"}
	if !r.OK {
		o.check = "rejected"
		if r.Panic != "" {
			o.check = "panic:" + r.Panic
		}
		return o
	}
	if a, err := s.GetAST(); err == nil {
		o.ast = astSansComments(a)
	} else {
		o.ast = "error"
	}
	for _, d := range docs {
		v := lib.Validate(s, d)
		if v.OK {
			o.docs = append(o.docs, "ok")
		} else if v.Panic != "" {
			o.docs = append(o.docs, "panic")
		} else {
			o.docs = append(o.docs, "reject")
		}
	}
	return o
}

func diff(a, b observation, docs []string, astComparable bool) string {
	if a.check != b.check {
		return fmt.Sprintf("Check is %s in the canonical spelling but %s here", a.check, b.check)
	}
	if astComparable && a.ast != b.ast {
		return fmt.Sprintf("the AST (comments aside) differs: canonical %s, here %s", a.ast, b.ast)
	}
	for i := range a.docs {
		if i < len(b.docs) && a.docs[i] != b.docs[i] {
			return fmt.Sprintf("document %s: %s in the canonical spelling, %s here", docs[i], a.docs[i], b.docs[i])
		}
	}
	return ""
}

var probeDocs = []string{"1", "0", "-1", "5", "6", "1.5", `"s"`, `"ab"`, `"abc"`, `""`, "true", "null", "{}", "[]", `{"a":1}`, `{"a":"s"}`, `[1]`, `[1,2]`, `{"k":1}`, `{"p":1}`, `[true]`, `[true,1]`}

func spellings(thorough bool) []gen.Spelling {
	var out []gen.Spelling
	for _, eol := range []string{"\n", "\r\n", "\r"} {
		for _, ind := range []string{"  ", "", "\t"} {
			for cm := 0; cm < 3; cm++ {
				for ml := 0; ml < 3; ml++ {
					for _, q := range []bool{false, true} {
						for _, tc := range []bool{false, true} {
							out = append(out, gen.Spelling{EOL: eol, Indent: ind, Comments: cm, MultiLine: ml, QuoteNames: q, TrailComma: tc})
						}
					}
				}
			}
		}
	}
	// alignment blanks: a tab (and a run of blanks) in front of annotations,
	// comments and commas and at line ends, under the line-level dimensions
	i := 0
	for _, bl := range []string{"\t", " \t  "} {
		for _, eol := range []string{"\n", "\r\n", "\r"} {
			for cm := 0; cm < 3; cm++ {
				for ml := 0; ml < 3; ml++ {
					out = append(out, gen.Spelling{EOL: eol, Indent: []string{"  ", "\t", ""}[i%3], Comments: cm, MultiLine: ml, QuoteNames: i%2 == 1, TrailComma: i%4 >= 2, Blank: bl})
					i++
				}
			}
		}
	}
	// blanks inside annotations: a tab, a run of blanks, or nothing between the opening mark and the rule
	// object or note, before the closing mark, and as indentation of the body line of the three-line form
	for _, in := range []string{"\t", "\t\t", " \t ", "   ", "-"} {
		for _, eol := range []string{"\n", "\r\n", "\r"} {
			for ml := 0; ml < 3; ml++ {
				out = append(out, gen.Spelling{EOL: eol, Indent: []string{"  ", "\t", ""}[i%3], Comments: i % 2, MultiLine: ml, QuoteNames: i%2 == 1, TrailComma: i%4 >= 2, Inner: in})
				i++
			}
		}
	}
	// blanks inside the rule object: runs of spaces (and a tab) around colons, commas and braces, with
	// bare and with quoted rule names
	for _, gap := range []string{" ", "  ", "   ", "\t", " \t"} {
		for _, q := range []bool{false, true} {
			for ml := 0; ml < 3; ml++ {
				out = append(out, gen.Spelling{EOL: []string{"\n", "\r\n", "\r"}[i%3], Indent: []string{"  ", "\t", ""}[i%3], Comments: i % 2, MultiLine: ml, QuoteNames: q, TrailComma: i%4 >= 2, RuleGap: gap})
				i++
			}
		}
	}
	return out
}

type caseT struct {
	Case     sc.Case      `json:"case"`
	Spelling gen.Spelling `json:"spelling"`
	Perm     []int        `json:"rule_permutation,omitempty"`
	Doc      string       `json:"document_spelling,omitempty"`
	DocBase  string       `json:"document_canonical,omitempty"`
}

func permuteRules(cs sc.Case, f func(sc.Case)) {
	// permute the rules of the first node carrying 2..3 rules
	var target *gen.Node
	c := cs.Clone()
	c.Root.Walk(func(n *gen.Node) {
		if target == nil && len(n.Rules) >= 2 && len(n.Rules) <= 3 {
			target = n
		}
	})
	if target == nil {
		return
	}
	orig := append([]gen.Rule{}, target.Rules...)
	idx := []int{0, 1, 2}[:len(orig)]
	var rec func(k int)
	rec = func(k int) {
		if k == len(idx) {
			for i, j := range idx {
				target.Rules[i] = orig[j]
			}
			f(c.Clone())
			return
		}
		for i := k; i < len(idx); i++ {
			idx[k], idx[i] = idx[i], idx[k]
			rec(k + 1)
			idx[k], idx[i] = idx[i], idx[k]
		}
	}
	rec(0)
	copy(target.Rules, orig)
}

func schemaCases(thorough bool, f func(string, sc.Case)) {
	c04.ForEachSchemaWithCorruptions(func(cs sc.Case) { f("c04", cs) })
	n := 0
	c03.ForEachSchema(thorough, func(cs sc.Case) {
		n++
		if thorough || n%7 == 0 {
			f("c03", cs)
		}
	})
	c08.ForEachSchema(2, func(cs sc.Case) { f("c08", cs) })
	orSetFamily(func(cs sc.Case) { f("orsets", cs) })
	c16.AstFamily(func(cs sc.Case) { f("ast", cs) })
	lastRuleFamily(func(cs sc.Case) { f("lastrule", cs) })
}

// lastRuleFamily: every kind of rule VALUE (literal, string, inline list, list of
// rule-sets, named enum reference, type reference) as the last and as the first
// rule of a rule object, on a property that is the last / not the last of its object.
func lastRuleFamily(f func(sc.Case)) {
	lit := func(s string) gen.RuleItem { return gen.RuleItem{Lit: s} }
	types := []sc.TypeDecl{{Name: "@A", Body: gen.Int("1")}, {Name: "@O", Body: gen.Obj(gen.P("z", gen.Int("1")))}, {Name: "@E", Enum: []string{"1", "2"}}}
	type rv struct {
		ex   *gen.Node
		rule gen.Rule
	}
	vals := []rv{
		{gen.Int("1"), gen.R("enum", "@E")},
		{gen.Int("1"), gen.R("type", `"@A"`)},
		{gen.Int("1"), gen.R("min", "1")},
		{gen.Int("1"), gen.RL("enum", lit("1"), lit(`"x"`))},
		{gen.Int("1"), gen.RL("or", gen.RuleItem{Set: []gen.Rule{gen.R("type", `"integer"`)}}, lit(`"@A"`))},
		{gen.Str(`"ab"`), gen.R("regex", `"^a"`)},
		{gen.Bool("true"), gen.R("const", "true")},
		{gen.Obj(), gen.R("allOf", `"@O"`)},
		{gen.Obj(), gen.R("additionalProperties", `"@A"`)},
		{gen.Arr(gen.Int("1")), gen.R("maxItems", "2")},
	}
	for _, v := range vals {
		for _, lastRule := range []bool{true, false} {
			rules := []gen.Rule{gen.R("optional", "true"), v.rule}
			if !lastRule {
				rules = []gen.Rule{v.rule, gen.R("optional", "true")}
			}
			n := v.ex.Clone().With(rules...)
			f(sc.Case{Root: gen.Obj(gen.P("c", n)), Types: types})
			f(sc.Case{Root: gen.Obj(gen.P("c", n.Clone()), gen.P("d", gen.Int("2"))), Types: types})
			f(sc.Case{Root: gen.Obj(gen.P("a", gen.Obj(gen.P("c", n.Clone())))), Types: types})
		}
	}
}

// orSetFamily: or-lists whose inline rule-sets use every rule name that is
// legal inside a rule-set (so that quoted/bare spelling reaches nested names).
func orSetFamily(f func(sc.Case)) {
	set := func(rs ...gen.Rule) gen.RuleItem { return gen.RuleItem{Set: rs} }
	lit := func(s string) gen.RuleItem { return gen.RuleItem{Lit: s} }
	types := []sc.TypeDecl{{Name: "@T", Body: gen.Int("1")}}
	sets := []gen.RuleItem{
		set(gen.R("type", `"integer"`), gen.R("min", "0")),
		set(gen.R("type", `"string"`), gen.R("maxLength", "2")),
		set(gen.R("type", `"@T"`)),
		set(gen.RL("enum", lit("1"), lit("2"))),
		set(gen.RL("enum", lit(`"ab"`), lit("true"))),
		set(gen.R("min", "0"), gen.R("max", "5")),
		set(gen.R("minLength", "1")),
		set(gen.R("type", `"string"`), gen.R("regex", `"^a"`)),
		set(gen.R("type", `"float"`), gen.R("precision", "1")),
		set(gen.R("type", `"boolean"`)),
	}
	for i, a := range sets {
		for j, b := range sets {
			if i == j {
				continue
			}
			for _, ex := range []*gen.Node{gen.Int("1"), gen.Str(`"ab"`)} {
				n := ex.Clone().With(gen.RL("or", a, b))
				f(sc.Case{Root: n, Types: types})
				f(sc.Case{Root: gen.Obj(gen.P("p", ex.Clone().With(gen.RL("or", a, lit(`"@T"`), b), gen.R("optional", "true")))), Types: types})
			}
		}
	}
}

// noteSpellings: the line-level dimensions (line end x user comments x annotation
// form) in full product, the token-level ones alternating.
var noteSpellings = func() []gen.Spelling {
	var out []gen.Spelling
	i := 0
	for _, eol := range []string{"\n", "\r\n", "\r"} {
		for cm := 0; cm < 3; cm++ {
			for ml := 0; ml < 3; ml++ {
				out = append(out, gen.Spelling{EOL: eol, Indent: []string{"  ", "\t", ""}[i%3], Comments: cm, MultiLine: ml, QuoteNames: i%2 == 1, TrailComma: i%4 >= 2, Blank: []string{"", "\t"}[i%2]})
				i++
			}
		}
	}
	return out
}()

func hasNote(cs sc.Case) bool {
	found := false
	cs.Root.Walk(func(n *gen.Node) { found = found || n.Note != "" })
	return found
}

func run(c *ev.Ctx) {
	unicodeDocuments(c)
	sps := spellings(c.Thorough())
	c.Bound("spellings", len(sps))
	seen := map[string]bool{}
	schemaCases(c.Thorough(), func(family string, cs sc.Case) {
		if !c.Mine() {
			return
		}
		if c.Expired() {
			return
		}
		key := cs.Describe()
		if seen[key] {
			return
		}
		seen[key] = true
		docs := append([]string{}, probeDocs...)
		if ex, ok := gen.ExampleJSON(cs.Root); ok {
			docs = append(docs, ex)
		}
		base := observe(cs.Spec(), docs, false)
		c.Inc("schemas_" + family)
		c.Inc("base_" + base.check)
		for _, sp := range sps {
			o := observe(cs.SpecWith(sp), docs, false)
			c.Eval(true)
			if d := diff(base, o, docs, true); d != "" {
				reportSchema(c, cs, sp, nil, d)
			}
		}
		// notes: adding / dropping a note must not change anything but the comment
		withNote := cs.Clone()
		withNote.Root.Walk(func(n *gen.Node) {
			if n.Note == "" {
				n.Note = "a note"
			}
		})
		for _, sp := range noteSpellings {
			o := observe(withNote.SpecWith(sp), docs, false)
			c.Eval(true)
			if d := diff(base, o, docs, true); d != "" {
				reportSchema(c, withNote, sp, nil, "after adding notes: "+d)
			}
		}
		// rule order
		permuteRules(cs, func(p sc.Case) {
			o := observe(p.Spec(), docs, false)
			c.Eval(true)
			if d := diff(base, o, docs, false); d != "" {
				reportSchema(c, p, gen.Canonical, nil, "after reordering the rules: "+d)
			}
		})
		if cs.Root.Size() > 2 {
			c.Sample(family, cs.SpecWith(sps[len(sps)-1]).Text)
		}
		// document spellings
		if base.check == "ok" {
			documentSpellings(c, cs)
		}
	})
}

func reportSchema(c *ev.Ctx, cs sc.Case, sp gen.Spelling, perm []int, d string) {
	// reduce the spelling towards canonical one dimension at a time
	docs := append([]string{}, probeDocs...)
	if ex, ok := gen.ExampleJSON(cs.Root); ok {
		docs = append(docs, ex)
	}
	bad := func(x gen.Spelling) bool {
		return diff(observe(cs.Spec(), docs, false), observe(cs.SpecWith(x), docs, false), docs, true) != ""
	}
	red := sp
	if bad(sp) {
		red = ev.Reduce(sp, func(x gen.Spelling) []gen.Spelling {
			var out []gen.Spelling
			if x.EOL != "\n" {
				y := x
				y.EOL = "\n"
				out = append(out, y)
			}
			if x.Indent != "  " {
				y := x
				y.Indent = "  "
				out = append(out, y)
			}
			if x.Comments != 0 {
				y := x
				y.Comments = 0
				out = append(out, y)
			}
			if x.MultiLine != 0 {
				y := x
				y.MultiLine = 0
				out = append(out, y)
			}
			if x.QuoteNames {
				y := x
				y.QuoteNames = false
				out = append(out, y)
			}
			if x.Blank != "" {
				y := x
				y.Blank = ""
				out = append(out, y)
			}
			if x.TrailComma {
				y := x
				y.TrailComma = false
				out = append(out, y)
			}
			return out
		}, bad)
	}
	// reduce the schema under the reduced spelling
	redCase := ev.Reduce(cs, sc.Cands, func(x sc.Case) bool {
		xd := append([]string{}, probeDocs...)
		if ex, ok := gen.ExampleJSON(x.Root); ok {
			xd = append(xd, ex)
		}
		return diff(observe(x.Spec(), xd, false), observe(x.SpecWith(red), xd, false), xd, true) != ""
	})
	key := fmt.Sprintf("schema-spelling;%+v;%s", red, redCase.Describe())
	if !bad(sp) {
		key = fmt.Sprintf("schema-variant;%s;%s", d[:20], cs.Describe())
		redCase = cs
	}
	c.Violate(key, fmt.Sprintf("%s spelled as %q: %s", redCase.Describe(), redCase.SpecWith(red).Text, d), caseT{Case: redCase, Spelling: red})
}

// ---- documents ---------------------------------------------------------------

func uEscape(lit string) string {
	s := gen.StrValue(lit)
	var b strings.Builder
	b.WriteByte('"')
	for _, r := range s {
		if r < 0x10000 {
			fmt.Fprintf(&b, `\u%04x`, r)
		} else {
			b.WriteRune(r)
		}
	}
	b.WriteByte('"')
	return b.String()
}

func renderDoc(v *gen.JV, style int, strStyle int) string {
	sep, colon, open, close := ",", ":", "", ""
	switch style {
	case 1:
		sep, colon, open, close = " , ", " : ", " ", " "
	case 2:
		sep, colon, open, close = ",\n", ":\n", "\n", "\n"
	case 3:
		sep, colon, open, close = ",\r\n\t", ": ", "\r\n\t", "\r\n"
	}
	str := func(l string) string {
		switch strStyle {
		case 1:
			return uEscape(l)
		case 2:
			return strings.ReplaceAll(l, "/", `\/`)
		}
		return l
	}
	var rec func(v *gen.JV) string
	rec = func(v *gen.JV) string {
		switch v.Kind {
		case gen.KObj:
			if len(v.Mem) == 0 {
				return "{}"
			}
			var parts []string
			for _, m := range v.Mem {
				parts = append(parts, str(gen.QuoteJSON(m.Key))+colon+rec(m.Val))
			}
			return "{" + open + strings.Join(parts, sep) + close + "}"
		case gen.KArr:
			if len(v.Arr) == 0 {
				return "[]"
			}
			var parts []string
			for _, a := range v.Arr {
				parts = append(parts, rec(a))
			}
			return "[" + open + strings.Join(parts, sep) + close + "]"
		case gen.KStr:
			return str(v.Lit)
		}
		return v.Lit
	}
	out := rec(v)
	if style == 2 {
		out = "\n" + out + "\n"
	}
	return out
}

func exampleJV(n *gen.Node) *gen.JV {
	switch n.Kind {
	case gen.KObj:
		var m []gen.Member
		for _, p := range n.Props {
			if p.Shortcut {
				return nil
			}
			v := exampleJV(p.Val)
			if v == nil {
				return nil
			}
			m = append(m, gen.Member{Key: p.Key, Val: v})
		}
		return gen.JObj(m...)
	case gen.KArr:
		var a []*gen.JV
		for _, it := range n.Items {
			v := exampleJV(it)
			if v == nil {
				return nil
			}
			a = append(a, v)
		}
		return gen.JArr(a...)
	case gen.KRef:
		return nil
	}
	return &gen.JV{Kind: n.Kind, Lit: n.Lit}
}

func permuteMembers(v *gen.JV, f func(*gen.JV)) {
	if v.Kind != gen.KObj || len(v.Mem) < 2 || len(v.Mem) > 3 {
		f(v)
		return
	}
	idx := make([]int, len(v.Mem))
	for i := range idx {
		idx[i] = i
	}
	var rec func(k int)
	rec = func(k int) {
		if k == len(idx) {
			m := make([]gen.Member, len(idx))
			for i, j := range idx {
				m[i] = v.Mem[j]
			}
			f(gen.JObj(m...))
			return
		}
		for i := k; i < len(idx); i++ {
			idx[k], idx[i] = idx[i], idx[k]
			rec(k + 1)
			idx[k], idx[i] = idx[i], idx[k]
		}
	}
	rec(0)
}

var structuredDocs = []*gen.JV{
	gen.JObj(gen.Member{Key: "a", Val: gen.JInt("1")}, gen.Member{Key: "b", Val: gen.JStr(`"s/t"`)}),
	gen.JObj(gen.Member{Key: "x", Val: gen.JInt("1")}, gen.Member{Key: "a", Val: gen.JStr(`"ab"`)}, gen.Member{Key: "y", Val: gen.JStr(`"s"`)}),
	gen.JObj(gen.Member{Key: "k", Val: gen.JInt("1")}, gen.Member{Key: "l", Val: gen.JInt("1")}),
	gen.JArr(gen.JStr(`"a/b"`), gen.JObj(gen.Member{Key: "a", Val: gen.JNull()})),
	gen.JStr(`"a@b.cc"`), gen.JStr(`"http://a.b/c"`), gen.JStr(`"2024-02-29"`), gen.JStr(`"ab"`), gen.JStr(`"a"`),
}

func documentSpellings(c *ev.Ctx, cs sc.Case) {
	s, r := lib.Check(cs.Spec())
	if !r.OK {
		return
	}
	docs := append([]*gen.JV{}, structuredDocs...)
	if ex := exampleJV(cs.Root); ex != nil {
		docs = append(docs, ex)
	}
	for _, d := range docs {
		base := lib.Validate(s, d.Compact())
		permuteMembers(d, func(p *gen.JV) {
			for style := 0; style < 4; style++ {
				for ss := 0; ss < 3; ss++ {
					text := renderDoc(p, style, ss)
					v := lib.Validate(s, text)
					c.Eval(true)
					c.Inc("document_spellings")
					if v.OK != base.OK || v.Panic != "" {
						c.Violate(fmt.Sprintf("document-spelling;style=%d;str=%d;%s;%s", style, ss, d.Compact(), cs.Describe()),
							fmt.Sprintf("%s: document %s -> %s, but its re-spelling %q -> %s", cs.Describe(), d.Compact(), base, text, v),
							caseT{Case: cs, Doc: text, DocBase: d.Compact()})
					}
				}
			}
		})
	}
}

func replay(raw stdjson.RawMessage) (bool, string) {
	var cs caseT
	if err := stdjson.Unmarshal(raw, &cs); err != nil {
		return false, err.Error()
	}
	var uc uniCase
	if err := stdjson.Unmarshal(raw, &uc); err == nil && uc.Schema != "" {
		s, r := lib.Check(lib.SchemaSpec{Text: uc.Schema})
		if !r.OK {
			return false, "schema rejected"
		}
		a, b := lib.Validate(s, uc.Base), lib.Validate(s, uc.Doc)
		return a.OK != b.OK || b.Panic != "", fmt.Sprintf("%s -> %s ; %s -> %s", uc.Base, a, uc.Doc, b)
	}
	if cs.Doc != "" {
		s, r := lib.Check(cs.Case.Spec())
		if !r.OK {
			return false, "schema rejected"
		}
		a, b := lib.Validate(s, cs.DocBase), lib.Validate(s, cs.Doc)
		return a.OK != b.OK, fmt.Sprintf("%s -> %s ; %q -> %s", cs.DocBase, a, cs.Doc, b)
	}
	docs := append([]string{}, probeDocs...)
	if ex, ok := gen.ExampleJSON(cs.Case.Root); ok {
		docs = append(docs, ex)
	}
	d := diff(observe(cs.Case.Spec(), docs, false), observe(cs.Case.SpecWith(cs.Spelling), docs, false), docs, true)
	return d != "", d
}
