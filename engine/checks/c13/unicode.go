package c13

import (
	"fmt"
	"strings"
	"unicode/utf8"

	"verif/checks/sc"
	"verif/gen"
	"verif/internal/ev"
	"verif/internal/lib"
)

// mixedSpellings returns spellings of a JSON string literal that mix escapes and raw characters: every
// single character escaped alone (the others raw), every prefix escaped, every suffix escaped.
func mixedSpellings(lit string) []string {
	s := gen.StrValue(lit)
	var runes []rune
	for _, r := range s {
		runes = append(runes, r)
	}
	spell := func(esc func(i int) bool) string {
		var b strings.Builder
		b.WriteByte('"')
		for i, r := range runes {
			switch {
			case esc(i) && r < 0x10000:
				fmt.Fprintf(&b, `\u%04x`, r)
			case r == '"' || r == '\\':
				b.WriteByte('\\')
				b.WriteRune(r)
			case r < 0x20:
				fmt.Fprintf(&b, `\u%04x`, r)
			default:
				b.WriteRune(r)
			}
		}
		b.WriteByte('"')
		return b.String()
	}
	out := []string{spell(func(int) bool { return false }), spell(func(int) bool { return true })}
	for k := range runes {
		k := k
		out = append(out, spell(func(i int) bool { return i == k }), spell(func(i int) bool { return i <= k }), spell(func(i int) bool { return i >= k }))
	}
	return out
}

type uniCase struct {
	Schema string `json:"schema"`
	Base   string `json:"document_plain"`
	Doc    string `json:"document_spelling"`
}

// unicodeDocuments: strings with multi-byte characters (2, 3 and 4 bytes, next to ASCII) as values and as
// keys, under schemas whose verdict depends on the decoded string (const, enum, regex, length in characters,
// required / unknown keys): the verdict of every mixed spelling - each character escaped alone, every prefix
// and every suffix escaped - must be the verdict of the plain spelling. The schema side is spelled the same
// ways for const and enum.
func unicodeDocuments(c *ev.Ctx) {
	words := []string{`"Zürich"`, `"東京"`, `"naïve ok"`, `"a€b"`, `"x\U0001f3c6y"`, `"ключ"`, `"é"`, `"ab"`}
	n := 0
	check := func(schema string, plainDoc string, docs []string) {
		n++
		if !c.MineKey(fmt.Sprint("uni;", n)) || c.Expired() {
			return
		}
		s, r := lib.Check(lib.SchemaSpec{Text: schema})
		if !r.OK {
			c.Inc("unicode_schema_rejected")
			return
		}
		base := lib.Validate(s, plainDoc)
		for _, d := range docs {
			res := lib.Validate(s, d)
			c.Eval(true)
			c.Inc("unicode_document_spellings")
			if res.OK != base.OK || res.Panic != "" {
				c.Violate("unicode-spelling;"+schema+";"+d, fmt.Sprintf("schema %q: document %s -> %s, but the same value spelled %s -> %s", schema, plainDoc, base, d, res), uniCase{schema, plainDoc, d})
			}
		}
	}
	for _, w := range words {
		chars := utf8.RuneCountInString(gen.StrValue(w))
		schemas := []string{
			w + " // {const: true}",
			w + " // {enum: [" + w + `, "other"]}`,
			w + fmt.Sprintf(" // {minLength: %d, maxLength: %d}", chars, chars),
			w + " // {regex: \"^" + strings.Trim(w, `"`) + "$\"}",
			"[\n  " + w + " // {const: true}\n]",
		}
		// the schema side spelled with escapes as well (const compares decoded values)
		for _, sw := range mixedSpellings(w)[1:4] {
			schemas = append(schemas, sw+" // {const: true}", sw+" // {enum: ["+sw+`, "other"]}`)
		}
		for _, sch := range schemas {
			for _, other := range words {
				sp := mixedSpellings(other)
				docs := sp
				plain := sp[0]
				if strings.HasPrefix(sch, "[") {
					plain = "[" + sp[0] + "]"
					docs = nil
					for _, x := range sp {
						docs = append(docs, "["+x+"]")
					}
				}
				check(sch, plain, docs)
			}
		}
		// keys: required, optional, unknown
		key := w
		objSchemas := []string{
			"{\n  " + key + ": 1\n}",
			"{\n  " + key + ": 1, // {optional: true}\n  \"z\": 2\n}",
			"{ // {additionalProperties: \"string\"}\n  " + key + ": 1\n}",
		}
		for _, sch := range objSchemas {
			for _, other := range words {
				sp := mixedSpellings(other)
				var docs []string
				for _, x := range sp {
					docs = append(docs, "{"+x+":1}", "{"+x+":1,\"z\":2}")
				}
				check(sch, "{"+sp[0]+":1}", []string{docs[0]})
				for i := 0; i+1 < len(docs); i += 2 {
					check(sch, "{"+sp[0]+":1}", []string{docs[i]})
					check(sch, "{"+sp[0]+":1,\"z\":2}", []string{docs[i+1]})
				}
			}
		}
	}
	_ = sc.Case{}
}
