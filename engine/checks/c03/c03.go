// Package c03: type references, or, allOf and additionalProperties compose as
// set operations.
package c03

import (
	stdjson "encoding/json"
	"fmt"
	"time"

	"verif/checks/sc"
	"verif/gen"
	"verif/internal/ev"
	"verif/internal/lib"
	"verif/ref/refv"
)

func init() {
	ev.Register(&ev.Check{
		ID:             "C03",
		Level:          "exploration",
		Rule:           "families, each enumerated completely: (1) ALL ordered pairs of user types from a pool of 10 bodies (integer, ranged integer, string, min-length string, two objects, two arrays, boolean, float) + a derived third type (alias / or / nullable alias / nullable or-alias) x 15 root constructs (@A, @A|@B, via alias, same type via two paths, {type:\"@A\"}, or-lists with names / {type:\"@A\"} / inline rule-sets (also with nullable next to the type) / JSON kinds) x nullable x 6 positions (root, property, array element, arrays with minItems / maxItems) x ALL documents <= 3 nodes over 6 scalars and keys k,l,p (arrays of <= 3 elements for array positions); (2) allOf: 9 parent/child configurations (depth <= 2, lists, optional keys) x 4 additionalProperties settings x ALL 1024 objects over 5 keys x 3 values; (3) additionalProperties: 12 settings x 60 objects; (4) key shortcuts: 5 key types x required/optional/optional-by-default x 2 layouts x ALL objects with <= 3 members over 6 keys, and every ordered pair of key types as TWO shortcuts of one object. Oracles: three-valued reference set semantics; differentials verdict(@A|@B) == verdict(@A) or verdict(@B). Non-trivial = distinct (schema, environment, document) with decided reference.",
		Run:            run,
		Replay:         replay,
		QuickBudget:    200 * time.Second,
		ThoroughBudget: 14 * time.Minute,
		Assumptions: []string{
			"not asserted: two keys matching one shortcut entry, one key matching two entries, presence of a non-optional shortcut entry, rule-less key types, integer under additionalProperties float, duplicate document keys",
		},
	})
}

type body struct {
	name string
	n    *gen.Node
}

func pool() []body {
	return []body{
		{"int", gen.Int("1")},
		{"posint", gen.Int("1").With(gen.R("min", "0"))},
		{"str", gen.Str(`"s"`)},
		{"str2", gen.Str(`"ab"`).With(gen.R("minLength", "2"))},
		{"obj", gen.Obj(gen.P("k", gen.Int("1")))},
		{"obj2", gen.Obj(gen.P("k", gen.Str(`"s"`)), gen.P("l", gen.Int("1").With(gen.R("optional", "true"))))},
		{"arr", gen.Arr(gen.Int("1"))},
		{"arr0", gen.Arr()},
		{"bool", gen.Bool("true")},
		{"float", gen.Float("1.5")},
	}
}

func exampleOf(n *gen.Node) *gen.Node {
	c := n.Clone()
	c.Walk(func(x *gen.Node) { x.Rules = nil })
	return c
}

type rootCons struct {
	name string
	mk   func(a, b *gen.Node) *gen.Node // a, b are the bodies of @A and @B
}

func lit(s string) gen.RuleItem { return gen.RuleItem{Lit: s} }

func rootConstructs() []rootCons {
	scalarEx := func(a *gen.Node) *gen.Node {
		if a.Kind == gen.KObj || a.Kind == gen.KArr {
			return nil
		}
		return exampleOf(a)
	}
	return []rootCons{
		{"@A", func(a, b *gen.Node) *gen.Node { return gen.Ref("@A") }},
		{"@A|@B", func(a, b *gen.Node) *gen.Node { return gen.Ref("@A", "@B") }},
		{"@C", func(a, b *gen.Node) *gen.Node { return gen.Ref("@C") }},
		{"@A|@C", func(a, b *gen.Node) *gen.Node { return gen.Ref("@A", "@C") }},
		{"@B|@A|@B", func(a, b *gen.Node) *gen.Node { return gen.Ref("@B", "@A", "@B") }},
		{"type:@A", func(a, b *gen.Node) *gen.Node {
			if e := scalarEx(a); e != nil {
				return e.With(gen.R("type", `"@A"`))
			}
			return nil
		}},
		{"or:[@A,@B]", func(a, b *gen.Node) *gen.Node {
			if e := scalarEx(a); e != nil {
				return e.With(gen.RL("or", lit(`"@A"`), lit(`"@B"`)))
			}
			return nil
		}},
		{"or:[{type:@A},string]", func(a, b *gen.Node) *gen.Node {
			if e := scalarEx(a); e != nil {
				return e.With(gen.RL("or", gen.RuleItem{Set: []gen.Rule{gen.R("type", `"@A"`)}}, lit(`"string"`)))
			}
			return nil
		}},
		{"or:[{integer,min:0},@B]", func(a, b *gen.Node) *gen.Node {
			return gen.Int("1").With(gen.RL("or", gen.RuleItem{Set: []gen.Rule{gen.R("type", `"integer"`), gen.R("min", "0")}}, lit(`"@B"`)))
		}},
		{"or:[boolean,{string,maxLength:1}]", func(a, b *gen.Node) *gen.Node {
			return gen.Bool("true").With(gen.RL("or", lit(`"boolean"`), gen.RuleItem{Set: []gen.Rule{gen.R("type", `"string"`), gen.R("maxLength", "1")}}))
		}},
		{"or:[@B,@A] (reversed)", func(a, b *gen.Node) *gen.Node {
			if e := scalarEx(a); e != nil {
				return e.With(gen.RL("or", lit(`"@B"`), lit(`"@A"`)))
			}
			return nil
		}},
		{"or:[{type:@A,nullable},{string}]", func(a, b *gen.Node) *gen.Node {
			if e := scalarEx(a); e != nil {
				return e.With(gen.RL("or", gen.RuleItem{Set: []gen.Rule{gen.R("type", `"@A"`), gen.R("nullable", "true")}}, gen.RuleItem{Set: []gen.Rule{gen.R("type", `"string"`)}}))
			}
			return nil
		}},
		{"or:[{boolean},{nullable,type:@A}]", func(a, b *gen.Node) *gen.Node {
			if e := scalarEx(a); e != nil {
				return e.With(gen.RL("or", gen.RuleItem{Set: []gen.Rule{gen.R("type", `"boolean"`)}}, gen.RuleItem{Set: []gen.Rule{gen.R("nullable", "true"), gen.R("type", `"@A"`)}}))
			}
			return nil
		}},
		{"or:[{integer,nullable},@B]", func(a, b *gen.Node) *gen.Node {
			return gen.Int("1").With(gen.RL("or", gen.RuleItem{Set: []gen.Rule{gen.R("type", `"integer"`), gen.R("nullable", "true")}}, lit(`"@B"`)))
		}},
		{"or:[{type:@A},{type:@B}]", func(a, b *gen.Node) *gen.Node {
			if e := scalarEx(a); e != nil {
				return e.With(gen.RL("or", gen.RuleItem{Set: []gen.Rule{gen.R("type", `"@A"`)}}, gen.RuleItem{Set: []gen.Rule{gen.R("type", `"@B"`)}}))
			}
			return nil
		}},
	}
}

type position struct {
	name string
	wrap func(r *gen.Node) *gen.Node
	arr  bool
}

func positions() []position {
	return []position{
		{"root", func(r *gen.Node) *gen.Node { return r }, false},
		{"property", func(r *gen.Node) *gen.Node { return gen.Obj(gen.P("p", r)) }, false},
		{"element", func(r *gen.Node) *gen.Node { return gen.Arr(r) }, true},
		{"element-maxItems2", func(r *gen.Node) *gen.Node { return gen.Arr(r).With(gen.R("maxItems", "2")) }, true},
		{"element-minItems1", func(r *gen.Node) *gen.Node { return gen.Arr(r).With(gen.R("minItems", "1")) }, true},
		{"element-second", func(r *gen.Node) *gen.Node { return gen.Arr(gen.Bool("true"), r).With(gen.R("maxItems", "3")) }, true},
	}
}

var scalars = []*gen.JV{gen.JInt("1"), gen.JInt("-1"), gen.JStr(`"s"`), gen.JStr(`"ab"`), gen.JBool("true"), gen.JNull()}

func report(c *ev.Ctx, cs sc.Case, dir string) {
	red := ev.Reduce(cs, sc.Cands, func(x sc.Case) bool {
		if x.Doc == nil {
			return false
		}
		return sc.Eval(x).Direction() == dir
	})
	o := sc.Eval(red)
	c.Violate("validate;"+dir+";"+red.Describe(), fmt.Sprintf("%s: library %s, set semantics of the named types/rules say %s", red.Describe(), o.Val, o.Ref), red)
}

// evalAll validates all docs and compares with the reference.
func evalAll(c *ev.Ctx, cs sc.Case, docs []*gen.JV, family string) {
	s, r := lib.Check(cs.Spec())
	if !r.OK {
		c.Inc("check_rejected_" + family)
		return
	}
	c.Inc("schemas_" + family)
	env := cs.Env()
	for _, d := range docs {
		res := lib.Validate(s, d.Compact())
		want := refv.Accepts(env, cs.Root, d)
		c.Eval(want != refv.Unspecified)
		switch want {
		case refv.Unspecified:
			c.Inc("unspecified")
		case refv.Accept:
			c.Inc("ref_accept")
		default:
			c.Inc("ref_reject")
		}
		o := sc.Outcome{Check: r, Val: res, Ref: want}
		if dir := o.Direction(); dir != "" {
			x := cs
			x.Doc = d
			report(c, x, dir)
		}
	}
}

type visitor func(cs sc.Case, docs []*gen.JV, family string)

// enumCtx abstracts what the family enumerators need from the run-time.
type enumCtx struct {
	c        *ev.Ctx // may be nil when used as a generator by other checks
	thorough bool
	visit    visitor
}

func (e *enumCtx) Mine() bool {
	if e.c == nil {
		return true
	}
	return e.c.Mine()
}
func (e *enumCtx) Expired() bool  { return e.c != nil && e.c.Expired() }
func (e *enumCtx) Thorough() bool { return e.thorough }
func (e *enumCtx) Bound(k string, v any) {
	if e.c != nil {
		e.c.Bound(k, v)
	}
}
func (e *enumCtx) Sample(k string, v any) {
	if e.c != nil {
		e.c.Sample(k, v)
	}
}

func run(c *ev.Ctx) {
	e := &enumCtx{c: c, thorough: c.Thorough(), visit: func(cs sc.Case, docs []*gen.JV, family string) { evalAll(c, cs, docs, family) }}
	typesFamily(e, true)
	allOfFamily(e)
	nestedAllOfFamily(e)
	nestedOrFamily(e)
	addPropsFamily(e)
	shortcutFamily(e)
}

// ForEachSchema enumerates the schema cases of all families (documents
// dropped); used by C13/C15/C16 as a source of accepted schemas.
func ForEachSchema(thorough bool, f func(sc.Case)) {
	e := &enumCtx{thorough: thorough, visit: func(cs sc.Case, _ []*gen.JV, _ string) { f(cs) }}
	typesFamily(e, false)
	allOfFamily(e)
	addPropsFamily(e)
	shortcutFamily(e)
}

func typesFamily(c *enumCtx, differential bool) {
	var docs []*gen.JV
	gen.EnumDocs(3, scalars, []string{"k", "l", "p"}, func(d *gen.JV) { docs = append(docs, d) })
	elems := []*gen.JV{gen.JInt("1"), gen.JInt("-1"), gen.JStr(`"s"`), gen.JStr(`"ab"`), gen.JBool("true"), gen.JNull(),
		gen.JObj(gen.Member{Key: "k", Val: gen.JInt("1")}), gen.JObj(gen.Member{Key: "k", Val: gen.JStr(`"s"`)}), gen.JArr(gen.JInt("1")), gen.JArr(), gen.JFloat("1.5")}
	var arrDocs []*gen.JV
	arrDocs = append(arrDocs, gen.JArr(), gen.JNull(), gen.JInt("1"), gen.JObj())
	for _, a := range elems {
		arrDocs = append(arrDocs, gen.JArr(a))
		for _, b := range elems {
			arrDocs = append(arrDocs, gen.JArr(a, b))
			for _, d := range elems[:6] {
				arrDocs = append(arrDocs, gen.JArr(a, b, d))
			}
		}
	}
	c.Bound("types_family_documents", len(docs))
	c.Bound("types_family_array_documents", len(arrDocs))
	p := pool()
	thirds := []func() *gen.Node{
		func() *gen.Node { return gen.Ref("@A") },
		func() *gen.Node { return gen.Ref("@A", "@B") },
		func() *gen.Node { return gen.Ref("@B") },
		// nullable ALIAS types: the null comes from the type body, not from the position
		func() *gen.Node { return gen.Ref("@A").With(gen.R("nullable", "true")) },
		func() *gen.Node { return gen.Ref("@B", "@A").With(gen.R("nullable", "true")) },
	}
	for _, a := range p {
		for _, b := range p {
			for ti, third := range thirds {
				if ti == 2 && !c.Thorough() {
					continue
				}
				for _, rc := range rootConstructs() {
					for _, nullable := range []bool{false, true} {
						for _, pos := range positions() {
							if !c.Mine() {
								continue
							}
							if c.Expired() {
								return
							}
							r := rc.mk(a.n, b.n)
							if r == nil {
								continue
							}
							if nullable {
								r.Rules = append(r.Rules, gen.R("nullable", "true"))
							}
							cs := sc.Case{Root: pos.wrap(r), Types: []sc.TypeDecl{{Name: "@A", Body: a.n}, {Name: "@B", Body: b.n}, {Name: "@C", Body: third()}}}
							ds := docs
							if pos.arr {
								ds = arrDocs
							}
							c.visit(cs, ds, "types")
							if a.name == "obj" && b.name == "str2" {
								c.Sample("types-"+pos.name, cs.Describe())
							}
							// differential: @A|@B == @A or @B
							if differential && rc.name == "@A|@B" && !nullable && pos.name == "root" {
								unionDifferential(c.c, cs, ds)
							}
						}
					}
				}
			}
		}
	}
}

func unionDifferential(c *ev.Ctx, cs sc.Case, docs []*gen.JV) {
	su, ru := lib.Check(cs.Spec())
	ca, cb := cs, cs
	ca.Root, cb.Root = gen.Ref("@A"), gen.Ref("@B")
	sa, ra := lib.Check(ca.Spec())
	sb, rb := lib.Check(cb.Spec())
	if !ru.OK || !ra.OK || !rb.OK {
		return
	}
	for _, d := range docs {
		t := d.Compact()
		u, a, b := lib.Validate(su, t), lib.Validate(sa, t), lib.Validate(sb, t)
		c.Inc("union_differential")
		if u.OK != (a.OK || b.OK) {
			x := cs
			x.Doc = d
			c.Violate("union-differential;"+x.Describe(), fmt.Sprintf("%s: @A | @B -> %s, but @A -> %s and @B -> %s", x.Describe(), u, a, b), x)
		}
	}
}

func allOfFamily(c *enumCtx) {
	types := []sc.TypeDecl{
		{Name: "@P1", Body: gen.Obj(gen.P("a", gen.Int("1")))},
		{Name: "@P2", Body: gen.Obj(gen.P("b", gen.Str(`"s"`).With(gen.R("optional", "true"))))},
		{Name: "@P3", Body: gen.Obj(gen.P("c", gen.Bool("true"))).With(gen.R("allOf", `"@P1"`))},
		{Name: "@P4", Body: gen.Obj(gen.P("c", gen.Bool("true").With(gen.R("optional", "true")))).With(gen.RL("allOf", lit(`"@P1"`), lit(`"@P2"`)))},
		// parents that declare additionalProperties themselves (the heir's own rule, also an explicit
		// false, must keep its meaning next to them), directly and one level up
		{Name: "@PA", Body: gen.Obj(gen.P("a", gen.Int("1"))).With(gen.R("additionalProperties", `"any"`))},
		{Name: "@PS", Body: gen.Obj(gen.P("a", gen.Int("1"))).With(gen.R("additionalProperties", `"string"`))},
		{Name: "@PT", Body: gen.Obj().With(gen.R("additionalProperties", "true"))},
		{Name: "@PG", Body: gen.Obj(gen.P("c", gen.Bool("true"))).With(gen.R("allOf", `"@PA"`))},
	}
	mk := func(props []gen.Prop, rules ...gen.Rule) *gen.Node { return gen.Obj(props...).With(rules...) }
	r1 := []gen.Prop{gen.P("r", gen.Int("1"))}
	ropt := []gen.Prop{gen.P("r", gen.Int("1").With(gen.R("optional", "true")))}
	roots := []*gen.Node{
		mk(r1, gen.R("allOf", `"@P1"`)),
		mk(nil, gen.R("allOf", `"@P1"`)),
		mk(r1, gen.RL("allOf", lit(`"@P1"`), lit(`"@P2"`))),
		mk(ropt, gen.RL("allOf", lit(`"@P2"`), lit(`"@P1"`))),
		mk(r1, gen.R("allOf", `"@P3"`)),
		mk(nil, gen.R("allOf", `"@P4"`)),
		mk(r1, gen.R("allOf", `"@P2"`)),
		mk(r1, gen.RL("allOf", lit(`"@P3"`), lit(`"@P2"`))),
		mk(r1),
		mk(r1, gen.R("allOf", `"@PA"`)),
		mk(ropt, gen.R("allOf", `"@PS"`)),
		mk(r1, gen.R("allOf", `"@PT"`)),
		mk(nil, gen.R("allOf", `"@PG"`)),
		mk(r1, gen.RL("allOf", lit(`"@P2"`), lit(`"@PA"`))),
	}
	aps := []*gen.Rule{nil, {Name: "additionalProperties", Val: "false"}, {Name: "additionalProperties", Val: "true"}, {Name: "additionalProperties", Val: `"string"`}}
	keys := []string{"a", "b", "c", "r", "z"}
	vals := []*gen.JV{gen.JInt("1"), gen.JStr(`"s"`), gen.JBool("true")}
	var docs []*gen.JV
	var rec func(i int, cur []gen.Member)
	rec = func(i int, cur []gen.Member) {
		if i == len(keys) {
			docs = append(docs, gen.JObj(append([]gen.Member{}, cur...)...))
			return
		}
		rec(i+1, cur)
		for _, v := range vals {
			rec(i+1, append(cur, gen.Member{Key: keys[i], Val: v}))
		}
	}
	rec(0, nil)
	// a few reordered documents
	docs = append(docs, gen.JObj(gen.Member{Key: "r", Val: gen.JInt("1")}, gen.Member{Key: "a", Val: gen.JInt("1")}),
		gen.JObj(gen.Member{Key: "c", Val: gen.JBool("true")}, gen.Member{Key: "b", Val: gen.JStr(`"s"`)}, gen.Member{Key: "a", Val: gen.JInt("1")}, gen.Member{Key: "r", Val: gen.JInt("1")}),
		gen.JNull(), gen.JArr(), gen.JInt("1"))
	c.Bound("allof_documents", len(docs))
	// usage contexts: the heir next to direct uses of its bases (compiling one
	// type must not change what another type accepts)
	types = append(types, sc.TypeDecl{Name: "@P5", Body: gen.Obj(gen.P("e", gen.Int("1")))})
	heirs := []*gen.Node{
		mk(nil, gen.RL("allOf", lit(`"@P1"`), lit(`"@P5"`))),
		mk(ropt, gen.RL("allOf", lit(`"@P1"`), lit(`"@P5"`))),
		mk(r1, gen.RL("allOf", lit(`"@P1"`), lit(`"@P5"`))),
		mk(nil, gen.RL("allOf", lit(`"@P5"`), lit(`"@P2"`), lit(`"@P1"`))),
		mk(ropt, gen.R("allOf", `"@P3"`)),
		mk(nil, gen.RL("allOf", lit(`"@P2"`), lit(`"@P5"`))),
	}
	small := []*gen.JV{}
	for _, d := range docs {
		if len(d.Mem) <= 2 {
			small = append(small, d)
		}
	}
	bases := []*gen.JV{gen.JObj(gen.Member{Key: "a", Val: gen.JInt("1")}), gen.JObj(gen.Member{Key: "a", Val: gen.JInt("1")}, gen.Member{Key: "e", Val: gen.JInt("1")}), gen.JObj(), gen.JObj(gen.Member{Key: "e", Val: gen.JInt("1")})}
	var ctxDocs []*gen.JV
	for _, b := range bases {
		for _, d := range small {
			ctxDocs = append(ctxDocs, gen.JObj(gen.Member{Key: "plain", Val: b}, gen.Member{Key: "other", Val: b}, gen.Member{Key: "full", Val: d}))
		}
	}
	full5 := gen.JObj(gen.Member{Key: "a", Val: gen.JInt("1")}, gen.Member{Key: "e", Val: gen.JInt("1")})
	for _, b := range bases {
		ctxDocs = append(ctxDocs, gen.JObj(gen.Member{Key: "plain", Val: b}, gen.Member{Key: "other", Val: b}, gen.Member{Key: "full", Val: full5}),
			gen.JObj(gen.Member{Key: "plain", Val: b}, gen.Member{Key: "other", Val: gen.JObj(gen.Member{Key: "e", Val: gen.JInt("1")})}, gen.Member{Key: "full", Val: full5}))
	}
	c.Bound("allof_context_documents", len(ctxDocs))
	for hi, h := range heirs {
		for _, order := range []int{0, 1} {
			for _, referenced := range []bool{true, false} {
				if !c.Mine() {
					continue
				}
				props := []gen.Prop{gen.P("plain", gen.Ref("@P1")), gen.P("other", gen.Ref("@P5"))}
				if referenced {
					props = append(props, gen.P("full", gen.Ref("@H")))
				} else {
					props = append(props, gen.P("full", gen.Obj(gen.P("a", gen.Int("1")), gen.P("e", gen.Int("1")))))
				}
				ts := append(append([]sc.TypeDecl{}, types...), sc.TypeDecl{Name: "@H", Body: h})
				if order == 1 {
					ts = append([]sc.TypeDecl{{Name: "@H", Body: h}}, types...)
				}
				cs := sc.Case{Root: gen.Obj(props...), Types: ts}
				c.visit(cs, ctxDocs, "allof")
				if hi == 0 {
					c.Sample("allof-context", cs.Describe())
				}
			}
		}
	}
	for _, root := range roots {
		for _, ap := range aps {
			for _, opt := range []bool{false, true} {
				for _, wrapped := range []bool{false, true} {
					if !c.Mine() {
						continue
					}
					r := root.Clone()
					if ap != nil {
						r.Rules = append(r.Rules, *ap)
					}
					cs := sc.Case{Root: r, Types: types, Opt: opt}
					ds := docs
					if wrapped {
						// use the object as a user type referenced from the root
						cs = sc.Case{Root: gen.Ref("@W"), Types: append(append([]sc.TypeDecl{}, types...), sc.TypeDecl{Name: "@W", Body: r}), Opt: opt}
					}
					c.visit(cs, ds, "allof")
					c.Sample("allof", cs.Describe())
				}
			}
		}
	}
}

// nestedAllOfFamily: an object that extends types AND owns a property (directly, as an array item type, or
// two levels down) whose object extends types itself; as the root, inside a user type, and as the item type
// of a root array. Every document combines the members the outer and the inner extension demand.
func nestedAllOfFamily(c *enumCtx) {
	types := []sc.TypeDecl{
		{Name: "@P1", Body: gen.Obj(gen.P("a", gen.Int("1")))},
		{Name: "@P2", Body: gen.Obj(gen.P("b", gen.Str(`"s"`).With(gen.R("optional", "true"))))},
		{Name: "@P3", Body: gen.Obj(gen.P("c", gen.Bool("true"))).With(gen.R("allOf", `"@P5"`))},
		{Name: "@P5", Body: gen.Obj(gen.P("e", gen.Int("1")))},
	}
	xs := gen.P("x", gen.Int("1"))
	xopt := gen.P("x", gen.Int("1").With(gen.R("optional", "true")))
	inners := []*gen.Node{
		gen.Obj(xs).With(gen.R("allOf", `"@P5"`)),
		gen.Obj().With(gen.R("allOf", `"@P5"`)),
		gen.Obj(xopt).With(gen.RL("allOf", lit(`"@P5"`), lit(`"@P2"`))),
		gen.Obj(xs).With(gen.R("allOf", `"@P3"`)),
		gen.Obj(xopt).With(gen.R("allOf", `"@P1"`)),
	}
	m := func(k string, v *gen.JV) gen.Member { return gen.Member{Key: k, Val: v} }
	one, str, tr := gen.JInt("1"), gen.JStr(`"s"`), gen.JBool("true")
	var innerDocs []*gen.JV
	keys := []string{"x", "e", "b", "c", "a"}
	vals := map[string][]*gen.JV{"x": {one, str}, "e": {one, str}, "b": {str}, "c": {tr}, "a": {one}}
	var rec func(i int, cur []gen.Member)
	rec = func(i int, cur []gen.Member) {
		if i == len(keys) {
			innerDocs = append(innerDocs, gen.JObj(append([]gen.Member{}, cur...)...))
			return
		}
		rec(i+1, cur)
		for _, v := range vals[keys[i]] {
			rec(i+1, append(cur, m(keys[i], v)))
		}
	}
	rec(0, nil)
	innerDocs = append(innerDocs, gen.JNull(), gen.JArr(), gen.JObj(m("z", one), m("e", one), m("x", one)))
	type shape struct {
		name string
		root func(inner *gen.Node) (*gen.Node, []sc.TypeDecl)
		docs func(d *gen.JV, f func(*gen.JV))
	}
	outerDocs := func(wrap func(*gen.JV) *gen.JV) func(d *gen.JV, f func(*gen.JV)) {
		return func(d *gen.JV, f func(*gen.JV)) {
			f(wrap(gen.JObj(m("a", one), m("own", d))))
			f(wrap(gen.JObj(m("own", d), m("a", one))))
			f(wrap(gen.JObj(m("own", d))))
			f(wrap(gen.JObj(m("a", str), m("own", d))))
		}
	}
	id := func(v *gen.JV) *gen.JV { return v }
	shapes := []shape{
		{"root extends, own property extends", func(in *gen.Node) (*gen.Node, []sc.TypeDecl) {
			return gen.Obj(gen.P("own", in)).With(gen.R("allOf", `"@P1"`)), nil
		}, outerDocs(id)},
		{"plain root, own property extends", func(in *gen.Node) (*gen.Node, []sc.TypeDecl) {
			return gen.Obj(gen.P("a", gen.Int("1")), gen.P("own", in)), nil
		}, outerDocs(id)},
		{"root extends, own array of extending objects", func(in *gen.Node) (*gen.Node, []sc.TypeDecl) {
			return gen.Obj(gen.P("own", gen.Arr(in))).With(gen.R("allOf", `"@P1"`)), nil
		}, func(d *gen.JV, f func(*gen.JV)) {
			f(gen.JObj(m("a", one), m("own", gen.JArr(d))))
			f(gen.JObj(m("a", one), m("own", gen.JArr(gen.JObj(m("x", one), m("e", one)), d))))
			f(gen.JObj(m("own", gen.JArr(d, d))))
		}},
		{"root extends, extending object two levels down", func(in *gen.Node) (*gen.Node, []sc.TypeDecl) {
			return gen.Obj(gen.P("own", gen.Obj(gen.P("deep", in)))).With(gen.R("allOf", `"@P1"`)), nil
		}, func(d *gen.JV, f func(*gen.JV)) {
			f(gen.JObj(m("a", one), m("own", gen.JObj(m("deep", d)))))
			f(gen.JObj(m("own", gen.JObj(m("deep", d)))))
		}},
		{"user type extends, its own property extends", func(in *gen.Node) (*gen.Node, []sc.TypeDecl) {
			return gen.Ref("@W"), []sc.TypeDecl{{Name: "@W", Body: gen.Obj(gen.P("own", in)).With(gen.R("allOf", `"@P1"`))}}
		}, outerDocs(id)},
		{"heir of a type whose own property extends", func(in *gen.Node) (*gen.Node, []sc.TypeDecl) {
			return gen.Obj(gen.P("r", gen.Int("1").With(gen.R("optional", "true")))).With(gen.R("allOf", `"@W"`)),
				[]sc.TypeDecl{{Name: "@W", Body: gen.Obj(gen.P("own", in)).With(gen.R("allOf", `"@P1"`))}}
		}, outerDocs(id)},
		{"root array of extending objects whose own property extends", func(in *gen.Node) (*gen.Node, []sc.TypeDecl) {
			return gen.Arr(gen.Obj(gen.P("own", in)).With(gen.R("allOf", `"@P1"`))), nil
		}, outerDocs(func(v *gen.JV) *gen.JV { return gen.JArr(v) })},
	}
	for _, sh := range shapes {
		for ii, in := range inners {
			for _, typesFirst := range []bool{true, false} {
				if !c.Mine() {
					continue
				}
				root, extra := sh.root(in.Clone())
				ts := append(append([]sc.TypeDecl{}, types...), extra...)
				if !typesFirst {
					ts = append(append([]sc.TypeDecl{}, extra...), types...)
					if len(extra) == 0 {
						continue
					}
				}
				var docs []*gen.JV
				for _, d := range innerDocs {
					sh.docs(d, func(x *gen.JV) { docs = append(docs, x) })
				}
				cs := sc.Case{Root: root, Types: ts}
				c.visit(cs, docs, "allof-nested")
				if ii == 0 {
					c.Sample("allof-nested", sh.name+": "+cs.Describe())
				}
			}
		}
	}
}

// nestedOrFamily: unions whose alternatives are containers that hold unions themselves: while one alternative
// of the outer union gives up on a lexeme, another one fans out into the alternatives of its inner union on
// the same lexeme. Every pair of 8 alternative bodies as @A | @B (both orders, also as or rule and inside an
// array), against documents built from the bodies' own examples and their neighbours.
func nestedOrFamily(c *enumCtx) {
	cd := func() *gen.Node { return gen.Ref("@C", "@D") }
	bodies := []*gen.Node{
		gen.Obj(gen.P("x", cd())),
		gen.Obj(gen.P("y", gen.Int("1"))),
		gen.Obj(gen.P("x", gen.Int("1")), gen.P("y", cd())),
		gen.Arr(cd()),
		gen.Arr(),
		gen.Arr(gen.Int("1")),
		gen.Obj(gen.P("x", gen.Arr(cd()))),
		gen.Obj(gen.P("x", gen.Str(`"s"`).With(gen.RL("or", lit(`"@C"`), lit(`"@D"`), lit(`"boolean"`))))),
	}
	leaf := []sc.TypeDecl{{Name: "@C", Body: gen.Int("1")}, {Name: "@D", Body: gen.Str(`"s"`)}}
	m := func(k string, v *gen.JV) gen.Member { return gen.Member{Key: k, Val: v} }
	one, str, tr := gen.JInt("5"), gen.JStr(`"hello"`), gen.JBool("true")
	var docs []*gen.JV
	for _, v := range []*gen.JV{one, str, tr, gen.JNull(), gen.JArr(one), gen.JArr(str), gen.JArr(str, one), gen.JArr()} {
		docs = append(docs, gen.JObj(m("x", v)), gen.JObj(m("y", v)), gen.JObj(m("x", one), m("y", v)), gen.JObj(m("y", v), m("x", one)), v, gen.JArr(v))
	}
	docs = append(docs, gen.JObj(), gen.JObj(m("z", one)))
	for i, a := range bodies {
		for j, b := range bodies {
			if i == j {
				continue
			}
			if !c.Mine() {
				continue
			}
			types := append(append([]sc.TypeDecl{}, leaf...), sc.TypeDecl{Name: "@A", Body: a.Clone()}, sc.TypeDecl{Name: "@B", Body: b.Clone()})
			c.visit(sc.Case{Root: gen.Ref("@A", "@B"), Types: types}, docs, "nested-or")
			c.visit(sc.Case{Root: gen.Obj(gen.P("p", gen.Ref("@A", "@B")), gen.P("q", gen.Int("1").With(gen.R("optional", "true")))), Types: types}, wrapIn(docs, "p"), "nested-or")
			if i < j {
				c.visit(sc.Case{Root: gen.Arr(gen.Ref("@A", "@B")), Types: types}, arraysOf(docs), "nested-or")
				c.Sample("nested-or", sc.Case{Root: gen.Ref("@A", "@B"), Types: types}.Describe())
			}
		}
	}
}

func wrapIn(docs []*gen.JV, key string) []*gen.JV {
	var out []*gen.JV
	for _, d := range docs {
		out = append(out, gen.JObj(gen.Member{Key: key, Val: d}), gen.JObj(gen.Member{Key: key, Val: d}, gen.Member{Key: "q", Val: gen.JInt("1")}))
	}
	return out
}

func arraysOf(docs []*gen.JV) []*gen.JV {
	var out []*gen.JV
	for i, d := range docs {
		out = append(out, gen.JArr(d), gen.JArr(d, docs[(i+7)%len(docs)]))
	}
	return out
}

func addPropsFamily(c *enumCtx) {
	settings := []string{"", "false", "true", `"any"`, `"string"`, `"integer"`, `"float"`, `"boolean"`, `"null"`, `"object"`, `"array"`, `"@T"`, `"@O"`}
	types := []sc.TypeDecl{{Name: "@T", Body: gen.Int("1").With(gen.R("min", "0"))}, {Name: "@O", Body: gen.Obj(gen.P("k", gen.Int("1")))}}
	extra := []*gen.JV{gen.JInt("1"), gen.JInt("-1"), gen.JFloat("1.5"), gen.JStr(`"s"`), gen.JBool("false"), gen.JNull(), gen.JObj(), gen.JArr(), gen.JObj(gen.Member{Key: "k", Val: gen.JInt("1")}), gen.JArr(gen.JInt("1")), gen.JObj(gen.Member{Key: "q", Val: gen.JInt("1")})}
	// the kind of an undeclared value is guessed from its raw text: strings whose text
	// looks like another kind or ends in an escaped backslash / quote, the empty string
	spelled := []*gen.JV{gen.JStr(`""`), gen.JStr(`"1"`), gen.JStr(`"1.5"`), gen.JStr(`"true"`), gen.JStr(`"null"`), gen.JStr(`"\\"`), gen.JStr(`"C:\\a.b\\"`), gen.JStr(`"a\""`), gen.JStr(`"{}"`), gen.JStr(`"[1]"`), gen.JStr(`" "`)}
	var docs []*gen.JV
	for _, e := range spelled {
		docs = append(docs, gen.JObj(gen.Member{Key: "a", Val: gen.JInt("1")}, gen.Member{Key: "z", Val: e}))
		docs = append(docs, gen.JObj(gen.Member{Key: "z", Val: e}))
	}
	for _, base := range [][]gen.Member{{{Key: "a", Val: gen.JInt("1")}}, {}, {{Key: "a", Val: gen.JStr(`"s"`)}}} {
		docs = append(docs, gen.JObj(base...))
		for _, e := range extra {
			docs = append(docs, gen.JObj(append(append([]gen.Member{}, base...), gen.Member{Key: "z", Val: e})...))
			docs = append(docs, gen.JObj(append([]gen.Member{{Key: "z", Val: e}}, base...)...))
			for _, e2 := range extra[:4] {
				docs = append(docs, gen.JObj(append(append([]gen.Member{}, base...), gen.Member{Key: "z", Val: e}, gen.Member{Key: "y", Val: e2})...))
			}
		}
	}
	c.Bound("addprops_documents", len(docs))
	for _, st := range settings {
		for _, shape := range []int{0, 1, 2} {
			for _, opt := range []bool{false, true} {
				if !c.Mine() {
					continue
				}
				var root *gen.Node
				switch shape {
				case 0:
					root = gen.Obj(gen.P("a", gen.Int("1")))
				case 1:
					root = gen.Obj()
				default:
					root = gen.Obj(gen.P("a", gen.Int("1").With(gen.R("optional", "true"))))
				}
				if st != "" {
					root.Rules = append(root.Rules, gen.R("additionalProperties", st))
				}
				cs := sc.Case{Root: root, Types: types, Opt: opt}
				c.visit(cs, docs, "addprops")
				nested := sc.Case{Root: gen.Obj(gen.P("a", gen.Int("1")), gen.P("n", root.Clone())), Types: types, Opt: opt}
				var nd []*gen.JV
				for _, d := range docs {
					nd = append(nd, gen.JObj(gen.Member{Key: "a", Val: gen.JInt("1")}, gen.Member{Key: "n", Val: d}))
				}
				c.visit(nested, nd, "addprops")
				c.Sample("addprops", cs.Describe())
			}
		}
	}
}

func shortcutFamily(c *enumCtx) {
	keyTypes := []*gen.Node{
		gen.Str(`"ab"`).With(gen.R("minLength", "2")),
		gen.Str(`"a"`).With(gen.R("regex", `"^a"`)),
		gen.Str(`"a"`).With(gen.RL("enum", lit(`"a"`), lit(`"b"`))),
		gen.Str(`"ab"`).With(gen.R("maxLength", "2")),
		gen.Str(`"ab"`).With(gen.R("minLength", "2"), gen.R("maxLength", "2")),
	}
	keys := []string{"a", "ab", "b", "abc", "x", "z"}
	vals := []*gen.JV{gen.JInt("1"), gen.JStr(`"s"`)}
	var docs []*gen.JV
	docs = append(docs, gen.JObj())
	for _, k1 := range keys {
		for _, v1 := range vals {
			docs = append(docs, gen.JObj(gen.Member{Key: k1, Val: v1}))
			for _, k2 := range keys {
				if k2 == k1 {
					continue
				}
				for _, v2 := range vals {
					docs = append(docs, gen.JObj(gen.Member{Key: k1, Val: v1}, gen.Member{Key: k2, Val: v2}))
					for _, k3 := range []string{"x", "z", "ab"} {
						if k3 == k1 || k3 == k2 {
							continue
						}
						docs = append(docs, gen.JObj(gen.Member{Key: k1, Val: v1}, gen.Member{Key: k2, Val: v2}, gen.Member{Key: k3, Val: gen.JStr(`"s"`)}))
					}
				}
			}
		}
	}
	// keys spelled like the shortcut itself (a document key is always a plain string: "@K" selects the
	// shortcut entry only if the type @K admits the text "@K") and like other type names
	for _, k := range []string{"@K", "@L", "@"} {
		for _, v1 := range vals {
			docs = append(docs, gen.JObj(gen.Member{Key: k, Val: v1}),
				gen.JObj(gen.Member{Key: k, Val: v1}, gen.Member{Key: "ab", Val: gen.JInt("1")}),
				gen.JObj(gen.Member{Key: "ab", Val: gen.JInt("1")}, gen.Member{Key: k, Val: v1}),
				gen.JObj(gen.Member{Key: "x", Val: gen.JStr(`"s"`)}, gen.Member{Key: k, Val: v1}),
				gen.JObj(gen.Member{Key: k, Val: v1}, gen.Member{Key: "a", Val: gen.JInt("1")}, gen.Member{Key: "x", Val: gen.JStr(`"s"`)}))
		}
	}
	c.Bound("shortcut_documents", len(docs))
	for _, kt := range keyTypes {
		for _, optMode := range []int{0, 1, 2} { // required, optional:true, optional by default
			for _, layout := range []int{0, 1, 2, 3, 4, 5} {
				for _, ap := range []string{"", `"string"`} {
					if !c.Mine() {
						continue
					}
					v := gen.Int("1")
					if optMode == 1 {
						v.Rules = append(v.Rules, gen.R("optional", "true"))
					}
					var root *gen.Node
					switch layout {
					case 0:
						root = gen.Obj(gen.PS("@K", v))
					case 1:
						root = gen.Obj(gen.PS("@K", v), gen.P("x", gen.Str(`"s"`)))
					case 2:
						root = gen.Obj(gen.P("x", gen.Str(`"s"`)), gen.PS("@K", v))
					case 4:
						// the shortcut next to a PROPERTY spelled like it
						root = gen.Obj(gen.PS("@K", v), gen.P("@K", gen.Str(`"s"`).With(gen.R("optional", "true"))))
					case 5:
						root = gen.Obj(gen.P("@K", gen.Str(`"s"`)), gen.PS("@K", v))
					default:
						root = gen.Obj(gen.P("x", gen.Str(`"s"`).With(gen.R("optional", "true"))), gen.PS("@K", v), gen.P("z", gen.Int("1").With(gen.R("optional", "true"))))
					}
					if ap != "" {
						root.Rules = append(root.Rules, gen.R("additionalProperties", ap))
					}
					cs := sc.Case{Root: root, Types: []sc.TypeDecl{{Name: "@K", Body: kt}}, Opt: optMode == 2}
					c.visit(cs, docs, "shortcut")
					c.Sample("shortcut", cs.Describe())
				}
			}
		}
	}
	twoShortcuts(c, keyTypes, docs)
}

// twoShortcuts: objects with TWO key shortcuts (every ordered pair of key types,
// values of different kinds), both optional: a key accepted only by the second
// type must be admitted under the second entry.
func twoShortcuts(c *enumCtx, keyTypes []*gen.Node, docs []*gen.JV) {
	for i, k1 := range keyTypes {
		for j, k2 := range keyTypes {
			if i == j {
				continue
			}
			for _, optMode := range []int{1, 2} {
				for _, ap := range []string{"", `"boolean"`} {
					if !c.Mine() {
						continue
					}
					v1, v2 := gen.Int("1"), gen.Str(`"s"`)
					if optMode == 1 {
						v1.Rules = append(v1.Rules, gen.R("optional", "true"))
						v2.Rules = append(v2.Rules, gen.R("optional", "true"))
					}
					root := gen.Obj(gen.PS("@K", v1), gen.PS("@L", v2))
					if ap != "" {
						root.Rules = append(root.Rules, gen.R("additionalProperties", ap))
					}
					cs := sc.Case{Root: root, Types: []sc.TypeDecl{{Name: "@K", Body: k1}, {Name: "@L", Body: k2}}, Opt: optMode == 2}
					c.visit(cs, docs, "two-shortcuts")
				}
			}
		}
	}
}

func replay(raw stdjson.RawMessage) (bool, string) {
	var cs sc.Case
	if err := stdjson.Unmarshal(raw, &cs); err != nil {
		return false, err.Error()
	}
	sc.FixKinds(cs.Doc)
	o := sc.Eval(cs)
	return o.Direction() != "", fmt.Sprintf("%s: Check=%s Validate=%s reference=%s", cs.Describe(), o.Check, o.Val, o.Ref)
}
