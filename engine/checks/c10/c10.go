// Package c10: numeric rules use exact decimal arithmetic on every numeral.
package c10

import (
	stdjson "encoding/json"
	"fmt"
	jlib "github.com/jsightapi/jsight-schema-go-library"
	"strings"
	"time"

	"verif/internal/ev"
	"verif/internal/lib"
	"verif/ref/decimal"
)

func init() {
	ev.Register(&ev.Check{
		ID:             "C10",
		Level:          "exploration",
		Rule:           "all strings <= 7 (quick 6) chars over {-,0,1,5,9,.,e,E,+}: the internal Number (via verif hook) must parse exactly the RFC 8259 numerals and agree with math/big on String, fractional length; all ordered pairs of numerals <= 4 (thorough 5) chars and every numeral against a probe set are compared with exact Cmp; API level (no hook): schemas `E // {min|max A [exclusive]}`, `{type:\"decimal\", precision:p}` and integer example x all numerals <= 5 (6) chars as documents, verdict == exact reference; structured long-numeral family (digit blocks up to 60 digits x exponents up to +-400) all pairs. Non-trivial = a distinct (rule, numeral) or (numeral, numeral) pair on which both reference and library were evaluated.",
		Run:            run,
		Replay:         replay,
		QuickBudget:    150 * time.Second,
		ThoroughBudget: 12 * time.Minute,
		Assumptions: []string{
			"integer-ness of exponent-free numerals with an all-zero fraction (1.0) is not asserted",
			"random 60-digit numerals are replaced by a structured exhaustive family (blocks of 0/1/9 of length 1,2,19,20,21,59,60; exponents -400..400 at boundaries)",
		},
	})
}

const alpha = "-0159.eE+"

type caseT struct {
	Kind   string `json:"kind"` // "parse" | "cmp" | "string" | "frac" | "api"
	A      string `json:"a"`
	B      string `json:"b,omitempty"`
	Schema string `json:"schema,omitempty"`
}

// enumerate calls f for every string of length 1..L over alpha whose first two
// symbols belong to this shard.
func enumerate(c *ev.Ctx, L int, f func(s string)) {
	buf := make([]byte, 0, L)
	var rec func()
	rec = func() {
		if len(buf) > 0 {
			f(string(buf))
		}
		if len(buf) == L {
			return
		}
		for i := 0; i < len(alpha); i++ {
			if len(buf) == 1 && !c.MineKey(string(buf)+string(alpha[i])) {
				// strings of length 1 are handled by the shard owning "x-"
				continue
			}
			buf = append(buf, alpha[i])
			rec()
			buf = buf[:len(buf)-1]
		}
	}
	rec()
}

func numerals(L int) []string {
	var out []string
	buf := make([]byte, 0, L)
	var rec func()
	rec = func() {
		if len(buf) > 0 && decimal.IsNumeral(string(buf)) {
			out = append(out, string(buf))
		}
		if len(buf) == L {
			return
		}
		for i := 0; i < len(alpha); i++ {
			buf = append(buf, alpha[i])
			rec()
			buf = buf[:len(buf)-1]
		}
	}
	rec()
	return out
}

var probes = []string{"0", "-0", "1", "-1", "0.1", "-0.1", "0.5", "1.5", "-1.5", "9", "10", "1e1", "1e-1", "5e-1", "15e-1", "0.10", "1.0", "100", "0.01", "1e2", "1E+2", "-1e-2", "99", "9.9", "0.9", "0.09", "0.99", "1.1", "0.11", "0e0", "0.0", "-0.0", "0e5", "19", "91", "1.9", "9.1", "0.19", "5", "50", "0.5e1", "5e0", "0.05", "1e-9", "-1e9", "1e9"}

func run(c *ev.Ctx) {
	L, Lpair, Ldoc := 6, 4, 5
	if c.Thorough() {
		L, Lpair, Ldoc = 7, 5, 6
	}
	c.Bound("unit_numeral_length", L)
	c.Bound("unit_pair_length", Lpair)
	c.Bound("api_document_length", Ldoc)
	if hooksAvailable {
		unitLevel(c, L, Lpair)
	} else {
		c.Cap("hook_unavailable: unit-level half skipped")
	}
	apiLevel(c, Ldoc)
	guessLevel(c, Ldoc)
	longFamily(c)
}

// zeroMantissaExp: the numerals of the recorded finding (a zero mantissa followed by an exponent). Reductions
// never step from outside this class into it: a new defect must not be reduced to the recorded core.
func zeroMantissaExp(s string) bool {
	s = strings.TrimPrefix(s, "-")
	i := strings.IndexAny(s, "eE")
	if i < 0 {
		return false
	}
	for _, c := range s[:i] {
		if c != '0' && c != '.' {
			return false
		}
	}
	return true
}

// numeralCands lists one-step simplifications of a numeral (all numerals).
func numeralCands(s string) []string {
	var out []string
	seen := map[string]bool{s: true}
	add := func(t string) {
		if !seen[t] && decimal.IsNumeral(t) {
			seen[t] = true
			out = append(out, t)
		}
	}
	if i := strings.IndexAny(s, "eE"); i >= 0 {
		add(s[:i]) // drop the exponent
	}
	if i := strings.IndexByte(s, '.'); i >= 0 {
		j := strings.IndexAny(s, "eE")
		if j < 0 {
			j = len(s)
		}
		add(s[:i] + s[j:]) // drop the fraction
	}
	if strings.HasPrefix(s, "-") {
		add(s[1:])
	}
	add(strings.Replace(s, "E", "e", 1))
	add(strings.Replace(s, "e+", "e", 1))
	add(strings.Replace(s, "e-", "e", 1))
	for i := 0; i < len(s); i++ {
		if s[i] >= '0' && s[i] <= '9' {
			add(s[:i] + s[i+1:]) // delete a digit
		}
	}
	for i := 0; i < len(s); i++ {
		if s[i] >= '1' && s[i] <= '9' {
			add(s[:i] + "0" + s[i+1:])
			if s[i] != '1' {
				add(s[:i] + "1" + s[i+1:])
			}
		}
	}
	return out
}

// ---- API level ------------------------------------------------------------

type ruleForm struct {
	name   string
	bounds func() []string // parameter values
	dflt   string
	schema func(a string) string
	accept func(a string, d decimal.Dec, doc string) (bool, bool) // verdict, asserted
}

func numBounds() []string {
	var bounds []string
	for _, n := range numerals(4) {
		if !strings.ContainsAny(n, "eE") {
			bounds = append(bounds, n)
		}
	}
	return bounds
}

var bigExample = "1" + strings.Repeat("0", 470) + ".5"

func dec(a string) decimal.Dec { d, _ := decimal.Parse(a); return d }

// forms are ordered simplest first (the reducer prefers earlier forms).
func forms() []ruleForm {
	none := func() []string { return []string{""} }
	return []ruleForm{
		{"float", none, "", func(string) string { return "1.5" },
			func(_ string, d decimal.Dec, _ string) (bool, bool) { return true, true }},
		{"integer", none, "", func(string) string { return "1" },
			func(_ string, d decimal.Dec, doc string) (bool, bool) {
				if strings.Contains(doc, ".") && !strings.ContainsAny(doc, "eE") && d.IsIntegral() {
					return false, false // 1.0: not asserted
				}
				return d.IsIntegral(), true
			}},
		{"min", numBounds, "0", func(a string) string { return bigExample + " // {min: " + a + "}" },
			func(a string, d decimal.Dec, _ string) (bool, bool) { return d.Cmp(dec(a)) >= 0, true }},
		{"max", numBounds, "0", func(a string) string { return "-" + bigExample + " // {max: " + a + "}" },
			func(a string, d decimal.Dec, _ string) (bool, bool) { return d.Cmp(dec(a)) <= 0, true }},
		{"exclusiveMinimum", numBounds, "0", func(a string) string { return bigExample + " // {min: " + a + ", exclusiveMinimum: true}" },
			func(a string, d decimal.Dec, _ string) (bool, bool) { return d.Cmp(dec(a)) > 0, true }},
		{"exclusiveMaximum", numBounds, "0", func(a string) string { return "-" + bigExample + " // {max: " + a + ", exclusiveMaximum: true}" },
			func(a string, d decimal.Dec, _ string) (bool, bool) { return d.Cmp(dec(a)) < 0, true }},
		{"exclusiveMinimum:false", numBounds, "0", func(a string) string { return bigExample + " // {min: " + a + ", exclusiveMinimum: false}" },
			func(a string, d decimal.Dec, _ string) (bool, bool) { return d.Cmp(dec(a)) >= 0, true }},
		{"exclusiveMaximum:false", numBounds, "0", func(a string) string { return "-" + bigExample + " // {max: " + a + ", exclusiveMaximum: false}" },
			func(a string, d decimal.Dec, _ string) (bool, bool) { return d.Cmp(dec(a)) <= 0, true }},
		{"precision", func() []string { return []string{"1", "2", "3"} }, "1",
			func(a string) string { return "0.1 // {type: \"decimal\", precision: " + a + "}" },
			func(a string, d decimal.Dec, _ string) (bool, bool) {
				p := int(a[0] - '0')
				return d.FracLen() <= p, true
			}},
		// "counts as integer" where the decision is taken by the root package's GuessSchemaType (the type
		// of an additional property) instead of the validator's own guess
		{"additionalProperties:integer", none, "", func(string) string { return "{ // {additionalProperties: \"integer\"}\n}" },
			func(_ string, d decimal.Dec, doc string) (bool, bool) {
				if strings.Contains(doc, ".") && !strings.ContainsAny(doc, "eE") && d.IsIntegral() {
					return false, false // 1.0: not asserted
				}
				return d.IsIntegral(), true
			}},
	}
}

// docText is the document that carries numeral d under form f.
func docText(form, d string) string {
	if strings.HasPrefix(form, "additionalProperties") {
		return `{"a":` + d + `}`
	}
	return d
}

func apiLevel(c *ev.Ctx, Ldoc int) {
	docs := numerals(Ldoc)
	c.Bound("api_documents", len(docs))
	ddec := make([]decimal.Dec, len(docs))
	for i, d := range docs {
		ddec[i], _ = decimal.Parse(d)
	}
	for _, f := range forms() {
		for _, a := range f.bounds() {
			if !c.Mine() {
				continue
			}
			if c.Expired() {
				return
			}
			text := f.schema(a)
			s, r := lib.Check(lib.SchemaSpec{Text: text})
			if !r.OK {
				c.Inc("api_schema_rejected_" + f.name)
				// The parameter is a plain RFC numeral and the example satisfies the rule: Check must accept.
				c.Violate("api-check;"+text, fmt.Sprintf("Check rejects schema %q whose example satisfies its own rule: %s", text, r), caseT{Kind: "api", Schema: text, A: a})
				continue
			}
			c.Inc("api_schemas")
			for i, d := range docs {
				want, asserted := f.accept(a, ddec[i], d)
				res := lib.Validate(s, docText(f.name, d))
				c.Eval(true)
				if !asserted {
					c.Inc("api_unasserted")
					continue
				}
				if res.Panic != "" || res.OK != want {
					reportAPI(c, f.name, a, d)
				}
			}
		}
	}
}

// guessLevel: the public jschema.GuessSchemaType on every numeral: integer iff the value is integral (dotted
// numerals without exponent such as 1.0 are not asserted), float otherwise - whatever the spelling.
func guessLevel(c *ev.Ctx, L int) {
	for i, d := range numerals(L) {
		if i%c.NShards != c.Shard {
			continue
		}
		dd, _ := decimal.Parse(d)
		if strings.Contains(d, ".") && !strings.ContainsAny(d, "eE") && dd.IsIntegral() {
			continue
		}
		want := "float"
		if dd.IsIntegral() {
			want = "integer"
		}
		bad, desc := guessEval(d)
		c.Eval(true)
		c.Inc("guess_schema_type_numerals")
		if bad {
			_ = want
			// the reduction keeps the KIND of failure (an error is one defect, a wrong type another)
			dir := guessDir(d)
			red := ev.Reduce(d, numeralCands, func(x string) bool {
				b, _ := guessEval(x)
				return b && guessDir(x) == dir && zeroMantissaExp(x) == zeroMantissaExp(d)
			})
			_, desc = guessEval(red)
			c.Violate("guess;"+red, desc, caseT{Kind: "guess", A: red})
		}
	}
}

// guessDir: what GuessSchemaType answers for d ("error" or the type name).
func guessDir(d string) string {
	var got string
	res := lib.Guard(func() error {
		t, err := jlib.GuessSchemaType([]byte(d))
		got = string(t)
		return err
	})
	if !res.OK {
		return "error"
	}
	return got
}

// guessEval: does GuessSchemaType mis-type numeral d?
func guessEval(d string) (bool, string) {
	dd, ok := decimal.Parse(d)
	if !ok || (strings.Contains(d, ".") && !strings.ContainsAny(d, "eE") && dd.IsIntegral()) {
		return false, ""
	}
	want := "float"
	if dd.IsIntegral() {
		want = "integer"
	}
	var got string
	res := lib.Guard(func() error {
		t, err := jlib.GuessSchemaType([]byte(d))
		got = string(t)
		return err
	})
	if !res.OK || got != want {
		return true, fmt.Sprintf("GuessSchemaType(%q) = %q (%s), the exact value %s makes it %s", d, got, res, dd, want)
	}
	return false, ""
}

// apiEval evaluates (form, bound, document); returns violating?, direction, description.
func apiEval(form, a, d string) (bool, string, string, string) {
	var f ruleForm
	for _, x := range forms() {
		if x.name == form {
			f = x
		}
	}
	text := f.schema(a)
	ddec, ok2 := decimal.Parse(d)
	if !ok2 || f.name == "" {
		return false, "", "", text
	}
	s, r := lib.Check(lib.SchemaSpec{Text: text})
	if !r.OK {
		return false, "", "", text
	}
	want, asserted := f.accept(a, ddec, d)
	if !asserted {
		return false, "", "", text
	}
	res := lib.Validate(s, docText(f.name, d))
	if res.Panic != "" {
		return true, "panic", fmt.Sprintf("schema %q: document %s panics: %s", text, d, res.Panic), text
	}
	if res.OK != want {
		return true, fmt.Sprintf("lib=%v,want=%v", res.OK, want),
			fmt.Sprintf("schema %q: document %s (exact value %s) %s, exact arithmetic says %s", text, d, ddec, verdictWord(res), acceptWord(want)), text
	}
	return false, "", "", text
}

type apiCase struct{ form, a, d string }

// apiCode: the error code of the library's verdict on (form, bound, document): two rejections with different
// codes are different defects, and the reduction must not walk from one into the other (a recorded finding
// would otherwise swallow a new one).
func apiCode(form, a, d string) int {
	for _, f := range forms() {
		if f.name == form {
			s, r := lib.Check(lib.SchemaSpec{Text: f.schema(a)})
			if !r.OK {
				return -1
			}
			return lib.Validate(s, docText(form, d)).Code
		}
	}
	return -2
}

func reportAPI(c *ev.Ctx, form, a, d string) {
	_, dir, _, _ := apiEval(form, a, d)
	code := apiCode(form, a, d)
	red := ev.Reduce(apiCase{form, a, d}, func(x apiCase) []apiCase {
		var out []apiCase
		for _, f := range forms() {
			if f.name == x.form {
				break
			}
			out = append(out, apiCase{f.name, f.dflt, x.d})
		}
		for _, dd := range numeralCands(x.d) {
			out = append(out, apiCase{x.form, x.a, dd})
		}
		if x.form == "precision" {
			if x.a > "1" {
				out = append(out, apiCase{x.form, string(x.a[0] - 1), x.d})
			}
		} else if x.a != "" {
			for _, aa := range numeralCands(x.a) {
				if !strings.ContainsAny(aa, "eE") {
					out = append(out, apiCase{x.form, aa, x.d})
				}
			}
		}
		return out
	}, func(x apiCase) bool {
		bad, d2, _, _ := apiEval(x.form, x.a, x.d)
		return bad && d2 == dir && apiCode(x.form, x.a, x.d) == code && zeroMantissaExp(x.d) == zeroMantissaExp(d)
	})
	_, _, desc, text := apiEval(red.form, red.a, red.d)
	c.Violate(fmt.Sprintf("api;%s;%s;%s;%s", red.form, red.a, red.d, dir), desc, caseT{Kind: "api", Schema: text, A: red.a, B: docText(red.form, red.d)})
}

func verdictWord(r lib.Res) string {
	if r.Panic != "" {
		return "panics (" + r.Panic + ")"
	}
	if r.OK {
		return "is accepted"
	}
	return "is rejected (" + r.String() + ")"
}

func acceptWord(b bool) string {
	if b {
		return "accept"
	}
	return "reject"
}

// ---- long numerals ----------------------------------------------------------

func longNumerals() []string {
	var out []string
	blocks := []int{1, 2, 19, 20, 21, 59, 60}
	exps := []string{"", "e-400", "e-61", "e-60", "e-1", "e0", "e1", "E+60", "e61", "E400"}
	digits := []byte{'0', '1', '9'}
	for _, ib := range blocks {
		for _, id := range digits {
			ip := strings.Repeat(string(id), ib)
			if id == '0' {
				ip = "0"
				if ib > 1 {
					ip = "1" + strings.Repeat("0", ib-1)
				}
			}
			for _, fb := range append([]int{0}, blocks...) {
				for _, fd := range digits {
					if fb == 0 && fd != '0' {
						continue
					}
					m := ip
					if fb > 0 {
						m += "." + strings.Repeat(string(fd), fb)
					}
					for _, e := range exps {
						for _, sign := range []string{"", "-"} {
							out = append(out, sign+m+e)
						}
					}
				}
			}
		}
	}
	return out
}

func longFamily(c *ev.Ctx) {
	fam := longNumerals()
	c.Bound("long_family_size", len(fam))
	// API level on a reduced grid; unit level on all pairs (hook).
	decs := make([]decimal.Dec, len(fam))
	for i, s := range fam {
		d, ok := decimal.Parse(s)
		if !ok {
			panic("HARNESS: family member is not a numeral: " + s)
		}
		decs[i] = d
	}
	if hooksAvailable {
		longUnit(c, fam, decs)
	}
	// API: bounds must be exponent-free; take the exponent-free members of modest size as bounds.
	var bidx []int
	for i, s := range fam {
		if !strings.ContainsAny(s, "eE") && len(s) <= 45 {
			bidx = append(bidx, i)
		}
	}
	step := 7
	if c.Thorough() {
		step = 1
	}
	for bi := 0; bi < len(bidx); bi += step {
		if !c.Mine() {
			continue
		}
		if c.Expired() {
			return
		}
		a := fam[bidx[bi]]
		for _, f := range forms()[2:4] {
			text := f.schema(a)
			s, r := lib.Check(lib.SchemaSpec{Text: text})
			if !r.OK {
				c.Violate("api-check-long;"+f.name+";"+a, fmt.Sprintf("Check rejects schema with bound %s although the example satisfies it: %s", a, r), caseT{Kind: "api", Schema: text, A: a})
				continue
			}
			for i, d := range fam {
				want, _ := f.accept(a, decs[i], d)
				res := lib.Validate(s, d)
				c.Eval(true)
				if res.Panic != "" || res.OK != want {
					reportAPI(c, f.name, a, d)
				}
			}
		}
	}
}

func replay(raw stdjson.RawMessage) (bool, string) {
	var cs caseT
	if err := stdjson.Unmarshal(raw, &cs); err != nil {
		return false, err.Error()
	}
	if cs.Kind == "api" {
		s, r := lib.Check(lib.SchemaSpec{Text: cs.Schema})
		if !r.OK {
			return true, fmt.Sprintf("Check(%q) = %s", cs.Schema, r)
		}
		if cs.B == "" {
			return false, "schema accepted"
		}
		res := lib.Validate(s, cs.B)
		return true, fmt.Sprintf("schema %q document %s: %s (replay shows the library's verdict; compare with exact arithmetic)", cs.Schema, cs.B, res)
	}
	if cs.Kind == "guess" {
		return guessEval(cs.A)
	}
	return replayUnit(cs)
}
