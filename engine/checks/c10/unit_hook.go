//go:build verif

package c10

import (
	"fmt"

	"github.com/jsightapi/jsight-schema-go-library/notations/jschema/verifhooks"

	"verif/internal/ev"
	"verif/ref/decimal"
)

const hooksAvailable = true

func newNumber(s string) (n verifhooks.Number, err error) {
	defer func() {
		if r := recover(); r != nil {
			err = fmt.Errorf("PANIC: %v", r)
		}
	}()
	return verifhooks.NewNumber(s)
}

func sign(x int) int {
	if x < 0 {
		return -1
	}
	if x > 0 {
		return 1
	}
	return 0
}

// safeCmp runs the library's comparison; a panic inside it (the library panics on values it considers
// impossible) is an observation, not a harness failure.
func safeCmp(an, bn verifhooks.Number) (got int, panicked string) {
	defer func() {
		if r := recover(); r != nil {
			panicked = fmt.Sprint(r)
		}
	}()
	return an.Cmp(bn), ""
}

func safePreds(an, bn verifhooks.Number) (eq, gt, ge, lt, le bool, panicked string) {
	defer func() {
		if r := recover(); r != nil {
			panicked = fmt.Sprint(r)
		}
	}()
	return an.Equal(bn), an.GreaterThan(bn), an.GreaterThanOrEqual(bn), an.LessThan(bn), an.LessThanOrEqual(bn), ""
}

func cmpPair(c *ev.Ctx, a, b string, an, bn verifhooks.Number, ad, bd decimal.Dec) {
	c.Eval(true)
	got, pan := safeCmp(an, bn)
	want := ad.Cmp(bd)
	if pan != "" {
		c.Violate("cmp;"+a+";"+b, fmt.Sprintf("Number(%s).Cmp(%s) panics: %s", a, b, pan), caseT{Kind: "cmp", A: a, B: b})
		return
	}
	if sign(got) != sign(want) {
		c.Violate("cmp;"+a+";"+b, fmt.Sprintf("Number(%s).Cmp(%s) = %d, exact order of %s and %s is %d", a, b, got, ad, bd, want), caseT{Kind: "cmp", A: a, B: b})
		return
	}
	// derived predicates
	eq, gt, ge, lt, le, pan := safePreds(an, bn)
	if pan != "" || eq != (want == 0) || gt != (want > 0) || ge != (want >= 0) ||
		lt != (want < 0) || le != (want <= 0) {
		c.Violate("cmp-pred;"+a+";"+b, fmt.Sprintf("comparison predicates of Number(%s) vs Number(%s) disagree with exact order %d", a, b, want), caseT{Kind: "cmp", A: a, B: b})
	}
}

func reportParse(c *ev.Ctx, s string) {
	red := ev.Reduce(s, numeralCands, func(t string) bool {
		_, err := newNumber(t)
		return err != nil && zeroMantissaExp(t) == zeroMantissaExp(s)
	})
	_, err := newNumber(red)
	c.Violate("parse;"+red, fmt.Sprintf("NewNumber(%q) fails on an RFC 8259 numeral: %v", red, err), caseT{Kind: "parse", A: red})
}

func unitLevel(c *ev.Ctx, L, Lpair int) {
	type pn struct {
		s string
		n verifhooks.Number
		d decimal.Dec
	}
	var probeN []pn
	for _, p := range probes {
		d, ok := decimal.Parse(p)
		if !ok {
			panic("HARNESS: probe is not a numeral: " + p)
		}
		n, err := newNumber(p)
		if err != nil {
			// reported by the enumeration below if short enough; report here too
			reportParse(c, p)
			continue
		}
		probeN = append(probeN, pn{p, n, d})
	}
	enumerate(c, L, func(s string) {
		d, isNum := decimal.Parse(s)
		n, err := newNumber(s)
		c.Eval(isNum)
		if isNum {
			c.Inc("unit_numerals")
			c.Sample("numeral", s)
		}
		if (err == nil) != isNum {
			if isNum {
				reportParse(c, s)
			} else {
				// The property quantifies over RFC 8259 numerals only; what the
				// internal parser does with other strings is not asserted.
				c.Inc("unit_non_numeral_accepted_unasserted")
			}
			return
		}
		if !isNum {
			return
		}
		if got := n.String(); got != d.String() {
			c.Violate("string;"+s, fmt.Sprintf("Number(%s).String() = %q, normalised expansion is %q", s, got, d.String()), caseT{Kind: "string", A: s})
		}
		if got := int(n.LengthOfFractionalPart()); got != d.FracLen() {
			c.Violate("frac;"+s, fmt.Sprintf("Number(%s).LengthOfFractionalPart() = %d, normalised expansion %s has %d", s, got, d, d.FracLen()), caseT{Kind: "frac", A: s})
		}
		for _, p := range probeN {
			cmpPair(c, s, p.s, n, p.n, d, p.d)
			cmpPair(c, p.s, s, p.n, n, p.d, d)
		}
	})
	// all ordered pairs of short numerals
	short := numerals(Lpair)
	var ns []pn
	for _, s := range short {
		n, err := newNumber(s)
		if err != nil {
			continue // already reported above
		}
		d, _ := decimal.Parse(s)
		ns = append(ns, pn{s, n, d})
	}
	c.Bound("unit_pair_numerals", len(ns))
	for i, a := range ns {
		if i%c.NShards != c.Shard {
			continue
		}
		if c.Expired() {
			return
		}
		for _, b := range ns {
			cmpPair(c, a.s, b.s, a.n, b.n, a.d, b.d)
		}
	}
}

func longUnit(c *ev.Ctx, fam []string, decs []decimal.Dec) {
	ns := make([]verifhooks.Number, len(fam))
	ok := make([]bool, len(fam))
	for i, s := range fam {
		n, err := newNumber(s)
		if err != nil {
			if c.Shard == 0 {
				reportParse(c, s)
			}
			continue
		}
		ns[i], ok[i] = n, true
		if c.Shard == 0 {
			if got := n.String(); got != decs[i].String() {
				c.Violate("string;"+s, fmt.Sprintf("Number(%s).String() = %q, want %q", s, got, decs[i].String()), caseT{Kind: "string", A: s})
			}
			if got := int(n.LengthOfFractionalPart()); got != decs[i].FracLen() {
				c.Violate("frac;"+s, fmt.Sprintf("Number(%s).LengthOfFractionalPart() = %d, want %d", s, got, decs[i].FracLen()), caseT{Kind: "frac", A: s})
			}
		}
	}
	step := 5
	if c.Thorough() {
		step = 1
	}
	for i := range fam {
		if i%c.NShards != c.Shard || !ok[i] {
			continue
		}
		if c.Expired() {
			return
		}
		for j := (i % step); j < len(fam); j += step {
			if ok[j] {
				cmpPair(c, fam[i], fam[j], ns[i], ns[j], decs[i], decs[j])
			}
		}
	}
}

func replayUnit(cs caseT) (bool, string) {
	ad, aok := decimal.Parse(cs.A)
	an, aerr := newNumber(cs.A)
	switch cs.Kind {
	case "parse":
		return aok && aerr != nil, fmt.Sprintf("NewNumber(%q) err=%v, RFC numeral=%v", cs.A, aerr, aok)
	case "string":
		if aerr != nil || !aok {
			return false, "not comparable"
		}
		return an.String() != ad.String(), fmt.Sprintf("String()=%q want %q", an.String(), ad.String())
	case "frac":
		if aerr != nil || !aok {
			return false, "not comparable"
		}
		return int(an.LengthOfFractionalPart()) != ad.FracLen(), fmt.Sprintf("frac=%d want %d", an.LengthOfFractionalPart(), ad.FracLen())
	case "cmp":
		bd, bok := decimal.Parse(cs.B)
		bn, berr := newNumber(cs.B)
		if aerr != nil || berr != nil || !aok || !bok {
			return false, "not comparable"
		}
		got, pan := safeCmp(an, bn)
		if pan != "" {
			return true, fmt.Sprintf("Cmp(%s,%s) panics: %s", cs.A, cs.B, pan)
		}
		return sign(got) != sign(ad.Cmp(bd)), fmt.Sprintf("Cmp(%s,%s)=%d exact=%d", cs.A, cs.B, got, ad.Cmp(bd))
	}
	return false, "unknown kind"
}
