//go:build !verif

package c10

import (
	"verif/internal/ev"
	"verif/ref/decimal"
)

const hooksAvailable = false

func unitLevel(c *ev.Ctx, L, Lpair int)                    {}
func longUnit(c *ev.Ctx, fam []string, decs []decimal.Dec) {}
func replayUnit(cs caseT) (bool, string)                   { return false, "hooks unavailable" }
