// Package corpus merges the schema generators of C01, C03, C04 and C09 into one
// deterministic stream of schema cases (shared by C13, C15, C16).
package corpus

import (
	"verif/checks/c01"
	"verif/checks/c03"
	"verif/checks/c04"
	"verif/checks/c09"
	"verif/checks/sc"
	"verif/gen"
)

// Hostile: keys and strings that need escaping.
func Hostile(f func(sc.Case)) {
	keys := []string{`a"b`, `a\b`, `a/b`, "a\nb", "é", "", " ", "a b", `"`, `\`, "@k", "a\tb", `\"`, "k\u0001"}
	// every control character, DEL and the first characters behind the ASCII range, alone in a key
	for c := 0; c <= 0x20; c++ {
		keys = append(keys, "a"+string(rune(c))+"b")
	}
	keys = append(keys, "a\x7fb", "a\u0080b", "a\u2028b", "\U0001F600")
	for _, k := range keys {
		f(sc.Case{Root: gen.Obj(gen.P(k, gen.Int("1")))})
		f(sc.Case{Root: gen.Obj(gen.P("x", gen.Int("1")), gen.P(k, gen.Str(gen.QuoteJSON(k))))})
		f(sc.Case{Root: gen.Arr(gen.Obj(gen.P(k, gen.Obj(gen.P(k, gen.Null())))))})
	}
	strs := []string{`"a\"b"`, `"\\"`, `"\/"`, `"é"`, `"é"`, `"\n\t"`, `"\""`, `"\"\""`}
	for c := 0; c <= 0x20; c++ {
		strs = append(strs, gen.QuoteJSON("x"+string(rune(c))+"y"))
	}
	for _, s := range strs {
		f(sc.Case{Root: gen.Str(s)})
		f(sc.Case{Root: gen.Obj(gen.P("k", gen.Str(s)))})
		f(sc.Case{Root: gen.Obj(gen.PS("@K", gen.Int("1"))), Types: []sc.TypeDecl{{Name: "@K", Body: gen.Str(s).With(gen.R("minLength", "1"))}}})
	}
}

// ForEach enumerates all cases; family names the source.
func ForEach(thorough bool, f func(family string, cs sc.Case)) {
	n := 3
	if thorough {
		n = 4
	}
	c01.ForEachSchema(n, func(cs sc.Case) { f("c01", cs) })
	c04.ForEachSchema(func(cs sc.Case) { f("c04", cs) })
	c03.ForEachSchema(thorough, func(cs sc.Case) { f("c03", cs) })
	c09.ForEachSchema(func(cs sc.Case) { f("c09", cs) })
	Hostile(func(cs sc.Case) { f("hostile", cs) })
}
