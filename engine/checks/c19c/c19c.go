//go:build shim

// Package c19c: the concurrent clause of C19 — the generated ordered maps used
// from several goroutines are linearizable and free of data races.
package c19c

import (
	stdjson "encoding/json"
	"fmt"
	"strings"
	"time"

	jschema "github.com/jsightapi/jsight-schema-go-library"
	"github.com/jsightapi/jsight-schema-go-library/notations/jschema/verifhooks"
	shim "github.com/jsightapi/jsight-schema-go-library/verifshim"

	"verif/checks/c12"
	"verif/internal/ev"
	"verif/ref/orderedmap"
	"verif/sched"
)

func init() {
	ev.Register(&ev.Check{
		ID:          "C19c",
		Level:       "model_checking",
		Rule:        "controlled-scheduler exploration of the real ASTNodes, RuleASTNodes and Constraints maps: 2 threads x 2 operations (ALL 4-tuples over a 12-operation alphabet: Set(a,1), Set(b,2), Delete(a), Update(a), Filter(drop odd), Map(swap), Get(a), Len, MarshalJSON, Find(v=2), Has(b), Each) and 3 threads x 1 operation (all triples), from the empty and from a two-entry initial state, ALL interleavings at lock points (unbounded preemptions: executions are short); every complete history must be linearizable w.r.t. the reference insertion-ordered map (brute force over all orders consistent with program order) and the race monitor must stay silent.",
		Workers:     func(string) int { return 16 },
		Run:         run,
		Replay:      func(stdjson.RawMessage) (bool, string) { return false, "re-run ./check C19 quick" },
		RaceLog:     true,
		QuickBudget: 150 * time.Second,
	})
}

// cmap is the minimal concurrent surface over int keys/values.
type cmap interface {
	Set(k, v int)
	Delete(k int)
	Update(k int, f func(int) int)
	Filter(f func(k, v int) bool)
	Map(f func(k, v int) int)
	Get(k int) (int, bool)
	Len() int
	Each(f func(k, v int))
	JSON() []byte
	Find(f func(k, v int) bool) (int, int, bool)
	Has(k int) bool
}

var keyNames = []string{"a", "b", "c"}

func kidx(s string) int {
	for i, k := range keyNames {
		if k == s {
			return i
		}
	}
	return -1
}

type astM struct{ m *jschema.ASTNodes }

func aval(v int) jschema.ASTNode { return jschema.ASTNode{Value: fmt.Sprint(v)} }
func aid(n jschema.ASTNode) int {
	var v int
	fmt.Sscan(n.Value, &v)
	return v
}
func (a astM) Set(k, v int) { a.m.Set(keyNames[k], aval(v)) }
func (a astM) Delete(k int) { a.m.Delete(keyNames[k]) }
func (a astM) Update(k int, f func(int) int) {
	a.m.Update(keyNames[k], func(n jschema.ASTNode) jschema.ASTNode { return aval(f(aid(n))) })
}
func (a astM) Filter(f func(k, v int) bool) {
	a.m.Filter(func(k string, v jschema.ASTNode) bool { return f(kidx(k), aid(v)) })
}
func (a astM) Map(f func(k, v int) int) {
	a.m.Map(func(k string, v jschema.ASTNode) (jschema.ASTNode, error) { return aval(f(kidx(k), aid(v))), nil })
}
func (a astM) Get(k int) (int, bool) { v, ok := a.m.Get(keyNames[k]); return aid(v), ok }
func (a astM) Len() int              { return a.m.Len() }
func (a astM) Each(f func(k, v int)) {
	a.m.EachSafe(func(k string, v jschema.ASTNode) { f(kidx(k), aid(v)) })
}

func (a astM) Find(f func(k, v int) bool) (int, int, bool) {
	it, ok := a.m.Find(func(k string, v jschema.ASTNode) bool { return f(kidx(k), aid(v)) })
	return kidx(it.Key), aid(it.Value), ok
}
func (a ruleM) Find(f func(k, v int) bool) (int, int, bool) {
	it, ok := a.m.Find(func(k string, v jschema.RuleASTNode) bool { return f(kidx(k), rid(v)) })
	return kidx(it.Key), rid(it.Value), ok
}
func (a consM) Find(f func(k, v int) bool) (int, int, bool) {
	it, ok := a.m.Find(func(k verifhooks.ConstraintType, v verifhooks.Constraint) bool { return f(int(k), cid(v)) })
	return int(it.Key), cid(it.Value), ok
}
func (a astM) Has(k int) bool  { return a.m.Has(keyNames[k]) }
func (a ruleM) Has(k int) bool { return a.m.Has(keyNames[k]) }
func (a consM) Has(k int) bool { return a.m.Has(ck(k)) }

func (a astM) JSON() []byte  { b, _ := a.m.MarshalJSON(); return b }
func (a ruleM) JSON() []byte { b, _ := a.m.MarshalJSON(); return b }
func (a consM) JSON() []byte { b, _ := a.m.MarshalJSON(); return b }

type ruleM struct{ m *jschema.RuleASTNodes }

func rval(v int) jschema.RuleASTNode { return jschema.RuleASTNode{Value: fmt.Sprint(v)} }
func rid(n jschema.RuleASTNode) int {
	var v int
	fmt.Sscan(n.Value, &v)
	return v
}
func (a ruleM) Set(k, v int) { a.m.Set(keyNames[k], rval(v)) }
func (a ruleM) Delete(k int) { a.m.Delete(keyNames[k]) }
func (a ruleM) Update(k int, f func(int) int) {
	a.m.Update(keyNames[k], func(n jschema.RuleASTNode) jschema.RuleASTNode { return rval(f(rid(n))) })
}
func (a ruleM) Filter(f func(k, v int) bool) {
	a.m.Filter(func(k string, v jschema.RuleASTNode) bool { return f(kidx(k), rid(v)) })
}
func (a ruleM) Map(f func(k, v int) int) {
	a.m.Map(func(k string, v jschema.RuleASTNode) (jschema.RuleASTNode, error) {
		return rval(f(kidx(k), rid(v))), nil
	})
}
func (a ruleM) Get(k int) (int, bool) { v, ok := a.m.Get(keyNames[k]); return rid(v), ok }
func (a ruleM) Len() int              { return a.m.Len() }
func (a ruleM) Each(f func(k, v int)) {
	a.m.EachSafe(func(k string, v jschema.RuleASTNode) { f(kidx(k), rid(v)) })
}

type consM struct{ m *verifhooks.Constraints }

var cvals = map[int]verifhooks.Constraint{1: verifhooks.NewMinLength("1"), 2: verifhooks.NewMinLength("2")}

func cid(c verifhooks.Constraint) int {
	if c == nil {
		return 0
	}
	if v, ok := c.(interface{ Value() uint }); ok {
		return int(v.Value())
	}
	return -1
}
func ck(k int) verifhooks.ConstraintType { return verifhooks.ConstraintType(k) }
func (a consM) Set(k, v int)             { a.m.Set(ck(k), cvals[v]) }
func (a consM) Delete(k int)             { a.m.Delete(ck(k)) }
func (a consM) Update(k int, f func(int) int) {
	a.m.Update(ck(k), func(n verifhooks.Constraint) verifhooks.Constraint { return cvals[f(cid(n))] })
}
func (a consM) Filter(f func(k, v int) bool) {
	a.m.Filter(func(k verifhooks.ConstraintType, v verifhooks.Constraint) bool { return f(int(k), cid(v)) })
}
func (a consM) Map(f func(k, v int) int) {
	a.m.Map(func(k verifhooks.ConstraintType, v verifhooks.Constraint) (verifhooks.Constraint, error) {
		return cvals[f(int(k), cid(v))], nil
	})
}
func (a consM) Get(k int) (int, bool) { v, ok := a.m.Get(ck(k)); return cid(v), ok }
func (a consM) Len() int              { return a.m.Len() }
func (a consM) Each(f func(k, v int)) {
	a.m.EachSafe(func(k verifhooks.ConstraintType, v verifhooks.Constraint) { f(int(k), cid(v)) })
}

func swap(v int) int {
	switch v {
	case 1:
		return 2
	case 2:
		return 1
	}
	return v
}

type opT struct {
	name string
	impl func(m cmap) string
	ref  func(r *orderedmap.Map) string
}

var opsList = []opT{
	{"Set(a,1)", func(m cmap) string { m.Set(0, 1); return "" }, func(r *orderedmap.Map) string { r.Set(0, 1); return "" }},
	{"Set(b,2)", func(m cmap) string { m.Set(1, 2); return "" }, func(r *orderedmap.Map) string { r.Set(1, 2); return "" }},
	{"Delete(a)", func(m cmap) string { m.Delete(0); return "" }, func(r *orderedmap.Map) string { r.Delete(0); return "" }},
	{"Update(a)", func(m cmap) string { m.Update(0, swap); return "" }, func(r *orderedmap.Map) string { r.Update(0, swap); return "" }},
	{"Filter(drop odd)", func(m cmap) string { m.Filter(func(k, v int) bool { return v%2 == 0 }); return "" },
		func(r *orderedmap.Map) string { r.Filter(func(k, v int) bool { return v%2 == 0 }); return "" }},
	{"Map(swap)", func(m cmap) string { m.Map(func(k, v int) int { return swap(v) }); return "" },
		func(r *orderedmap.Map) string { r.Map(func(k, v int) (int, bool) { return swap(v), true }); return "" }},
	{"Get(a)", func(m cmap) string { v, ok := m.Get(0); return fmt.Sprint(v, ok) }, func(r *orderedmap.Map) string { v, ok := r.Get(0); return fmt.Sprint(v, ok) }},
	{"Len", func(m cmap) string { return fmt.Sprint(m.Len()) }, func(r *orderedmap.Map) string { return fmt.Sprint(r.Len()) }},
	{"MarshalJSON", func(m cmap) string {
		// the bytes are read after the call returned: a result that aliases
		// shared memory is a race with the next marshalling
		b := m.JSON()
		n := 0
		for _, c := range b {
			if c == '{' || c == '}' {
				n++
			}
		}
		return fmt.Sprint(n >= 2)
	}, func(r *orderedmap.Map) string { return "true" }},
	{"Find(v=2)", func(m cmap) string {
		k, v, ok := m.Find(func(k, v int) bool { return v == 2 })
		if !ok {
			return "none"
		}
		return fmt.Sprint(k, v)
	}, func(r *orderedmap.Map) string {
		for _, e := range r.Entries() {
			if e[1] == 2 {
				return fmt.Sprint(e[0], e[1])
			}
		}
		return "none"
	}},
	{"Has(b)", func(m cmap) string { return fmt.Sprint(m.Has(1)) }, func(r *orderedmap.Map) string { _, ok := r.Get(1); return fmt.Sprint(ok) }},
	{"Each", func(m cmap) string {
		var s []string
		m.Each(func(k, v int) { s = append(s, fmt.Sprintf("%d=%d", k, v)) })
		return strings.Join(s, ",")
	}, func(r *orderedmap.Map) string {
		var s []string
		for _, e := range r.Entries() {
			s = append(s, fmt.Sprintf("%d=%d", e[0], e[1]))
		}
		return strings.Join(s, ",")
	}},
}

type factory struct {
	name string
	mk   func() cmap
}

var factories = []factory{
	{"ASTNodes", func() cmap { return astM{&jschema.ASTNodes{}} }},
	{"RuleASTNodes", func() cmap { return ruleM{jschema.MakeRuleASTNodes(2)} }},
	{"Constraints", func() cmap { return consM{&verifhooks.Constraints{}} }},
}

// linearizable: is there an order of all operations, consistent with each
// thread's program order, under which the reference gives the observed results
// and final state?
func linearizable(init [][2]int, plan [][]int, results [][]string, final string) bool {
	pos := make([]int, len(plan))
	total := 0
	for _, p := range plan {
		total += len(p)
	}
	var rec func(r *orderedmap.Map, done int) bool
	rec = func(r *orderedmap.Map, done int) bool {
		if done == total {
			return opsList[len(opsList)-1].ref(r) == final
		}
		for t := range plan {
			if pos[t] >= len(plan[t]) {
				continue
			}
			c := r.Clone()
			got := opsList[plan[t][pos[t]]].ref(c)
			if got != results[t][pos[t]] {
				continue
			}
			pos[t]++
			if rec(c, done+1) {
				pos[t]--
				return true
			}
			pos[t]--
		}
		return false
	}
	r := orderedmap.New()
	for _, e := range init {
		r.Set(e[0], e[1])
	}
	return rec(r, 0)
}

func run(c *ev.Ctx) {
	rl := c12.NewRaceLog()
	if !rl.Enabled() {
		c.Cap("race log unavailable: the race monitor is off")
	}
	inits := [][][2]int{nil, {{0, 1}, {1, 2}}}
	var plans [][][]int
	n := len(opsList)
	for a := 0; a < n; a++ {
		for b := 0; b < n; b++ {
			for d := 0; d < n; d++ {
				for e := 0; e < n; e++ {
					plans = append(plans, [][]int{{a, b}, {d, e}})
				}
			}
		}
	}
	for a := 0; a < n; a++ {
		for b := a; b < n; b++ {
			for d := b; d < n; d++ {
				plans = append(plans, [][]int{{a}, {b}, {d}})
			}
		}
	}
	c.Bound("operation_plans", len(plans))
	for _, f := range factories {
		for ii, init := range inits {
			for _, plan := range plans {
				if !c.Mine() {
					continue
				}
				if c.Expired() {
					return
				}
				// skip plans without any mutator or without any shared interest? keep all: they are cheap
				var results [][]string
				var final string
				var m cmap
				planName := describe(plan)
				sc := sched.Scenario{Name: planName, Setup: func() ([]func(), func(*shim.Execution) string) {
					m = f.mk()
					for _, e := range init {
						m.Set(e[0], e[1])
					}
					results = make([][]string, len(plan))
					var bodies []func()
					for t := range plan {
						t := t
						results[t] = make([]string, len(plan[t]))
						bodies = append(bodies, func() {
							for i, oi := range plan[t] {
								results[t][i] = opsList[oi].impl(m)
							}
						})
					}
					return bodies, func(*shim.Execution) string {
						final = opsList[len(opsList)-1].impl(m)
						if !linearizable(init, plan, results, final) {
							return fmt.Sprintf("history is not linearizable: results %q, final state [%s]", results, final)
						}
						return ""
					}
				}}
				st := sched.Explore(sc, sched.Bounds{Preemptions: 99, EnvDevs: 0, StepLimit: 5000, MaxExec: 5000, Stop: c.Expired}, func(ch []int, e *shim.Execution, verdict string) {
					c.Inc("traces_validated_against_impl")
					c.Eval(true)
					c.Add("transitions", int64(len(e.Decisions)))
					if verdict != "" {
						if strings.HasPrefix(verdict, "INTERNAL") {
							panic(verdict)
						}
						c.Violate(fmt.Sprintf("concurrent;%s;%s", f.name, classOf(verdict)), fmt.Sprintf("%s (initial state %d) %s, schedule %v: %s", f.name, ii, planName, ch, verdict), map[string]any{"map": f.name, "plan": planName, "choices": ch})
					}
					for _, r := range rl.New() {
						sum, lib := c12.Summarize(r)
						if lib {
							c.Violate("concurrent-race;"+sum, fmt.Sprintf("%s %s, schedule %v: data race: %s", f.name, planName, ch, sum), map[string]any{"map": f.name, "plan": planName, "choices": ch})
						}
					}
				})
				c.Inc("states")
				c.Inc("plans_" + f.name)
				if st.Capped {
					c.Cap("execution cap in " + planName)
				}
				if len(plan) == 3 {
					c.Sample(f.name, map[string]any{"plan": planName, "executions": st.Executions})
				}
			}
		}
	}
}

func classOf(v string) string {
	if i := strings.Index(v, ":"); i > 0 {
		return v[:i]
	}
	return v
}

func describe(plan [][]int) string {
	var ts []string
	for _, p := range plan {
		var os []string
		for _, o := range p {
			os = append(os, opsList[o].name)
		}
		ts = append(ts, strings.Join(os, ";"))
	}
	return strings.Join(ts, " || ")
}
