//go:build !shim

// Package c19c (concurrent clause of C19) needs the scheduler variant.
package c19c
