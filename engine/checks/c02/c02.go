// Package c02: scalar rules admit exactly the values their definitions describe.
package c02

import (
	stdjson "encoding/json"
	"fmt"
	"strings"
	"time"

	"verif/checks/sc"
	"verif/gen"
	"verif/internal/ev"
	"verif/internal/lib"
	"verif/ref/refv"
)

func init() {
	ev.Register(&ev.Check{
		ID:             "C02",
		Level:          "exploration",
		Rule:           "for each scalar kind: ALL rule sets of <= 5 (thorough 7) distinct rule names from the applicable pool (min,max,exclusiveMinimum,exclusiveMaximum,precision,type,nullable,const,enum | minLength,maxLength,regex,type incl. formats,...) x ALL parameter variants from boundary sets (bounds {-1,0,0.5,1,10}, lengths {0,1,2}, 3 patterns, true/false) x every example candidate the reference accepts, kept when Check accepts; each validated against ALL probe values on/just inside/just outside every bound (33 numerals + alternative spellings, 20 strings incl. escapes, format grids: dates over 5 years x months 00-13 x days 00-32, datetime field boundaries, uuid shapes, curated email/uri lists) and every other kind. Second family: every ordered pair of C04's annotated scalar slots as sibling properties and as sibling array items, validated against every combination of (good | each rule-breaking value) for both siblings: the verdict must be the conjunction the reference computes (validator state must not leak between siblings). Oracle: reference rule semantics (math/big, regexp, calendar), three-valued. Non-trivial = distinct (rule set, example, probe) with decided reference.",
		Run:            run,
		Replay:         replay,
		QuickBudget:    80 * time.Second,
		ThoroughBudget: 14 * time.Minute,
		Assumptions: []string{
			"non-ASCII strings are not asserted for length rules; alternative spellings of the probe are not asserted for const/enum",
			"RFC 3339 corners (lowercase t/z, :60, year 0000), urn:/brace/32-hex UUID forms, email/uri beyond a curated list of unambiguous positives/negatives are not asserted",
		},
	})
}

type variant struct {
	name string
	vals []gen.Rule
}

func rv(name string, vals ...string) variant {
	v := variant{name: name}
	for _, x := range vals {
		v.vals = append(v.vals, gen.R(name, x))
	}
	return v
}

func lits(xs ...string) []gen.RuleItem {
	var out []gen.RuleItem
	for _, x := range xs {
		out = append(out, gen.RuleItem{Lit: x})
	}
	return out
}

var numBounds = []string{"-1", "0", "0.5", "1", "10"}

func numericPool(float bool, thorough bool) []variant {
	p := []variant{
		rv("min", numBounds...),
		rv("max", numBounds...),
		rv("exclusiveMinimum", "true", "false"),
		rv("exclusiveMaximum", "true", "false"),
		rv("nullable", "true", "false"),
		rv("const", "true", "false"),
		{name: "enum", vals: []gen.Rule{gen.RL("enum", lits("1", "0.5", `"1"`, "null")...), gen.RL("enum", lits("10", "-1", "true")...)}},
	}
	if float {
		p = append(p, rv("precision", "1", "2"), rv("type", `"float"`, `"decimal"`))
	} else {
		p = append(p, rv("type", `"integer"`, `"float"`))
	}
	return p
}

func stringPool() []variant {
	return []variant{
		rv("minLength", "0", "1", "2"),
		rv("maxLength", "0", "1", "2"),
		rv("regex", `"^a"`, `"b$"`, `"a.c"`, `"^[ab]*$"`, `"^ab$"`, `"\\Aab\\z"`, `"^(?:abc)$"`, `"^a\\.c$"`, `"ab"`, `"^$"`),
		rv("nullable", "true", "false"),
		rv("const", "true", "false"),
		rv("type", `"string"`, `"email"`, `"uri"`, `"uuid"`, `"date"`, `"datetime"`),
		{name: "enum", vals: []gen.Rule{gen.RL("enum", lits(`"a"`, `"ab"`, "1", "null")...), gen.RL("enum", lits(`""`, `"1"`, "true")...)}},
	}
}

func boolNullPool() []variant {
	return []variant{
		rv("nullable", "true", "false"),
		rv("const", "true", "false"),
		rv("type", `"boolean"`, `"null"`),
		{name: "enum", vals: []gen.Rule{gen.RL("enum", lits("true", `"true"`, "null")...), gen.RL("enum", lits("false", "1")...)}},
	}
}

// ruleSets enumerates all rule lists with at most k distinct names.
func ruleSets(pool []variant, k int, f func([]gen.Rule)) {
	var rec func(start int, cur []gen.Rule)
	rec = func(start int, cur []gen.Rule) {
		f(append([]gen.Rule{}, cur...))
		if len(cur) == k {
			return
		}
		for i := start; i < len(pool); i++ {
			for _, v := range pool[i].vals {
				rec(i+1, append(cur, v))
			}
		}
	}
	rec(0, nil)
}

var intExamples = []string{"0", "1", "-1", "2", "10", "11", "-2", "5"}
var floatExamples = []string{"0.5", "1.5", "-0.5", "0.75", "10.5", "0.25", "-1.5", "0.05", "2.25", "1.0"}
var strExamples = []string{`""`, `"a"`, `"ab"`, `"abc"`, `"b"`, `"bc"`, `"a.c"`, `"a@b.cc"`, `"http://a.b/c"`, `"550e8400-e29b-41d4-a716-446655440000"`, `"2024-02-29"`, `"2023-01-31T23:59:59Z"`}

var numProbes = []string{"-2", "-1.1", "-1.01", "-1", "-0.99", "-0.9", "-0.1", "-0.01", "0", "0.01", "0.1", "0.4", "0.49", "0.5", "0.51", "0.6", "0.9", "0.99", "1", "1.01", "1.1", "1.5", "2", "9", "9.9", "9.99", "10", "10.01", "10.1", "11", "0.125", "1.25", "1.255",
	"1.0", "1e0", "10e-1", "0.5e1", "-0.0", "5e-1", "1E1", "0.50", "100e-1", "1.5e-2", "-2.5E-3", "1.255e+1", "1.255E2", "1.25e1", "12.5e-1", "0.15e1", "1e-1", "1e-2", "15e-3"}
var strProbes = []string{`""`, `"a"`, `"ab"`, `"abc"`, `"abcd"`, `"b"`, `"ba"`, `"bc"`, `"xbc"`, `"A"`, `"\n"`, `"\""`, `"a"`, `"aXc"`, `"é"`, `"a\nc"`, `"1"`, `"true"`, `"null"`, `"a b"`, `"\\"`, `"\/"`,
	// an unpaired surrogate escape followed by an ordinary \u escape: the second escape is a character of its own
	`"\"abc\""`, `"\"\""`, `"\"a\""`, `"\"ab"`, `"a\"\"b"`, `"\\\"a\\\""`,
	`"\ud83d\u0062"`, `"\udc00\u0061"`, `"a\ud83d\u0062"`, `"\ud83d\ude00b"`, `"\u0061\u0062"`,
	// strings that CONTAIN what an anchored pattern spells without being it
	`"xab"`, `"abx"`, `"ab ab"`, `"ab\nab"`, `"a.c"`, `"a.c!"`, `"-a.c"`, `"axc"`, `"abcabc"`, `" abc"`}
var otherProbes = []*gen.JV{gen.JNull(), gen.JBool("true"), gen.JBool("false"), gen.JObj(), gen.JArr(), gen.JArr(gen.JInt("1")), gen.JObj(gen.Member{Key: "a", Val: gen.JInt("1")})}

func numJV(l string) *gen.JV {
	if strings.ContainsAny(l, ".eE") {
		return gen.JFloat(l)
	}
	return gen.JInt(l)
}

func dateProbes() []string {
	var out []string
	for _, y := range []string{"0000", "1900", "2000", "2023", "2024"} {
		for m := 0; m <= 13; m++ {
			for _, d := range []int{0, 1, 15, 28, 29, 30, 31, 32} {
				out = append(out, fmt.Sprintf(`"%s-%02d-%02d"`, y, m, d))
			}
		}
	}
	out = append(out, `"2024-2-29"`, `"24-02-29"`, `"2024/02/29"`, `"2024-02-29 "`, `" 2024-02-29"`, `"2024-02-29T00:00:00Z"`, `"20240229"`, `"2024-02-2a"`)
	return out
}

func datetimeProbes() []string {
	base := []string{"2023-01-31T23:59:59Z", "2024-02-29T00:00:00+00:00", "2023-02-29T00:00:00Z", "2023-13-01T00:00:00Z", "2023-00-10T00:00:00Z", "2023-01-32T00:00:00Z",
		"2023-01-31T24:00:00Z", "2023-01-31T23:60:00Z", "2023-01-31T23:59:60Z", "2023-01-31T23:59:61Z", "2023-01-31T23:59:59", "2023-01-31 23:59:59Z", "2023-01-31t23:59:59z",
		"2023-01-31T23:59:59.123Z", "2023-01-31T23:59:59.Z", "2023-01-31T23:59:59+23:59", "2023-01-31T23:59:59+24:00", "2023-01-31T23:59:59-01:60", "2023-01-31T23:59:59+0100", "2023-01-31", "23:59:59Z", "2023-01-31T23:59Z", "2023-1-31T23:59:59Z", "x"}
	var out []string
	for _, b := range base {
		out = append(out, `"`+b+`"`)
	}
	return out
}

func uuidProbes() []string {
	const u = "550e8400-e29b-41d4-a716-446655440000"
	out := []string{u, strings.ToUpper(u), "00000000-0000-0000-0000-000000000000", "", "x", u[:23],
		"{" + u + "}", "urn:uuid:" + u, strings.ReplaceAll(u, "-", ""), "URN:UUID:" + u, "urn:uuix:" + u, "urn:uuid:" + u + "0", "(" + u + ")", "{" + u + ")", "[" + u + "]"}
	// every single-character insertion, deletion and substitution of the canonical
	// form and of its braced form by a small alphabet
	for _, base := range []string{u, "{" + u + "}", "urn:uuid:" + u} {
		for i := 0; i <= len(base); i++ {
			if i < len(base) {
				out = append(out, base[:i]+base[i+1:])
			}
			for _, c := range []string{"{", "}", "x", "-", "0", "G", " "} {
				out = append(out, base[:i]+c+base[i:])
				if i < len(base) {
					out = append(out, base[:i]+c+base[i+1:])
				}
			}
		}
	}
	seen := map[string]bool{}
	var q []string
	for _, s := range out {
		if !seen[s] {
			seen[s] = true
			q = append(q, gen.QuoteJSON(s))
		}
	}
	return q
}

// curated (value, expected) lists for email and uri
var emailProbes = map[string]refv.Verdict{`"a@b.cc"`: refv.Accept, `"john.doe@example.com"`: refv.Accept, `""`: refv.Reject, `"a"`: refv.Reject, `"a@"`: refv.Reject, `"@b.cc"`: refv.Reject, `"a b@c.dd"`: refv.Reject, `"a@@b.cc"`: refv.Reject}
var uriProbes = map[string]refv.Verdict{`"http://a.b/c"`: refv.Accept, `"https://example.com/x?y=1#z"`: refv.Accept, `""`: refv.Reject, `"a"`: refv.Reject, `"http://"`: refv.Reject, `"//a.b"`: refv.Reject, `"http://a b"`: refv.Reject}

func report(c *ev.Ctx, cs sc.Case, dir string, ref refv.Verdict) {
	red := ev.Reduce(cs, sc.Cands, func(x sc.Case) bool {
		if x.Doc == nil || x.Root.Kind != cs.Root.Kind {
			return false
		}
		return evalCase(x).Direction() == dir
	})
	o := evalCase(red)
	c.Violate("validate;"+dir+";"+red.Describe(),
		fmt.Sprintf("%s: library %s, the rule definitions say %s", red.Describe(), o.Val, o.Ref), red)
}

// evalCase = sc.Eval plus the curated email/uri oracle.
func evalCase(cs sc.Case) sc.Outcome {
	o := sc.Eval(cs)
	if o.Check.OK && o.Ref == refv.Unspecified {
		o.Ref = curated(cs)
	}
	return o
}

// curated decides email/uri probes when the node carries only that format
// (plus inert/nullable rules).
func curated(cs sc.Case) refv.Verdict {
	t := cs.Root.Rule("type")
	if t == nil || cs.Doc == nil || cs.Doc.Kind != gen.KStr {
		return refv.Unspecified
	}
	for _, r := range cs.Root.Rules {
		switch r.Name {
		case "type", "nullable":
		case "const":
			if r.Val == "true" {
				return refv.Unspecified
			}
		default:
			return refv.Unspecified
		}
	}
	switch t.Val {
	case `"email"`:
		if v, ok := emailProbes[cs.Doc.Lit]; ok {
			return v
		}
	case `"uri"`:
		if v, ok := uriProbes[cs.Doc.Lit]; ok {
			return v
		}
	}
	return refv.Unspecified
}

func run(c *ev.Ctx) {
	k := 5
	if c.Thorough() {
		k = 7
	}
	c.Bound("rules_per_set", k)
	type kindSpec struct {
		kind     gen.Kind
		pool     []variant
		examples []string
	}
	specs := []kindSpec{
		{gen.KInt, numericPool(false, c.Thorough()), intExamples},
		{gen.KFloat, numericPool(true, c.Thorough()), floatExamples},
		{gen.KStr, stringPool(), strExamples},
		{gen.KBool, boolNullPool(), []string{"true", "false"}},
		{gen.KNull, boolNullPool(), []string{"null"}},
	}
	dates, dts, uuids := dateProbes(), datetimeProbes(), uuidProbes()
	for _, sp := range specs {
		ruleSets(sp.pool, k, func(rules []gen.Rule) {
			if !c.Mine() {
				return
			}
			if c.Expired() {
				return
			}
			env := &refv.Env{}
			accepted := 0
			for _, ex := range sp.examples {
				root := &gen.Node{Kind: sp.kind, Lit: ex, Rules: rules}
				exDoc := &gen.JV{Kind: sp.kind, Lit: ex}
				// the example must satisfy its own rules per the reference
				if refv.Accepts(env, root, exDoc) != refv.Accept {
					continue
				}
				cs := sc.Case{Root: root}
				s, r := lib.Check(cs.Spec())
				if !r.OK {
					c.Inc("check_rejected")
					continue
				}
				c.Inc("schemas")
				accepted++
				var probes []*gen.JV
				probes = append(probes, exDoc)
				probes = append(probes, otherProbes...)
				for _, p := range numProbes {
					probes = append(probes, numJV(p))
				}
				strs := strProbes
				if t := root.Rule("type"); t != nil {
					switch t.Val {
					case `"date"`:
						strs = append(append([]string{}, strs...), dates...)
					case `"datetime"`:
						strs = append(append([]string{}, strs...), dts...)
					case `"uuid"`:
						strs = append(append([]string{}, strs...), uuids...)
					case `"email"`:
						for p := range emailProbes {
							strs = append(strs, p)
						}
					case `"uri"`:
						for p := range uriProbes {
							strs = append(strs, p)
						}
					}
				}
				if sp.kind == gen.KStr {
					for _, e := range strExamples {
						strs = append(strs, e)
					}
				}
				for _, p := range strs {
					probes = append(probes, gen.JStr(p))
				}
				for _, d := range probes {
					cs.Doc = d
					res := lib.Validate(s, d.Compact())
					want := refv.Accepts(env, root, d)
					if want == refv.Unspecified {
						want = curated(cs)
					}
					c.Eval(want != refv.Unspecified)
					switch want {
					case refv.Unspecified:
						c.Inc("unspecified")
					case refv.Accept:
						c.Inc("ref_accept")
					default:
						c.Inc("ref_reject")
					}
					if res.OK {
						c.Inc("lib_accept")
					} else {
						c.Inc(fmt.Sprintf("lib_code_%d", res.Code))
					}
					o := sc.Outcome{Check: r, Val: res, Ref: want}
					if dir := o.Direction(); dir != "" {
						report(c, cs, dir, want)
					}
				}
				if len(rules) == 3 {
					c.Sample("schema-"+sp.kind.String(), map[string]any{"schema": cs.Spec().Text, "probes": len(probes)})
				}
			}
		})
	}
	siblings(c)
}

func replay(raw stdjson.RawMessage) (bool, string) {
	var cs sc.Case
	if err := stdjson.Unmarshal(raw, &cs); err != nil {
		return false, err.Error()
	}
	sc.FixKinds(cs.Doc)
	o := evalCase(cs)
	return o.Direction() != "", fmt.Sprintf("%s: Check=%s Validate=%s reference=%s", cs.Describe(), o.Check, o.Val, o.Ref)
}

// ForEachAnnotatedScalar yields every (scalar example with a rule set of <= k
// names from the kind's applicable pool) whose example the reference accepts:
// the mostly well-formed combinations C08's accept side needs.
func ForEachAnnotatedScalar(k int, f func(root *gen.Node)) {
	type kindSpec struct {
		kind     gen.Kind
		pool     []variant
		examples []string
	}
	specs := []kindSpec{
		{gen.KInt, numericPool(false, false), intExamples},
		{gen.KFloat, numericPool(true, false), floatExamples},
		{gen.KStr, stringPool(), strExamples},
		{gen.KBool, boolNullPool(), []string{"true", "false"}},
		{gen.KNull, boolNullPool(), []string{"null"}},
	}
	env := &refv.Env{}
	for _, sp := range specs {
		ruleSets(sp.pool, k, func(rules []gen.Rule) {
			for _, ex := range sp.examples {
				root := &gen.Node{Kind: sp.kind, Lit: ex, Rules: rules}
				if refv.Accepts(env, root, &gen.JV{Kind: sp.kind, Lit: ex}) == refv.Accept {
					f(root)
				}
			}
		})
	}
}
