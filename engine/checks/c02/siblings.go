package c02

import (
	"fmt"

	"verif/checks/c04"
	"verif/checks/sc"
	"verif/gen"
	"verif/internal/ev"
	"verif/internal/lib"
	"verif/ref/refv"
)

// siblings: every ordered pair of annotated scalar slots (C04's slot table:
// a rule set, a value obeying it, values breaking exactly one rule) as sibling
// properties and as sibling array items, validated against every combination
// of (good | each bad value) x (good | each bad value). Validator state of one
// value must not leak into its sibling: the verdict must be the conjunction
// the reference computes.

type sibCase struct {
	Case sc.Case `json:"case"`
}

func scalarSlots() []c04.Slot {
	var out []c04.Slot
	for _, s := range c04.Slots() {
		k := s.Good.Kind
		if k == gen.KObj || k == gen.KArr || k == gen.KRef {
			continue
		}
		if len(s.Name) > 3 && s.Name[:3] == "or[" {
			continue
		}
		out = append(out, s)
	}
	return out
}

// jvOf: the document value spelled like the node's literal (the slot table keeps
// the slot's kind on rule-breaking values of another kind: the kind is taken
// from the literal itself).
func jvOf(n *gen.Node) *gen.JV {
	l := n.Lit
	switch {
	case len(l) > 0 && l[0] == '"':
		return gen.JStr(l)
	case l == "true" || l == "false":
		return gen.JBool(l)
	case l == "null":
		return gen.JNull()
	}
	return numJV(l)
}

func siblings(c *ev.Ctx) {
	ss := scalarSlots()
	c.Bound("sibling_slots", len(ss))
	n := 0
	for _, a := range ss {
		for _, b := range ss {
			n++
			if !c.MineKey(fmt.Sprintf("sib%d", n)) || c.Expired() {
				continue
			}
			for _, items := range []bool{false, true} {
				root := gen.Obj(gen.P("a", a.Good.Clone()), gen.P("b", b.Good.Clone()))
				if items {
					root = gen.Arr(a.Good.Clone(), b.Good.Clone())
				}
				cs := sc.Case{Root: root, Types: c04.Types()}
				s, r := lib.Check(cs.Spec())
				if !r.OK {
					c.Inc("sibling_schema_rejected")
					continue
				}
				env := cs.Env()
				va := []*gen.JV{jvOf(a.Good)}
				for _, x := range a.Corrupt {
					va = append(va, jvOf(x))
				}
				vb := []*gen.JV{jvOf(b.Good)}
				for _, x := range b.Corrupt {
					vb = append(vb, jvOf(x))
				}
				for _, x := range va {
					for _, y := range vb {
						var d *gen.JV
						if items {
							d = gen.JArr(x, y)
						} else {
							d = gen.JObj(gen.Member{Key: "a", Val: x}, gen.Member{Key: "b", Val: y})
						}
						want := refv.Accepts(env, root, d)
						res := lib.Validate(s, d.Compact())
						c.Eval(want != refv.Unspecified)
						c.Inc("sibling_validations")
						cs.Doc = d
						o := sc.Outcome{Check: r, Val: res, Ref: want}
						if dir := o.Direction(); dir != "" {
							report(c, cs, dir, want)
						}
					}
				}
			}
		}
	}
}
