// Package rep: JSON texts made of n copies of one unit (shared by C05 and C06).
package rep

import (
	"fmt"
	"strings"
)

// Counts: every count up to 10 and the neighbours of the powers of two up to 256, then 300 and 1000:
// counters, stacks and buffers that leak or wrap per repeated element show at one of them.
var Counts = []int{1, 2, 3, 4, 5, 6, 7, 8, 9, 10, 15, 16, 17, 31, 32, 33, 63, 64, 65, 66, 100, 127, 128, 129, 255, 256, 257, 300, 1000}

// Units are the JSON values that are repeated.
var Units = []string{"[]", "{}", "1", `"a"`, `""`, "null", "[1]", `{"a":1}`, "[[]]", `{"a":{}}`, `[{}]`, `{"a":[]}`}

// Texts returns the JSON texts holding n copies of unit u: as the items of an array, as the members of an
// object, one level down in an array and in objects, and with blanks and line breaks between the tokens.
func Texts(u string, n int) []string {
	var items, members []string
	for i := 0; i < n; i++ {
		items = append(items, u)
		members = append(members, fmt.Sprintf(`"k%d":%s`, i, u))
	}
	a := "[" + strings.Join(items, ",") + "]"
	o := "{" + strings.Join(members, ",") + "}"
	return []string{a, o, "[" + a + "," + u + "]", `{"x":` + a + `,"y":` + u + "}", `{"x":` + o + `,"y":` + u + "}", "[ " + strings.Join(items, " ,\n") + " ]"}
}

// UTF8Chars: one character per combination of UTF-8 byte classes (lead bytes C2..F4, continuation bytes in
// 80..9F and in A0..BF, the extremes of every length), and DEL - raw bytes a byte-wise scanner may mistake
// for control characters or for structure.
var UTF8Chars = []string{
	"\x7f", "\u0080", "\u009f", " ", "À", "é", "ÿ", "Ā", "ю", "߿",
	"ࠀ", "€", "日", "퟿", "", "�", "￿", "\U00010000", "\U0001f3c6", "\U0010ffff",
}

// UTF8Texts returns JSON texts holding the raw character ch in a string value, in a key, in both, twice, and
// next to escapes and structure.
func UTF8Texts(ch string) []string {
	return []string{
		`"` + ch + `"`, `"x` + ch + `y"`, `["` + ch + `","a"]`, `{"` + ch + `":1}`, `{"k":"` + ch + ` ` + ch + `"}`,
		`"\n` + ch + `A"`, `{"` + ch + `":"` + ch + `","b":["` + ch + `"]}`, ` "` + ch + `" `, `"` + ch + ch + ch + `"`,
	}
}
