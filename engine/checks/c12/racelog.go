//go:build shim

package c12

import (
	"os"
	"path/filepath"
	"strings"
)

// RaceLog watches the race detector's log file of this process.
type RaceLog struct {
	path string
	off  int64
}

func NewRaceLog() *RaceLog {
	return &RaceLog{path: os.Getenv("VERIF_RACE_LOG")}
}

func (r *RaceLog) Enabled() bool { return r.path != "" }

// New returns the race reports written since the last call.
func (r *RaceLog) New() []string {
	if r.path == "" {
		return nil
	}
	files, _ := filepath.Glob(r.path + ".*")
	var out []string
	for _, f := range files {
		if !strings.HasSuffix(f, "."+itoa(os.Getpid())) {
			continue
		}
		data, err := os.ReadFile(f)
		if err != nil || int64(len(data)) <= r.off {
			continue
		}
		chunk := string(data[r.off:])
		r.off = int64(len(data))
		for _, rep := range strings.Split(chunk, "==================") {
			if strings.Contains(rep, "DATA RACE") {
				out = append(out, rep)
			}
		}
	}
	return out
}

func itoa(n int) string {
	if n == 0 {
		return "0"
	}
	s := ""
	for n > 0 {
		s = string(rune('0'+n%10)) + s
		n /= 10
	}
	return s
}

// Summarize reduces a race report to the two innermost library frames.
func Summarize(rep string) (summary string, inLibrary bool) {
	// frames of the root package read "<module>.(*T).M()", of sub-packages "<module>/pkg.F()"
	const mod = "github.com/jsightapi/jsight-schema-go-library"
	var frames []string
	section := ""
	got := map[string]bool{}
	innermost := map[string]string{}
	for _, l := range strings.Split(rep, "\n") {
		t := strings.TrimSpace(l)
		if section != "" && innermost[section] == "" && strings.HasSuffix(t, ")") && !strings.HasPrefix(t, "runtime.") && !strings.HasPrefix(t, "/") && !strings.HasPrefix(t, "sync.") && !strings.HasPrefix(t, "bytes.") && !strings.HasPrefix(t, "strings.") && strings.Contains(t, ".") && !strings.Contains(t, " at 0x") {
			innermost[section] = t
		}
		switch {
		case strings.HasPrefix(t, "Write at"), strings.HasPrefix(t, "Read at"), strings.HasPrefix(t, "Previous write at"), strings.HasPrefix(t, "Previous read at"):
			section = strings.Fields(t)[0]
			if strings.HasPrefix(t, "Previous") {
				section = "Previous " + strings.Fields(t)[1]
			}
		case strings.HasPrefix(t, "Goroutine"):
			section = ""
		case section != "" && (strings.HasPrefix(t, mod+"/") || strings.HasPrefix(t, mod+".")) && !strings.Contains(t, "/verifshim."):
			if !got[section] {
				got[section] = true
				fn := strings.TrimLeft(strings.TrimPrefix(t, mod), "/.")
				if i := strings.Index(fn, "("); i > 0 && strings.HasSuffix(fn, ")") {
					fn = strings.TrimSuffix(fn, "()")
				}
				frames = append(frames, section+" in "+fn)
			}
		}
	}
	// An access performed by the shim itself (its bookkeeping) is not a library race.
	for _, f := range innermost {
		if strings.Contains(f, "/verifshim.") {
			return "shim-internal: " + strings.Join(frames, " / "), false
		}
	}
	return strings.Join(frames, " / "), len(frames) > 0
}
