//go:build shim

// Package c12: a loaded schema can be shared by concurrent goroutines.
package c12

import (
	stdjson "encoding/json"
	"fmt"
	"sort"
	"strings"
	"time"

	"github.com/jsightapi/jsight-schema-go-library/formats/json"
	"github.com/jsightapi/jsight-schema-go-library/notations/jschema"
	"github.com/jsightapi/jsight-schema-go-library/notations/regex"
	"github.com/jsightapi/jsight-schema-go-library/rules/enum"
	shim "github.com/jsightapi/jsight-schema-go-library/verifshim"

	"verif/internal/ev"
	"verif/sched"
)

func init() {
	ev.Register(&ev.Check{
		ID:             "C12",
		Level:          "model_checking",
		Rule:           "stateless exploration (CHESS-style DFS over choice prefixes) of the REAL library under a controlled scheduler injected by a build overlay (every sync.Once/Mutex/RWMutex/Pool operation of the library is a scheduling point; exactly one test goroutine runs at a time): scenarios S1 (uncompiled shared schema with types/enum, 2 threads x every ordered pair of ops from {Check, Validate, Example, GetAST, Len, UsedUserTypes}, 3 threads x 1 op), S2 (2 threads x 2 ops: first use + reuse), S3 (two root schemas sharing one added-type object using allOf + or, compiled concurrently), S3b (the same with a shared added type made of ruled literals only, also Example), S4 (shared compiled schema validated by 2 threads while a third creates, compiles and Example()s a private schema), S5 (enum rule / regex type first use), S6 (2 and 3 goroutines each creating, loading, compiling and using private schemas: only the global pools are shared), S7 (first use of a shared schema WITHOUT added types, valid and invalid: its first load is raced as well), S8 (documents lacking required keys / holding unknown keys validated concurrently against a compiled shared schema); ALL interleavings with <= 2 preemptions (3 threads: <= 1; thorough: 3 / 2) crossed with pool-answer deviations (<= 1). Oracle per execution: every call returns exactly its sequential result; every Once body ran once; no deadlock/livelock; the race detector (running as per-execution happens-before monitor: the scheduler's hand-off is invisible to it) reports nothing. states = distinct decision points visited, transitions = scheduling decisions taken, traces_validated_against_impl = executions (each one is an execution of the implementation).",
		Workers:        func(string) int { return 16 },
		Run:            run,
		Replay:         replay,
		RaceLog:        true,
		QuickBudget:    200 * time.Second,
		ThoroughBudget: 14 * time.Minute,
		Assumptions: []string{
			"scheduling points at the library's synchronisation operations suffice because unsynchronised conflicting accesses between points are reported by the per-execution race monitor",
			"2-3 goroutines with a preemption bound, not 32 free-running ones",
		},
	})
}

// ---- fixtures ----------------------------------------------------------------------------

const rootText = "{ // {allOf: \"@base\"}\n  \"id\": 1, // {min: 0}\n  \"name\": @str,\n  \"tags\": [\n    @str | @num\n  ],\n  \"level\": 2, // {enum: @lvl}\n  @key: true // {optional: true}\n}"

var typeTexts = [][2]string{
	{"@base", "{\n  \"b\": 1 // {optional: true}\n}"},
	{"@str", "\"s\" // {minLength: 1}"},
	{"@num", "1"},
	{"@key", "\"k\" // {regex: \"^k\"}"},
}

const goodDoc = `{"id":1,"name":"x","tags":["a",2],"level":3,"k1":true}`
const badDoc = `{"id":-1,"name":"x","tags":[],"level":2}`

func newShared() *jschema.Schema {
	s := jschema.New("root", rootText)
	if err := s.AddRule("@lvl", enum.New("@lvl", "[1, 2, 3]")); err != nil {
		panic(err)
	}
	for _, t := range typeTexts {
		if err := s.AddType(t[0], jschema.New(t[0], t[1])); err != nil {
			panic(err)
		}
	}
	return s
}

type op struct {
	name string
	f    func(s *jschema.Schema) string
}

func errStr(err error) string {
	if err == nil {
		return "ok"
	}
	type coder interface{ ErrCode() int }
	type poser interface{ Position() uint }
	out := "error"
	if c, ok := err.(coder); ok {
		out += fmt.Sprintf(" code=%d", c.ErrCode())
	}
	if p, ok := err.(poser); ok {
		out += fmt.Sprintf(" pos=%d", p.Position())
	}
	if out == "error" {
		out += " " + err.Error()
	}
	return out
}

var ops = []op{
	{"Check", func(s *jschema.Schema) string { return errStr(s.Check()) }},
	{"Validate(good)", func(s *jschema.Schema) string { return errStr(s.Validate(json.New("doc", goodDoc))) }},
	{"Validate(bad)", func(s *jschema.Schema) string { return errStr(s.Validate(json.New("doc", badDoc))) }},
	{"Example", func(s *jschema.Schema) string { b, err := s.Example(); return string(b) + " " + errStr(err) }},
	{"GetAST", func(s *jschema.Schema) string {
		a, err := s.GetAST()
		j, _ := stdjson.Marshal(a)
		return string(j) + " " + errStr(err)
	}},
	{"Len", func(s *jschema.Schema) string { n, err := s.Len(); return fmt.Sprint(n, " ", errStr(err)) }},
	{"UsedUserTypes", func(s *jschema.Schema) string { u, err := s.UsedUserTypes(); return fmt.Sprint(u, " ", errStr(err)) }},
	// documents that lack required keys (the error paths of the validator read - and must only read - the
	// compiled schema); used by the S8 scenarios only
	{"Validate(name missing)", func(s *jschema.Schema) string {
		return errStr(s.Validate(json.New("doc", `{"id":1,"tags":["a"],"level":3}`)))
	}},
	{"Validate(three keys missing)", func(s *jschema.Schema) string { return errStr(s.Validate(json.New("doc", `{"level":1}`))) }},
	{"Validate(unknown key)", func(s *jschema.Schema) string {
		return errStr(s.Validate(json.New("doc", `{"id":1,"name":"x","tags":[],"level":2,"zz":1}`)))
	}},
}

// baseOps: the operations crossed pairwise in S1 (the ones after them appear in dedicated scenarios).
const baseOps = 7

// expected sequential results
var expected = map[string]string{}

func init() {
	for _, o := range ops {
		expected[o.name] = o.f(newShared())
	}
}

type scenario struct {
	name    string
	threads int
	sc      sched.Scenario
	heavy   bool // executions contain a whole schema compilation (hundreds of points)
}

// opsScenario: each thread performs its list of ops on one shared schema.
func opsScenario(name string, perThread [][]int, precompiled bool) scenario {
	return scenario{heavy: !precompiled, name: name, threads: len(perThread), sc: sched.Scenario{Name: name, Setup: func() ([]func(), func(*shim.Execution) string) {
		s := newShared()
		if precompiled {
			s.Check()
		}
		results := make([][]string, len(perThread))
		var bodies []func()
		for ti, list := range perThread {
			ti, list := ti, list
			results[ti] = make([]string, len(list))
			bodies = append(bodies, func() {
				for k, oi := range list {
					results[ti][k] = ops[oi].f(s)
				}
			})
		}
		return bodies, func(e *shim.Execution) string {
			for ti, list := range perThread {
				for k, oi := range list {
					if results[ti][k] != expected[ops[oi].name] {
						return fmt.Sprintf("thread %d: %s returned %.200q, sequentially it returns %.200q", ti, ops[oi].name, results[ti][k], expected[ops[oi].name])
					}
				}
			}
			return ""
		}
	}}}
}

// plainScenario (S7): a shared schema WITHOUT added types or rules. AddType and
// AddRule load a schema while it is being set up; this one is neither loaded nor
// compiled when the goroutines start, so its first load is raced as well. The
// second schema is invalid (its verdict comes from the compilation).
func plainScenario(name, text string, perThread [][]int) scenario {
	exp := map[string]string{}
	for _, o := range ops {
		exp[o.name] = o.f(jschema.New("plain", text))
	}
	return scenario{heavy: true, name: name, threads: len(perThread), sc: sched.Scenario{Name: "S7", Setup: func() ([]func(), func(*shim.Execution) string) {
		s := jschema.New("plain", text)
		results := make([][]string, len(perThread))
		var bodies []func()
		for ti, list := range perThread {
			ti, list := ti, list
			results[ti] = make([]string, len(list))
			bodies = append(bodies, func() {
				for k, oi := range list {
					results[ti][k] = ops[oi].f(s)
				}
			})
		}
		return bodies, func(e *shim.Execution) string {
			for ti, list := range perThread {
				for k, oi := range list {
					if results[ti][k] != exp[ops[oi].name] {
						return fmt.Sprintf("thread %d: %s returned %.200q, sequentially it returns %.200q", ti, ops[oi].name, results[ti][k], exp[ops[oi].name])
					}
				}
			}
			return ""
		}
	}}}
}

const plainValid = "{\n  \"id\": 1, // {min: 0}\n  \"tags\": [\n    \"a\"\n  ],\n  \"o\": 1 // {or: [{type: \"integer\"}, {type: \"string\"}]}\n}"
const plainInvalid = "{\n  \"id\": 1, // {min: 7, max: 3}\n  \"ref\": @missing\n}"

func sharedTypeScenario() scenario {
	const tText = "{ // {allOf: \"@base\"}\n  \"v\": 1 // {or: [{type: \"integer\", min: 0}, \"string\"]}\n}"
	mk := func(name string, t *jschema.Schema) *jschema.Schema {
		r := jschema.New(name, "{\n  \"t\": @T\n}")
		r.AddType("@T", t)
		r.AddType("@base", jschema.New("@base", "{\n  \"b\": 1 // {optional: true}\n}"))
		return r
	}
	doc := `{"t":{"v":"x","b":2}}`
	exp := func() [2]string {
		t := jschema.New("@T", tText)
		a, b := mk("r1", t), mk("r2", t)
		return [2]string{errStr(a.Check()) + "|" + errStr(a.Validate(json.New("d", doc))), errStr(b.Check()) + "|" + errStr(b.Validate(json.New("d", doc)))}
	}()
	return scenario{name: "S3 shared added type", threads: 2, sc: sched.Scenario{Name: "S3", Setup: func() ([]func(), func(*shim.Execution) string) {
		t := jschema.New("@T", tText)
		roots := []*jschema.Schema{mk("r1", t), mk("r2", t)}
		res := make([]string, 2)
		var bodies []func()
		for i := range roots {
			i := i
			bodies = append(bodies, func() {
				res[i] = errStr(roots[i].Check()) + "|" + errStr(roots[i].Validate(json.New("d", doc)))
			})
		}
		return bodies, func(*shim.Execution) string {
			for i := range res {
				if res[i] != exp[i] {
					return fmt.Sprintf("root %d sharing the added type: Check|Validate = %s, sequentially %s", i+1, res[i], exp[i])
				}
			}
			return ""
		}
	}}}
}

// sharedPlainTypeScenario: as S3, but the shared added-type object uses neither allOf nor or: none of
// the recorded S3 findings applies to it, so every race or differing result here is reported in full.
func sharedPlainTypeScenario() scenario {
	const tText = "{\n  \"v\": 1, // {min: 0, max: 9}\n  \"s\": \"ab\", // {minLength: 1, maxLength: 3}\n  \"l\": [\n    1 // {type: \"integer\", min: 0}\n  ]\n}"
	mk := func(name string, t *jschema.Schema) *jschema.Schema {
		r := jschema.New(name, "{\n  \"t\": @T,\n  \"u\": [\n    @T\n  ]\n}")
		r.AddType("@T", t)
		return r
	}
	doc := `{"t":{"v":3,"s":"abc","l":[1,2]},"u":[{"v":10,"s":"a","l":[]}]}`
	use := func(r *jschema.Schema) string {
		ex, err := r.Example()
		return errStr(r.Check()) + "|" + errStr(r.Validate(json.New("d", doc))) + "|" + string(ex) + errStr(err)
	}
	exp := func() [2]string {
		t := jschema.New("@T", tText)
		a, b := mk("r1", t), mk("r2", t)
		return [2]string{use(a), use(b)}
	}()
	return scenario{name: "S3b shared plain added type", threads: 2, heavy: true, sc: sched.Scenario{Name: "S3b", Setup: func() ([]func(), func(*shim.Execution) string) {
		t := jschema.New("@T", tText)
		roots := []*jschema.Schema{mk("r1", t), mk("r2", t)}
		res := make([]string, 2)
		var bodies []func()
		for i := range roots {
			i := i
			bodies = append(bodies, func() { res[i] = use(roots[i]) })
		}
		return bodies, func(*shim.Execution) string {
			for i := range res {
				if res[i] != exp[i] {
					return fmt.Sprintf("root %d sharing the plain added type: Check|Validate|Example = %s, sequentially %s", i+1, res[i], exp[i])
				}
			}
			return ""
		}
	}}}
}

func privateSchemaScenario() scenario {
	const privText = "{\n  \"pppppppppppppppp\": [\n    1,\n    \"two\"\n  ],\n  \"q\": @str\n}"
	privExp := func() string {
		p := jschema.New("priv", privText)
		p.AddType("@str", jschema.New("@str", "\"s\""))
		b, err := p.Example()
		return errStr(p.Check()) + "|" + string(b) + errStr(err)
	}()
	return scenario{name: "S4 shared validate + private compile/example", threads: 3, heavy: true, sc: sched.Scenario{Name: "S4", Setup: func() ([]func(), func(*shim.Execution) string) {
		s := newShared()
		s.Check()
		res := make([]string, 3)
		bodies := []func(){
			func() { res[0] = ops[1].f(s) + "|" + ops[3].f(s) },
			func() { res[1] = ops[2].f(s) },
			func() {
				p := jschema.New("priv", privText)
				p.AddType("@str", jschema.New("@str", "\"s\""))
				b, err := p.Example()
				res[2] = errStr(p.Check()) + "|" + string(b) + errStr(err)
			},
		}
		return bodies, func(*shim.Execution) string {
			want := []string{expected["Validate(good)"] + "|" + expected["Example"], expected["Validate(bad)"], privExp}
			for i := range res {
				if res[i] != want[i] {
					return fmt.Sprintf("thread %d returned %.200q, sequentially %.200q", i, res[i], want[i])
				}
			}
			return ""
		}
	}}}
}

// creatorsScenario (S6): every goroutine creates, loads, compiles and uses
// schemas of its own (different texts): they share only the library's global
// pools (loader pool, example buffer pool).
func creatorsScenario(threads int) scenario {
	texts := []string{
		"{\n  \"q\": @str,\n  \"o\": 1 // {or: [{type: \"integer\", min: 0}, {type: \"string\"}]}\n}",
		"[\n  {\n    \"k\": true // {optional: true}\n  },\n  @str | @str\n]",
		"{\n  \"n\": 12.5, // {min: 1}\n  \"o\": {\n    \"z\": null // {or: [{type: \"null\"}, {type: \"boolean\"}]}\n  }\n}",
	}
	docs := []string{`{"q":"s","o":"x"}`, `[{"k":true},"s"]`, `{"n":12.5,"o":{"z":true}}`}
	use := func(i int) string {
		p := jschema.New(fmt.Sprintf("priv%d", i), texts[i])
		p.AddType("@str", jschema.New("@str", "\"s\""))
		ce := errStr(p.Check())
		b, err := p.Example()
		if threads > 2 {
			// three creators: load + compile + example only (keeps the schedule space of the quick tier finite in time)
			return ce + "|" + string(b) + errStr(err)
		}
		ve := errStr(p.Validate(json.New("doc", docs[i])))
		return ce + "|" + string(b) + errStr(err) + "|" + ve
	}
	var want []string
	for i := 0; i < threads; i++ {
		want = append(want, use(i))
	}
	return scenario{name: fmt.Sprintf("S6 %d goroutines create/compile/use private schemas", threads), threads: threads, heavy: true, sc: sched.Scenario{Name: "S6", Setup: func() ([]func(), func(*shim.Execution) string) {
		res := make([]string, threads)
		var bodies []func()
		for i := 0; i < threads; i++ {
			i := i
			bodies = append(bodies, func() { res[i] = use(i) })
		}
		return bodies, func(*shim.Execution) string {
			for i := range res {
				if res[i] != want[i] {
					return fmt.Sprintf("thread %d returned %.200q, sequentially %.200q", i, res[i], want[i])
				}
			}
			return ""
		}
	}}}
}

func enumRegexScenario() scenario {
	enumText := "[\n  1, // one\n  \"two\",\n  null\n]"
	enumOps := []func(e *enum.Enum) string{
		func(e *enum.Enum) string { return errStr(e.Check()) },
		func(e *enum.Enum) string { v, err := e.Values(); return fmt.Sprint(len(v), errStr(err)) },
		func(e *enum.Enum) string { a, err := e.GetAST(); return fmt.Sprint(len(a.Children), errStr(err)) },
		func(e *enum.Enum) string { n, err := e.Len(); return fmt.Sprint(n, errStr(err)) },
	}
	regexOps := []func(r *regex.Schema) string{
		func(r *regex.Schema) string { p, err := r.Pattern(); return p + errStr(err) },
		func(r *regex.Schema) string { b, err := r.Example(); return string(b) + errStr(err) },
		func(r *regex.Schema) string { n, err := r.Len(); return fmt.Sprint(n, errStr(err)) },
	}
	var eexp, rexp []string
	for _, f := range enumOps {
		eexp = append(eexp, f(enum.New("@e", enumText)))
	}
	for _, f := range regexOps {
		rexp = append(rexp, f(regex.New("@r", "/^ab+c$/")))
	}
	return scenario{name: "S5 enum rule / regex type first use", threads: 3, sc: sched.Scenario{Name: "S5", Setup: func() ([]func(), func(*shim.Execution) string) {
		e := enum.New("@e", enumText)
		r := regex.New("@r", "/^ab+c$/")
		res := make([][]string, 3)
		bodies := []func(){
			func() { res[0] = []string{enumOps[0](e), enumOps[1](e), regexOps[0](r)} },
			func() { res[1] = []string{enumOps[2](e), enumOps[3](e), regexOps[1](r)} },
			func() { res[2] = []string{regexOps[2](r), enumOps[1](e)} },
		}
		return bodies, func(*shim.Execution) string {
			want := [][]string{{eexp[0], eexp[1], rexp[0]}, {eexp[2], eexp[3], rexp[1]}, {rexp[2], eexp[1]}}
			for i := range res {
				if strings.Join(res[i], "|") != strings.Join(want[i], "|") {
					return fmt.Sprintf("thread %d returned %q, sequentially %q", i, res[i], want[i])
				}
			}
			return ""
		}
	}}}
}

func scenarios(thorough bool) []scenario {
	out := []scenario{sharedTypeScenario(), sharedPlainTypeScenario(), privateSchemaScenario(), enumRegexScenario(), creatorsScenario(2), creatorsScenario(3)}
	// S1: 2 threads x 1 op, every ordered pair (uncompiled)
	for a := 0; a < baseOps; a++ {
		for b := a; b < baseOps; b++ {
			out = append(out, opsScenario(fmt.Sprintf("S1 first use: %s || %s", ops[a].name, ops[b].name), [][]int{{a}, {b}}, false))
		}
	}
	// S1: 3 threads x 1 op on a reduced op set
	three := []int{0, 1, 3}
	if thorough {
		three = []int{0, 1, 3, 4, 6}
	}
	for _, a := range three {
		for _, b := range three {
			for _, c := range three {
				if a <= b && b <= c {
					out = append(out, opsScenario(fmt.Sprintf("S1 first use x3: %s || %s || %s", ops[a].name, ops[b].name, ops[c].name), [][]int{{a}, {b}, {c}}, false))
				}
			}
		}
	}
	// S7: a schema without added types: the first LOAD is raced too
	for _, p := range [][2]int{{6, 0}, {0, 0}, {6, 3}, {5, 6}, {6, 1}, {4, 6}} {
		out = append(out, plainScenario(fmt.Sprintf("S7 plain schema first use: %s || %s", ops[p[0]].name, ops[p[1]].name), plainValid, [][]int{{p[0]}, {p[1]}}))
	}
	out = append(out, plainScenario("S7 invalid plain schema: UsedUserTypes || Check || Check", plainInvalid, [][]int{{6}, {0}, {0}}))
	out = append(out, plainScenario("S7 invalid plain schema: UsedUserTypes;Check || Check;UsedUserTypes", plainInvalid, [][]int{{6, 0}, {0, 6}}))
	// S2: 2 threads x 2 ops
	pairs := [][2]int{{0, 1}, {1, 3}, {3, 1}, {4, 1}, {1, 2}, {6, 0}, {5, 3}}
	if !thorough {
		pairs = [][2]int{{0, 1}, {3, 1}, {6, 0}, {5, 3}}
	}
	for _, p := range pairs {
		for _, q := range pairs {
			out = append(out, opsScenario(fmt.Sprintf("S2 %s;%s || %s;%s", ops[p[0]].name, ops[p[1]].name, ops[q[0]].name, ops[q[1]].name), [][]int{{p[0], p[1]}, {q[0], q[1]}}, false))
		}
	}
	// S8: rejected documents on a compiled shared schema (missing required keys, unknown key)
	out = append(out,
		opsScenario("S8 compiled: Validate(name missing) || Validate(good)", [][]int{{7}, {1}}, true),
		opsScenario("S8 compiled: Validate(name missing) || Validate(three keys missing)", [][]int{{7}, {8}}, true),
		opsScenario("S8 compiled: Validate(name missing);Validate(good) || Validate(good);Validate(three keys missing)", [][]int{{7, 1}, {1, 8}}, true),
		opsScenario("S8 compiled x3: Validate(name missing) || Validate(good) || Validate(three keys missing)", [][]int{{7}, {1}, {8}}, true),
		opsScenario("S8 compiled x3: Validate(unknown key) || Validate(bad) || Validate(name missing)", [][]int{{9}, {2}, {7}}, true),
		opsScenario("S8 first use: Validate(name missing) || Validate(three keys missing)", [][]int{{7}, {8}}, false))
	// reuse on a compiled schema, 3 threads x 2 ops
	out = append(out, opsScenario("S2 compiled x3: Validate;Example || Validate(bad);GetAST || Example;Validate", [][]int{{1, 3}, {2, 4}, {3, 1}}, true))
	return out
}

type caseT struct {
	Scenario string `json:"scenario"`
	Choices  []int  `json:"choices"`
	Bounds   string `json:"bounds"`
}

// bounds: two explorations per scenario, so that the costs add up instead of
// multiplying: preemptions with default environment answers, and environment
// deviations (pool answers) without preemptions.
func bounds(sn scenario, thorough bool) []sched.Bounds {
	p := 2
	if sn.heavy || sn.threads >= 3 {
		p = 1
	}
	max := 30000
	if thorough {
		p++
		max = 1500000
	}
	e := 2
	if sn.heavy && sn.threads >= 3 && !thorough {
		e = 1 // whole compilations in three threads: pairs of pool deviations only in the thorough tier
	}
	return []sched.Bounds{
		{Preemptions: p, EnvDevs: 0, StepLimit: 20000, MaxExec: max},
		{Preemptions: 0, EnvDevs: e, StepLimit: 20000, MaxExec: max},
	}
}

func run(c *ev.Ctx) {
	rl := NewRaceLog()
	if !rl.Enabled() {
		c.Cap("race log unavailable: the race monitor is off")
	}
	seenPoints := map[string]bool{}
	for _, sn := range scenarios(c.Thorough()) {
		if !c.Mine() {
			continue
		}
		if c.Expired() {
			return
		}
		outcomes := map[string]bool{}
		var st sched.Stats
		for _, b := range bounds(sn, c.Thorough()) {
			b := b
			b.Stop = c.Expired
			one := sched.Explore(sn.sc, b, func(ch []int, e *shim.Execution, verdict string) {
				c.Inc("traces_validated_against_impl")
				c.Eval(len(e.Decisions) > 1)
				c.Add("transitions", int64(len(e.Decisions)))
				for i, d := range e.Decisions {
					k := fmt.Sprintf("%s#%d:%s:%v", sn.name, i, d.Point, d.Threads)
					if !seenPoints[k] {
						seenPoints[k] = true
						c.Inc("states")
					}
				}
				outcomes[verdict] = true
				races := rl.New()
				if verdict != "" {
					if strings.HasPrefix(verdict, "INTERNAL") {
						panic(verdict)
					}
					c.Violate(sn.name+";"+classOf(verdict), fmt.Sprintf("%s, schedule %v: %s", sn.name, ch, verdict), caseT{sn.name, ch, fmt.Sprint(b)})
				}
				for _, r := range races {
					sum, lib := Summarize(r)
					if !lib {
						c.Inc("race_reports_not_in_library")
						continue
					}
					if sn.sc.Name == "S3" && (strings.Contains(sum, "internal/schema.(*Object") || strings.Contains(sum, "internal/loader.(*allOfConstraintCompiler)") || strings.Contains(sum, "internal/schema.(*baseNode)") || strings.Contains(sum, "internal/schema.(*Constraints)")) {
						c.Violate("S3 shared added type;race-on-shared-type-nodes", fmt.Sprintf("%s, schedule %v: data race on the nodes of the shared added type: %s", sn.name, ch, sum), caseT{sn.name, ch, fmt.Sprint(b)})
						continue
					}
					c.Violate("race;"+sum, fmt.Sprintf("%s, schedule %v: data race in library code: %s", sn.name, ch, sum), caseT{sn.name, ch, fmt.Sprint(b)})
				}
			})
			st.Executions += one.Executions
			if one.MaxDepth > st.MaxDepth {
				st.MaxDepth = one.MaxDepth
			}
			if one.Capped {
				c.Cap(fmt.Sprintf("execution cap %d or the deadline reached in %q with bounds {P:%d E:%d}", b.MaxExec, sn.name, b.Preemptions, b.EnvDevs))
			}
		}
		c.Inc("scenarios")
		c.Add("distinct_outcomes", int64(len(outcomes)))
		c.Max("max_decisions_per_execution", int64(st.MaxDepth))
		c.Sample(strings.Fields(sn.name)[0], map[string]any{"scenario": sn.name, "executions": st.Executions, "max_decisions": st.MaxDepth, "bounds": fmt.Sprint(bounds(sn, c.Thorough()))})
	}
	var pts []string
	for k := range seenPoints {
		pts = append(pts, k)
	}
	sort.Strings(pts)
	c.Bound("preemption_bound_light_2_threads", bounds(scenario{threads: 2}, c.Thorough())[0].Preemptions)
	c.Bound("preemption_bound_heavy_or_3_threads", bounds(scenario{threads: 3}, c.Thorough())[0].Preemptions)
	c.Bound("env_deviation_bound_without_preemption", 2)
}

func classOf(v string) string {
	if strings.HasPrefix(v, "root ") && strings.Contains(v, "sharing the added type") {
		return "shared-added-type-result-differs"
	}
	for _, p := range []string{"deadlock", "livelock", "a Once body", "thread"} {
		if strings.HasPrefix(v, p) {
			if p == "thread" {
				if i := strings.Index(v, ":"); i > 0 {
					rest := v[i+1:]
					if j := strings.Index(rest, "returned"); j > 0 {
						return "result-differs:" + strings.TrimSpace(rest[:j])
					}
				}
				return "thread-panic"
			}
			return p
		}
	}
	if i := strings.Index(v, ":"); i > 0 {
		return v[:i]
	}
	return "other"
}

func replay(raw stdjson.RawMessage) (bool, string) {
	var cs caseT
	if err := stdjson.Unmarshal(raw, &cs); err != nil {
		return false, err.Error()
	}
	for _, sn := range scenarios(true) {
		if sn.name != cs.Scenario {
			continue
		}
		rl := NewRaceLog()
		bodies, check := sn.sc.Setup()
		e := shim.Run(cs.Choices, 20000, bodies)
		if e.Diverged != "" {
			return false, "schedule could not be replayed: " + e.Diverged
		}
		v := check(e)
		if e.Deadlock {
			v = "deadlock"
		}
		if e.OnceMaxBodies > 1 {
			v = "a Once body ran more than once"
		}
		for _, r := range rl.New() {
			if s, lib := Summarize(r); lib {
				v += " race: " + s
			}
		}
		return v != "", fmt.Sprintf("%s schedule %v: %s", cs.Scenario, cs.Choices, v)
	}
	return false, "unknown scenario"
}
