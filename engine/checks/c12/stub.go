//go:build !shim

// Package c12 needs the scheduler variant of the harness (build tag shim +
// overlay); in the plain variant it registers nothing.
package c12
