package c05

// Sym is one input symbol (a byte class representative; may be multi-byte).
type Sym struct {
	Name  string
	Bytes string
}

// SmallAlphabet: the 30 byte classes of DESIGN.md (one representative per
// class the scanner's switches can tell apart).
var SmallAlphabet = []Sym{
	{"sp", " "}, {"lf", "\n"}, {"{", "{"}, {"}", "}"}, {"[", "["}, {"]", "]"}, {":", ":"}, {",", ","},
	{"\"", "\""}, {"\\", "\\"}, {"/", "/"}, {"-", "-"}, {"+", "+"}, {".", "."}, {"0", "0"}, {"1", "1"},
	{"e", "e"}, {"E", "E"}, {"t", "t"}, {"r", "r"}, {"u", "u"}, {"f", "f"}, {"a", "a"}, {"l", "l"},
	{"s", "s"}, {"n", "n"}, {"b", "b"}, {"x", "x"}, {"ctl", "\x01"}, {"é", "é"},
}

// WideAlphabet adds boundary representatives (used by the product search,
// where the number of states, not the alphabet size, dominates the cost).
var WideAlphabet = append(append([]Sym{}, SmallAlphabet...),
	Sym{"tab", "\t"}, Sym{"cr", "\r"}, Sym{"9", "9"}, Sym{"5", "5"}, Sym{"A", "A"}, Sym{"F", "F"}, Sym{"G", "G"}, Sym{"g", "g"},
	Sym{"us", "\x1f"}, Sym{"del", "\x7f"}, Sym{"nul", "\x00"}, Sym{"'", "'"}, Sym{"ff", "\x0c"}, Sym{"vt", "\x0b"},
	Sym{"T", "T"}, Sym{"N", "N"}, Sym{"_", "_"}, Sym{"@", "@"}, Sym{"#", "#"}, Sym{"*", "*"},
)
