//go:build !verif

package c05

import "verif/internal/ev"

func productSearch(c *ev.Ctx, trailing bool, maxDepth int) {
	c.Cap("hook_unavailable: product search skipped (library did not build with tag verif)")
}
