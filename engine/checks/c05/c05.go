// Package c05: a document is accepted iff it is one RFC 8259 JSON text.
package c05

import (
	stdjson "encoding/json"
	"errors"
	"fmt"
	jschema "github.com/jsightapi/jsight-schema-go-library"
	"github.com/jsightapi/jsight-schema-go-library/fs"
	"strconv"
	"time"

	"github.com/jsightapi/jsight-schema-go-library/formats/json"

	"verif/internal/ev"
	"verif/ref/jsonpda"
)

func init() {
	ev.Register(&ev.Check{
		ID:      "C05",
		Level:   "model_checking",
		Rule:    "explicit-state BFS over the product (real JSON scanner fed byte-wise through the verif hook) x (reference RFC 8259 PDA), both modes, nesting bounded; in every product state the public Document.Check of the state's shortest history, and of that history followed by EVERY ASCII byte value, is compared with the reference (fresh document, and a document sharing its file with a document of the other mode that was checked first); plus all strings <= L over the 30-class alphabet (pruned only where both sides are dead) compared three ways (library, reference PDA, encoding/json), plus every 1-edit neighbour of a corpus of structured long texts. A case is non-trivial when the reference and the library were both evaluated on a distinct input that is not dead on its first byte.",
		Workers: func(tier string) int { return 16 },
		Run:     run,
		Replay:  replay,
		Assumptions: []string{
			"the reference PDA is RFC 8259 (cross-checked against encoding/json.Valid on every enumerated string; a disagreement aborts with exit 3)",
			"acceptance of the real scanner depends only on the control key exposed by the hook (validated: merged states have their successors recomputed and compared)",
			"trailing mode: inputs where maximal munch of a top-level number ends inside an incomplete number (1.x, 1ex) are not asserted; a complete number followed by a digit (01) is",
			"bytes >= 0x80 that are not valid UTF-8 are not asserted",
		},
		QuickBudget:    150 * time.Second,
		ThoroughBudget: 12 * time.Minute,
	})
}

type caseT struct {
	Mode  string `json:"mode"` // "strict" | "trailing"
	Input string `json:"input"`
}

func libCheck(input string, trailing bool) (err error) {
	defer func() {
		if r := recover(); r != nil {
			err = fmt.Errorf("PANIC: %v", r)
		}
	}()
	if trailing {
		return json.New("doc", []byte(input), json.AllowTrailingNonSpaceCharacters()).Check()
	}
	return json.New("doc", []byte(input)).Check()
}

// libCheckShared: the same check on a document that shares its fs.File with
// another document of the OTHER mode, which is checked first. The verdict of a
// document is a function of its bytes and its own option only.
func libCheckShared(input string, trailing bool) (err error) {
	defer func() {
		if r := recover(); r != nil {
			err = fmt.Errorf("PANIC: %v", r)
		}
	}()
	f := fs.NewFile("doc", []byte(input))
	if trailing {
		_ = json.FromFile(f).Check()
		return json.FromFile(f, json.AllowTrailingNonSpaceCharacters()).Check()
	}
	_ = json.FromFile(f, json.AllowTrailingNonSpaceCharacters()).Check()
	return json.FromFile(f).Check()
}

// libCheckAfter: the same check on a document that has a history: k lexemes were read from it first
// (k = -1: Len was called first; k = -2: a first Check). The verdict is a function of the bytes and the
// option only.
func libCheckAfter(input string, trailing bool, k int) (err error) {
	defer func() {
		if r := recover(); r != nil {
			err = fmt.Errorf("PANIC: %v", r)
		}
	}()
	var d jschema.Document
	if trailing {
		d = json.New("doc", []byte(input), json.AllowTrailingNonSpaceCharacters())
	} else {
		d = json.New("doc", []byte(input))
	}
	switch {
	case k == -1:
		_, _ = d.Len()
	case k == -2:
		_ = d.Check()
	default:
		for i := 0; i < k; i++ {
			if _, e := d.NextLexeme(); e != nil {
				break
			}
		}
	}
	return d.Check()
}

var checkHistories = []int{-2, -1, 1, 2, 3, 5}

func historyName(k int) string {
	switch k {
	case -1:
		return "Len() was called"
	case -2:
		return "a first Check() was called"
	}
	return fmt.Sprintf("%d lexeme(s) were read with NextLexeme", k)
}

func refVerdict(input string, trailing bool) jsonpda.Verdict {
	p := jsonpda.New()
	for i := 0; i < len(input); i++ {
		p.Feed(input[i])
	}
	if trailing {
		return p.TrailingVerdict()
	}
	if !p.Dead() && p.AcceptEOF() {
		return jsonpda.Accept
	}
	return jsonpda.Reject
}

func modeName(trailing bool) string {
	if trailing {
		return "trailing"
	}
	return "strict"
}

// compare evaluates one input in one mode and records a violation if the
// library and the reference disagree. Returns the library verdict.
func compare(c *ev.Ctx, input string, trailing bool, origin string) bool {
	err := libCheck(input, trailing)
	libAcc := err == nil
	if serr := libCheckShared(input, trailing); (serr == nil) != libAcc {
		c.Violate(fmt.Sprintf("%s;shared-file;%s", modeName(trailing), strconv.Quote(input)),
			fmt.Sprintf("Document.Check (%s) on %q: %v for a fresh document, but %v for a document made with FromFile on a file that a document of the other mode has just checked [%s]", modeName(trailing), input, err, serr, origin), caseT{modeName(trailing), input})
	}
	for _, k := range checkHistories {
		if herr := libCheckAfter(input, trailing, k); (herr == nil) != libAcc {
			c.Violate(fmt.Sprintf("%s;history %d;%s", modeName(trailing), k, strconv.Quote(input)),
				fmt.Sprintf("Document.Check (%s) on %q: %v for a fresh document, but %v on a document from which %s before [%s]", modeName(trailing), input, err, herr, historyName(k), origin), caseT{modeName(trailing), input})
			break
		}
	}
	rv := refVerdict(input, trailing)
	if err != nil && isPanic(err) {
		c.Violate("panic;"+modeName(trailing)+";"+strconv.Quote(input), fmt.Sprintf("Document.Check panicked on %q (%s): %v", input, modeName(trailing), err), caseT{modeName(trailing), input})
		return libAcc
	}
	switch rv {
	case jsonpda.Unspecified:
		c.Inc("unspecified_" + modeName(trailing))
	case jsonpda.Accept:
		c.Inc("ref_accept_" + modeName(trailing))
		if !libAcc {
			c.Violate(fmt.Sprintf("%s;lib=reject;ref=accept;%s", modeName(trailing), strconv.Quote(input)),
				fmt.Sprintf("Document.Check (%s) rejects the valid JSON text %q: %v [%s]", modeName(trailing), input, err, origin), caseT{modeName(trailing), input})
		}
	case jsonpda.Reject:
		c.Inc("ref_reject_" + modeName(trailing))
		if libAcc {
			c.Violate(fmt.Sprintf("%s;lib=accept;ref=reject;%s", modeName(trailing), strconv.Quote(input)),
				fmt.Sprintf("Document.Check (%s) accepts %q which is not one JSON text [%s]", modeName(trailing), input, origin), caseT{modeName(trailing), input})
		}
	}
	return libAcc
}

func isPanic(err error) bool {
	return err != nil && len(err.Error()) >= 6 && err.Error()[:6] == "PANIC:"
}

func replay(raw stdjson.RawMessage) (bool, string) {
	var cs caseT
	if err := stdjson.Unmarshal(raw, &cs); err != nil {
		return false, err.Error()
	}
	trailing := cs.Mode == "trailing"
	err := libCheck(cs.Input, trailing)
	rv := refVerdict(cs.Input, trailing)
	desc := fmt.Sprintf("input=%q mode=%s library_error=%v reference=%s", cs.Input, cs.Mode, err, rv)
	if isPanic(err) {
		return true, desc
	}
	if rv == jsonpda.Unspecified {
		return false, desc
	}
	return (err == nil) != (rv == jsonpda.Accept), desc
}

type positioner interface{ Position() uint }

func errPos(err error) (uint, bool) {
	var p positioner
	if errors.As(err, &p) {
		return p.Position(), true
	}
	return 0, false
}

func run(c *ev.Ctx) {
	maxDepth, L := 4, 5
	if c.Thorough() {
		maxDepth, L = 6, 6
	}
	if c.Shard == 0 {
		for _, trailing := range []bool{false, true} {
			productSearch(c, trailing, maxDepth)
		}
		families(c)
	}
	enumerate(c, L)
}

// enumerate walks all strings of at most L symbols over SmallAlphabet.
func enumerate(c *ev.Ctx, L int) {
	c.Bound("string_length_max_symbols", L)
	c.Bound("string_alphabet", len(SmallAlphabet))
	for _, trailing := range []bool{false, true} {
		var rec func(prefix []byte, p *jsonpda.PDA, n int, grace int)
		rec = func(prefix []byte, p *jsonpda.PDA, n int, grace int) {
			if n == L || grace == 0 {
				return
			}
			for _, s := range SmallAlphabet {
				if n == 1 && !c.MineKey(string(prefix)+"|"+s.Bytes) {
					continue
				}
				w := append(append([]byte{}, prefix...), s.Bytes...)
				q := p.Clone()
				for i := 0; i < len(s.Bytes); i++ {
					q.Feed(s.Bytes[i])
				}
				if n == 0 {
					// level 1 is evaluated by shard 0 only
					if c.Shard == 0 {
						evalString(c, w, trailing)
					}
					rec(w, q, n+1, grace)
					continue
				}
				libAcc, libErrPos, hasPos := evalString(c, w, trailing)
				const inf = 1 << 30
				g := grace
				if g != inf {
					g--
				}
				libDeadEarlier := !libAcc && hasPos && int(libErrPos)+2 <= len(w)
				if !trailing {
					// both sides finally dead (the library's error lies at least
					// one byte before the end, so no extension can change it)
					if q.Dead() && libDeadEarlier {
						continue
					}
				} else {
					if q.Dead() && !q.CompleteSeen && libDeadEarlier {
						continue
					}
					if q.Dead() && q.CompleteSeen && libAcc && g == inf {
						g = 1 // both sides accept whatever follows: look one more symbol, then stop
					}
				}
				if c.Expired() {
					return
				}
				rec(w, q, n+1, g)
			}
		}
		rec(nil, jsonpda.New(), 0, 1<<30)
	}
}

func evalString(c *ev.Ctx, w []byte, trailing bool) (libAcc bool, pos uint, hasPos bool) {
	input := string(w)
	err := libCheck(input, trailing)
	libAcc = err == nil
	if err != nil {
		pos, hasPos = errPos(err)
	}
	rv := refVerdict(input, trailing)
	// harness self-check: reference PDA vs encoding/json
	if !trailing {
		if stdjson.Valid(w) != (rv == jsonpda.Accept) {
			if validUTF8ish(w) {
				panic(fmt.Sprintf("HARNESS BUG: reference PDA and encoding/json disagree on %q", input))
			}
		}
	}
	nontrivial := len(w) > 1
	c.Eval(nontrivial)
	c.Inc("strings_" + modeName(trailing))
	if isPanic(err) {
		c.Violate("panic;"+modeName(trailing)+";"+strconv.Quote(input), fmt.Sprintf("Document.Check panicked on %q: %v", input, err), caseT{modeName(trailing), input})
		return
	}
	switch rv {
	case jsonpda.Unspecified:
		c.Inc("unspecified_" + modeName(trailing))
	case jsonpda.Accept:
		c.Inc("ref_accept_" + modeName(trailing))
		c.Sample("accepted-"+modeName(trailing), input)
		if !libAcc {
			c.Violate(fmt.Sprintf("%s;lib=reject;ref=accept;%s", modeName(trailing), strconv.Quote(input)),
				fmt.Sprintf("Document.Check (%s) rejects the valid JSON text %q: %v", modeName(trailing), input, err), caseT{modeName(trailing), input})
		}
	case jsonpda.Reject:
		c.Inc("ref_reject_" + modeName(trailing))
		if len(w) >= 3 {
			c.Sample("rejected-"+modeName(trailing), input)
		}
		if libAcc {
			c.Violate(fmt.Sprintf("%s;lib=accept;ref=reject;%s", modeName(trailing), strconv.Quote(input)),
				fmt.Sprintf("Document.Check (%s) accepts %q which is not one JSON text", modeName(trailing), input), caseT{modeName(trailing), input})
		}
	}
	return
}

func validUTF8ish(w []byte) bool {
	for _, b := range w {
		if b >= 0x80 {
			return false // encoding/json has its own views on raw high bytes; skip the self-check
		}
	}
	return true
}
