//go:build verif

package c05

import (
	"fmt"
	"strconv"
	"strings"

	"github.com/jsightapi/jsight-schema-go-library/formats/json"

	"verif/internal/ev"
	"verif/ref/jsonpda"
)

type pstate struct {
	hist    []byte
	key     string
	succ    []string // successor keys, by symbol index
	libDead bool
	depth   int
}

// libDepth extracts the nesting depth of the real scanner from its control key
// (the second field lists the lexeme types on its stack).
func libDepth(key string) int {
	parts := strings.SplitN(key, "|", 3)
	if len(parts) < 2 {
		return 0
	}
	return strings.Count(parts[1], ",")
}

func feedAll(hist []byte, trailing bool) (*json.VerifStepper, bool, *jsonpda.PDA) {
	st := json.NewVerifStepper(trailing)
	p := jsonpda.New()
	dead := false
	for _, b := range hist {
		if !dead {
			if err := st.Feed(b); err != nil {
				dead = true
			}
		}
		p.Feed(b)
	}
	return st, dead, p
}

func productKey(st *json.VerifStepper, libDead bool, p *jsonpda.PDA, trailing bool) string {
	lk := "DEAD"
	if !libDead {
		lk = st.Key()
	}
	k := lk + " || " + p.Key()
	if trailing {
		k += fmt.Sprintf(" || %v %v %v", p.CompleteSeen, p.AmbFinal, p.AmbPending)
	}
	return k
}

// productSearch explores the reachable product states breadth-first.
func productSearch(c *ev.Ctx, trailing bool, maxDepth int) {
	mode := modeName(trailing)
	c.Bound("product_nesting_max_"+mode, maxDepth)
	c.Bound("product_alphabet", len(WideAlphabet))
	seen := map[string]*pstate{}
	var order []*pstate
	type merged struct {
		into *pstate
		hist []byte
	}
	var merges []merged

	expandKeys := func(hist []byte) (keys []string, dead []bool, depth []int, libdepthcap []bool) {
		for _, s := range WideAlphabet {
			h := append(append([]byte{}, hist...), s.Bytes...)
			st, ld, p := feedAll(h, trailing)
			keys = append(keys, productKey(st, ld, p, trailing))
			dead = append(dead, ld)
			depth = append(depth, p.Depth())
			_ = st
		}
		return
	}

	visit := func(hist []byte) {
		input := string(hist)
		c.Inc("product_checks_" + mode)
		compare(c, input, trailing, "product state")
	}

	st0, _, p0 := feedAll(nil, trailing)
	root := &pstate{hist: nil, key: productKey(st0, false, p0, trailing)}
	seen[root.key] = root
	order = append(order, root)
	visit(nil)
	queue := []*pstate{root}
	for len(queue) > 0 {
		if c.Expired() {
			break
		}
		s := queue[0]
		queue = queue[1:]
		_, sdead, sp := feedAll(s.hist, trailing)
		// dead/dead is final in strict mode
		if sdead && sp.Dead() && !trailing {
			continue
		}
		if sdead && sp.Dead() && trailing {
			continue
		}
		if sdead && !sp.Dead() {
			// library dead, reference live: witness on the public API
			comp, _ := sp.LiveCompletion()
			w := string(s.hist) + comp
			if jsonpda.Valid([]byte(w)) {
				if err := libCheck(w, trailing); err != nil {
					// report on the shortest such witness per library error position
					c.Violate(fmt.Sprintf("%s;lib=reject;ref=accept;%s", mode, strconv.Quote(w)),
						fmt.Sprintf("Document.Check (%s) rejects the valid JSON text %q: %v [scanner dead after %q while the reference is live]", mode, w, err, string(s.hist)), caseT{mode, w})
				}
			}
			continue
		}
		// byte sweep: the successor alphabet consists of class representatives;
		// here EVERY ASCII byte value is fed once in this state, so a scanner that
		// tells apart two bytes the alphabet puts in one class cannot hide
		for b := 0; b < 0x80; b++ {
			c.Inc("product_byte_sweep_" + mode)
			compare(c, string(s.hist)+string(rune(b)), trailing, "product state + one byte")
		}
		keys, deads, depths, _ := expandKeys(s.hist)
		s.succ = keys
		for i, sym := range WideAlphabet {
			c.Inc("transitions")
			if depths[i] > maxDepth {
				c.Inc("product_depth_cut_" + mode)
				continue
			}
			// The reference bounds the nesting only while it is alive: bound the
			// real scanner's own stack as well (2 events per nesting level + literal),
			// otherwise a scanner that stays live after the reference died would
			// make the product infinite.
			if !deads[i] && libDepth(keys[i]) > 2*maxDepth+3 {
				c.Inc("product_lib_depth_cut_" + mode)
				continue
			}
			if len(seen) > 300000 {
				c.Cap("more than 300000 product states")
				continue
			}
			if len(s.hist) > 64 {
				c.Cap("product history longer than 64 bytes")
				continue
			}
			h := append(append([]byte{}, s.hist...), sym.Bytes...)
			if old, ok := seen[keys[i]]; ok {
				if len(merges) < 4000 || (len(merges) < 40000 && c.Thorough()) {
					merges = append(merges, merged{old, h})
				}
				continue
			}
			ns := &pstate{hist: h, key: keys[i], libDead: deads[i], depth: depths[i]}
			seen[keys[i]] = ns
			order = append(order, ns)
			c.Inc("states")
			visit(h)
			queue = append(queue, ns)
		}
	}
	c.Inc("states") // root
	c.Add("product_states_"+mode, int64(len(order)))
	// Bisimulation check on merges: the merged history must have the same
	// verdict and the same successor keys as the representative.
	for _, m := range merges {
		if m.into.succ == nil {
			continue
		}
		c.Inc("merges_validated")
		// same public verdict
		a := libCheck(string(m.hist), trailing) == nil
		b := libCheck(string(m.into.hist), trailing) == nil
		ra, rb := refVerdict(string(m.hist), trailing), refVerdict(string(m.into.hist), trailing)
		if a != b && ra == rb && ra != jsonpda.Unspecified {
			// The two histories lead to one product state but the PUBLIC verdicts
			// differ while the reference agrees with itself: one of the two
			// contradicts the reference - a defect of the library (its verdict
			// depends on more than the scanner state), reported as such.
			compare(c, string(m.hist), trailing, "history merged into a product state")
			compare(c, string(m.into.hist), trailing, "representative of a product state")
			continue
		}
		if a != b || ra != rb {
			panic(fmt.Sprintf("HARNESS: state key too coarse: %q and %q share key %q but verdicts differ (lib %v/%v ref %v/%v)", m.hist, m.into.hist, m.into.key, a, b, ra, rb))
		}
		keys, _, _, _ := expandKeys(m.hist)
		for i := range keys {
			if keys[i] != m.into.succ[i] {
				panic(fmt.Sprintf("HARNESS: state key not a bisimulation: %q and %q share key %q but successor on %q differs: %q vs %q", m.hist, m.into.hist, m.into.key, WideAlphabet[i].Name, keys[i], m.into.succ[i]))
			}
		}
	}
	c.Add("traces_validated_against_impl", int64(len(order)))
	if len(order) > 3 {
		c.Sample("product-state-"+mode, map[string]any{"history": string(order[len(order)/2].hist), "key": order[len(order)/2].key})
		c.Sample("product-last-"+mode, map[string]any{"history": string(order[len(order)-1].hist), "key": order[len(order)-1].key})
	}
}
