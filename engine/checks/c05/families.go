package c05

import (
	"strings"
	"verif/checks/rep"

	"verif/internal/ev"
)

// families replaces "random/mutational full-byte inputs up to 4 KiB" by
// structured long texts and every single-symbol edit of them.
func families(c *ev.Ctx) {
	var corpus []string
	for _, d := range []int{1, 2, 7, 8, 9, 31, 32, 33, 100} {
		corpus = append(corpus, strings.Repeat("[", d)+strings.Repeat("]", d))
		corpus = append(corpus, strings.Repeat(`{"a":`, d)+"1"+strings.Repeat("}", d))
	}
	corpus = append(corpus,
		`{"a":[1,2.5,-3e2,"x\né",true,false,null,{},[]],"b":{"c":{"d":[[[]]]}}}`,
		` { "k" : [ 1 , 2 ] , "l" : "" } `,
		"\t[\r\n1\r\n]\r\n",
		`"`+strings.Repeat("a", 4090)+`"`,
		strings.Repeat("1", 2000)+"."+strings.Repeat("9", 2000)+"e+"+strings.Repeat("1", 50),
		"["+strings.Repeat("0,", 1500)+"0]",
		strings.Repeat(" ", 2000)+"null"+strings.Repeat("\n", 2000),
		`"🏆 \/ \b\f\n\r\t \\ \" "`,
		"-0", "-0.0e-0", "0E+0", "10", "1.0", "true", "false", "null", `""`, "{}", "[]",
	)
	// n copies of one unit, n around every power of two up to 256 (no edits: verdict of the text only)
	for _, u := range rep.Units {
		for _, n := range rep.Counts {
			for _, t := range rep.Texts(u, n) {
				for _, tr := range []bool{false, true} {
					compare(c, t, tr, "repetition family")
					c.Eval(true)
				}
			}
		}
	}
	// raw multi-byte characters of every byte-class combination (and DEL) in values and keys: valid JSON
	for _, ch := range rep.UTF8Chars {
		for _, t := range rep.UTF8Texts(ch) {
			for _, tr := range []bool{false, true} {
				compare(c, t, tr, "utf8 family")
				c.Eval(true)
			}
		}
	}
	c.Bound("family_corpus_items", len(corpus))
	for _, doc := range corpus {
		for _, tr := range []bool{false, true} {
			compare(c, doc, tr, "family")
			c.Eval(len(doc) > 8)
		}
		if len(doc) > 300 {
			// edits only at the ends and the middle of long texts
			for _, at := range []int{0, 1, len(doc) / 2, len(doc) - 2, len(doc) - 1} {
				editsAt(c, doc, at)
			}
			for cut := 0; cut < len(doc); cut += 97 {
				for _, tr := range []bool{false, true} {
					compare(c, doc[:cut], tr, "family-truncation")
					c.Eval(len(doc) > 8)
				}
			}
			continue
		}
		for at := 0; at <= len(doc); at++ {
			editsAt(c, doc, at)
			for _, tr := range []bool{false, true} {
				compare(c, doc[:at], tr, "family-truncation")
				c.Eval(len(doc) > 8)
			}
		}
	}
}

func editsAt(c *ev.Ctx, doc string, at int) {
	for _, s := range WideAlphabet {
		ins := doc[:at] + s.Bytes + doc[at:]
		for _, tr := range []bool{false, true} {
			compare(c, ins, tr, "family-insert")
			c.Eval(len(doc) > 8)
		}
		if at < len(doc) {
			sub := doc[:at] + s.Bytes + doc[at+1:]
			for _, tr := range []bool{false, true} {
				compare(c, sub, tr, "family-substitute")
				c.Eval(len(doc) > 8)
			}
		}
	}
	if at < len(doc) {
		del := doc[:at] + doc[at+1:]
		for _, tr := range []bool{false, true} {
			compare(c, del, tr, "family-delete")
			c.Eval(len(doc) > 8)
		}
	}
}
