// Package c18: named enum rules and regex types behave like their inline forms.
package c18

import (
	stdjson "encoding/json"
	"fmt"
	"github.com/jsightapi/jsight-schema-go-library/notations/jschema"
	"regexp"
	"strings"
	"time"

	jlib "github.com/jsightapi/jsight-schema-go-library"
	"github.com/jsightapi/jsight-schema-go-library/notations/regex"
	"github.com/jsightapi/jsight-schema-go-library/rules/enum"

	"verif/gen"
	"verif/internal/ev"
	"verif/internal/lib"
)

func init() {
	ev.Register(&ev.Check{
		ID:             "C18",
		Level:          "exploration",
		Rule:           "enum: ALL value lists of <= 3 (thorough 4) items over {1,1.5,\"a\",\"1\",true,null,\"b\",\"1.5\"} incl. duplicates x 9 layouts (one line, one per line, // comments, /* */ comments, comment-only lines, blank lines, CRLF, empty comments of both forms, comments whose text looks like values): schema `v // {enum: @E}` + rule must give the same verdict as the inline list on 14 probes; duplicate values <=> rule Check fails; Values()/GetAST() list the literals in source order; ONE rule object referenced by two properties and added to a second schema behaves like the inline list and is itself unchanged afterwards. regex: ALL strings <= 4 (5) over {a b . * + ? | ( ) [ ] ^ $ \\ / \"} that regexp.Compile accepts, written /P/ with / escaped: type @T, inline {regex: P} and regexp.MatchString must agree on ALL strings <= 3 over {a,b,/,\",\\}; Example() of the regex type matches P; Len == len(/P/) with trailing text. Non-trivial = distinct (list, layout) or pattern.",
		Run:            run,
		Replay:         replay,
		QuickBudget:    80 * time.Second,
		ThoroughBudget: 12 * time.Minute,
		Assumptions:    []string{"Go's regexp and the reggen example generator are environment", "the empty pattern // is not a regex type (the library rejects it)"},
	})
}

type caseT struct {
	Kind    string   `json:"kind"` // enum | regex
	Items   []string `json:"items,omitempty"`
	Layout  int      `json:"layout,omitempty"`
	Pattern string   `json:"pattern,omitempty"`
}

var enumAlphabet = []string{"1", "1.5", `"a"`, `"1"`, "true", "null", `"b"`, `"1.5"`, `"a\/b"`, `"\u0041\n\""`, "1.50", "20.05", "-0.100", `"\u0061\u0062"`, `"\ud83d\ude00"`, `""`, `" "`}
var enumProbes = []string{"1", "1.5", `"a"`, `"1"`, "true", "null", `"b"`, "2", `"A"`, "false", `"1.5"`, "1.50", `""`, `"true"`, `"a\/b"`, `"\u0041\n\""`, "20.05", "-0.100", "-0.1", "20.5", `"\u0061\u0062"`, `"ab"`, `"\ud83d\ude00"`, `"a\u0020b\u0020c"`, `" "`}

const nLayouts = 9

func enumText(items []string, layout int) string {
	switch layout {
	case 0:
		return "[" + strings.Join(items, ", ") + "]"
	case 1:
		return "[\n  " + strings.Join(items, ",\n  ") + "\n]"
	case 2:
		var b strings.Builder
		b.WriteString("[\n")
		for i, it := range items {
			b.WriteString("  " + it)
			if i < len(items)-1 {
				b.WriteString(",")
			}
			fmt.Fprintf(&b, " // c%d\n", i)
		}
		b.WriteString("]")
		return b.String()
	case 3:
		var b strings.Builder
		b.WriteString("[\n")
		for i, it := range items {
			b.WriteString("  " + it)
			if i < len(items)-1 {
				b.WriteString(",")
			}
			fmt.Fprintf(&b, " /* c%d */\n", i)
		}
		b.WriteString("]")
		return b.String()
	case 4:
		return "[\n  // head\n  " + strings.Join(items, ",\n  // between\n  ") + "\n  // tail\n]"
	case 5:
		return "[\n\n  " + strings.Join(items, ",\n\n  ") + "\n\n]"
	case 7:
		// empty comments of both forms, before and behind values
		return "[ //\n  /**/ " + strings.Join(items, ", //\n  /* */ ") + " /**/ //\n]"
	case 8:
		// comments whose text looks like values or like comment openers
		return "[\n  // 9, \"zz\"\n  " + strings.Join(items, ", /* 8, // */\n  ") + " // ]\n]"
	default:
		return "[\r\n  " + strings.Join(items, ",\r\n  ") + "\r\n]"
	}
}

// litType: the schema type of a literal of the alphabet.
func litType(l string) string {
	switch {
	case strings.HasPrefix(l, `"`):
		return "string"
	case l == "true" || l == "false":
		return "boolean"
	case l == "null":
		return "null"
	case strings.ContainsAny(l, ".eE"):
		return "float"
	}
	return "integer"
}

func hasDup(items []string) bool {
	seen := map[string]bool{}
	for _, it := range items {
		if seen[it] {
			return true
		}
		seen[it] = true
	}
	return false
}

func evalEnum(cs caseT) (string, string) {
	text := enumText(cs.Items, cs.Layout)
	rule := enum.New("@E", text)
	chk := lib.Guard(rule.Check)
	if chk.Panic != "" {
		return "panic", fmt.Sprintf("enum rule %q: Check panics: %s", text, chk.Panic)
	}
	dup := hasDup(cs.Items)
	if dup != !chk.OK {
		if dup {
			return "dup-accepted", fmt.Sprintf("enum rule %q has duplicate values but Check succeeds", text)
		}
		return "rule-rejected", fmt.Sprintf("enum rule %q is rejected: %s", text, chk)
	}
	if dup {
		return "", ""
	}
	// Values / GetAST in source order
	vals, err := rule.Values()
	if err != nil {
		return "values", fmt.Sprintf("enum rule %q: Values() fails: %v", text, err)
	}
	var got []string
	for _, v := range vals {
		if v.Type != jlib.SchemaTypeComment {
			got = append(got, string(v.Value))
		}
	}
	if strings.Join(got, "|") != strings.Join(cs.Items, "|") {
		return "values", fmt.Sprintf("enum rule %q: Values() lists %v, source order is %v", text, got, cs.Items)
	}
	// each value carries the schema type of its literal
	i := 0
	for _, v := range vals {
		if v.Type == jlib.SchemaTypeComment {
			continue
		}
		if want := litType(cs.Items[i]); string(v.Type) != want {
			return "value-type", fmt.Sprintf("enum rule %q: Values() reports %s as %q, it is a %s literal", text, cs.Items[i], v.Type, want)
		}
		i++
	}
	ast, err := rule.GetAST()
	if err != nil {
		return "ast", fmt.Sprintf("enum rule %q: GetAST() fails: %v", text, err)
	}
	var astv []string
	for _, ch := range ast.Children {
		if ch.SchemaType != string(jlib.SchemaTypeComment) {
			v := ch.Value
			if ch.TokenType == jlib.TokenTypeString && !strings.HasPrefix(v, `"`) {
				v = `"` + v + `"`
			}
			astv = append(astv, v)
		}
	}
	if strings.Join(astv, "|") != strings.Join(cs.Items, "|") {
		return "ast", fmt.Sprintf("enum rule %q: GetAST() lists %v, source order is %v", text, astv, cs.Items)
	}
	// named vs inline
	ex := cs.Items[0]
	named, rn := lib.Check(lib.SchemaSpec{Text: ex + " // {enum: @E}", Types: []lib.TypeDef{{Name: "@E", Text: text, Kind: "enum"}}})
	inline, ri := lib.Check(lib.SchemaSpec{Text: ex + " // {enum: [" + strings.Join(cs.Items, ", ") + "]}"})
	if rn.OK != ri.OK {
		return "check-differs", fmt.Sprintf("schema with {enum: @E} (rule %q): Check %s, inline list: Check %s", text, rn, ri)
	}
	if !rn.OK {
		return "", ""
	}
	for _, p := range enumProbes {
		a, b := lib.Validate(named, p), lib.Validate(inline, p)
		if a.OK != b.OK || a.Panic != "" || b.Panic != "" {
			return "verdict-differs", fmt.Sprintf("document %s: {enum: @E} with rule %q -> %s, inline list -> %s", p, text, a, b)
		}
		// membership is by VALUE for strings (escapes decoded), by spelling for the other literals
		canon := func(l string) string {
			if strings.HasPrefix(l, `"`) {
				return `"` + gen.StrValue(l)
			}
			return l
		}
		member := false
		for _, it := range cs.Items {
			member = member || canon(it) == canon(p)
		}
		if member != a.OK && p != "1.50" {
			return "membership", fmt.Sprintf("document %s against enum %v: %s", p, cs.Items, a)
		}
	}
	// ONE rule object referenced twice in a schema and added to a second schema:
	// using the rule must not change it.
	shared := enum.New("@E", text)
	s1 := jschema.New("s1", "{\n  \"a\": "+ex+", // {enum: @E}\n  \"b\": "+ex+" // {enum: @E}\n}")
	r1 := lib.Guard(func() error {
		if err := s1.AddRule("@E", shared); err != nil {
			return err
		}
		return s1.Check()
	})
	if !r1.OK {
		return "shared-rule", fmt.Sprintf("rule %q referenced by two properties of one schema: %s, while a single reference is accepted", text, r1)
	}
	s2 := jschema.New("s2", ex+" // {enum: @E}")
	r2 := lib.Guard(func() error {
		if err := s2.AddRule("@E", shared); err != nil {
			return err
		}
		return s2.Check()
	})
	if !r2.OK {
		return "shared-rule", fmt.Sprintf("rule %q added to a second schema after it was used by a first one: %s", text, r2)
	}
	for _, p := range enumProbes {
		a, b := lib.Validate(s2, p), lib.Validate(inline, p)
		if a.OK != b.OK {
			return "shared-rule", fmt.Sprintf("document %s: rule %q shared by two schemas -> %s, inline list -> %s", p, text, a, b)
		}
	}
	after, err := shared.Values()
	if err != nil || len(after) != len(vals) {
		return "shared-rule", fmt.Sprintf("rule %q: Values() after use by two schemas: %d entries (%v), before use %d", text, len(after), err, len(vals))
	}
	for i := range after {
		if after[i].Type != vals[i].Type || string(after[i].Value) != string(vals[i].Value) {
			return "shared-rule", fmt.Sprintf("rule %q: Values()[%d] after use by two schemas is %s %q, before use %s %q", text, i, after[i].Type, after[i].Value, vals[i].Type, vals[i].Value)
		}
	}
	return "", ""
}

const reAlphabet = `ab.*+?|()[]^$\/"`

func slashEscape(p string) string {
	// escape unescaped slashes
	var b strings.Builder
	esc := false
	for i := 0; i < len(p); i++ {
		c := p[i]
		if c == '/' && !esc {
			b.WriteString(`\/`)
			continue
		}
		if c == '\\' {
			esc = !esc
		} else {
			esc = false
		}
		b.WriteByte(c)
	}
	return b.String()
}

var reProbes []string

func init() {
	reProbes = []string{""}
	cur := []string{""}
	for l := 0; l < 3; l++ {
		var next []string
		for _, s := range cur {
			for _, c := range []string{"a", "b", "/", `"`, `\`} {
				next = append(next, s+c)
			}
		}
		reProbes = append(reProbes, next...)
		cur = next
	}
	// strings with blanks at the ends and inside
	reProbes = append(reProbes, " ", "a ", " a", "a b", "\ta", "a\n", " a ", "  ")
}

// blankPatterns: patterns whose matches begin or end with a blank (the enumerated alphabet has none).
func blankPatterns() []string {
	ends := []string{"", " ", `\t`, `\s`, "[ ]", `\n`, " +", "  "}
	cores := []string{"a", "ab", "a b", "key:", ""}
	var out []string
	for _, pre := range ends {
		for _, core := range cores {
			for _, suf := range ends {
				if pre == "" && suf == "" {
					continue
				}
				out = append(out, pre+core+suf)
			}
		}
	}
	// characters that mean something to the machinery a pattern or its example may be passed through
	// (format verbs, JSON, the schema language, shells): each alone, doubled, and inside a word
	for _, ch := range []string{"%", "%s", "%d", "%v", "%%", "%!", "#", "##", "//", "/\\*", "@", "@a", "\\$", "\\{", "\\}", "\\[x\\]", ":", ",", "'", "`", "&", "<", ">", "~", "=", ";", "!", "\\\\", "\\\\n"} {
		out = append(out, ch, "a"+ch+"b", ch+ch, `\d{1,3}`+ch, "["+ch[:1]+"]done")
	}
	return out
}

func evalRegex(cs caseT) (string, string) {
	p := cs.Pattern
	re, err := regexp.Compile(p)
	if err != nil {
		return "", ""
	}
	token := "/" + slashEscape(p) + "/"
	if strings.HasSuffix(slashEscape(p), `\`) && !strings.HasSuffix(slashEscape(p), `\\`) {
		return "", "" // cannot be written as a /P/ token
	}
	rs := regex.New("@T", token+" trailing text")
	pat, err := rs.Pattern()
	if err != nil {
		return "type-rejected", fmt.Sprintf("regex type %q is rejected: %v", token, firstLine(err.Error()))
	}
	re2, err := regexp.Compile(pat)
	if err != nil {
		return "pattern", fmt.Sprintf("regex type %q: Pattern() %q does not compile", token, pat)
	}
	n, err := rs.Len()
	if err != nil || int(n) != len(token) {
		return "len", fmt.Sprintf("regex type %q followed by text: Len() = %d (%v), the token has %d bytes", token, n, err, len(token))
	}
	ex, err := rs.Example()
	if err != nil {
		return "example", fmt.Sprintf("regex type %q: Example() fails: %v", token, err)
	}
	if !re.MatchString(string(ex)) {
		if exampleAsserted(p) {
			return "example", fmt.Sprintf("regex type %q: Example() %q does not match the pattern", token, ex)
		}
		return "", "" // the generator ignored an anchor: the derived type legitimately fails Check
	}
	// type @T vs inline vs regexp
	named, rn := lib.Check(lib.SchemaSpec{Text: "@T", Types: []lib.TypeDef{{Name: "@T", Text: token, Kind: "regex"}}})
	if !rn.OK {
		return "named-check", fmt.Sprintf("schema @T with regex type %q: Check %s", token, rn)
	}
	inlineText := gen.QuoteJSON(string(ex)) + " // {regex: " + gen.QuoteJSON(p) + "}"
	inline, ri := lib.Check(lib.SchemaSpec{Text: inlineText})
	if !ri.OK {
		return "inline-check", fmt.Sprintf("inline schema %q: Check %s", inlineText, ri)
	}
	for _, s := range reProbes {
		doc := gen.QuoteJSON(s)
		a, b := lib.Validate(named, doc), lib.Validate(inline, doc)
		want := re.MatchString(s)
		_ = re2
		if a.OK != want || b.OK != want || a.Panic != "" || b.Panic != "" {
			return "verdict", fmt.Sprintf("pattern %q, string %q: regex type %s -> %s, inline {regex} -> %s, regexp.MatchString -> %v", p, s, token, a, b, want)
		}
	}
	return "", ""
}

// exampleAsserted: the third-party generator ignores anchors, so "Example
// matches P" is asserted only for patterns whose only anchors are a leading ^
// and a trailing $ (at top level, outside alternations).
func exampleAsserted(p string) bool {
	inner := p
	inner = strings.TrimPrefix(inner, "^")
	if strings.HasSuffix(inner, "$") && !strings.HasSuffix(inner, `\$`) {
		inner = strings.TrimSuffix(inner, "$")
	}
	esc := false
	for i := 0; i < len(inner); i++ {
		c := inner[i]
		if esc {
			esc = false
			if c == 'b' || c == 'B' || c == 'A' || c == 'z' {
				return false // \b \B \A \z are anchors as well
			}
			continue
		}
		switch c {
		case '\\':
			esc = true
		case '^', '$':
			return false
		}
	}
	return !strings.Contains(p, "|") || !strings.ContainsAny(p, "^$")
}

func firstLine(s string) string {
	if i := strings.IndexByte(s, '\n'); i >= 0 {
		return s[:i]
	}
	return s
}

func run(c *ev.Ctx) {
	k, L := 3, 4
	if c.Thorough() {
		k, L = 4, 5
	}
	c.Bound("enum_items", k)
	c.Bound("regex_length", L)
	var rec func(cur []string)
	rec = func(cur []string) {
		if len(cur) > 0 {
			for layout := 0; layout < nLayouts; layout++ {
				if !c.Mine() {
					continue
				}
				cs := caseT{Kind: "enum", Items: append([]string{}, cur...), Layout: layout}
				dir, desc := evalEnum(cs)
				c.Eval(true)
				c.Inc("enum_cases")
				if layout == 2 && len(cur) == 2 {
					c.Sample("enum", enumText(cur, layout))
				}
				if dir != "" {
					c.Violate(fmt.Sprintf("enum;%s;%v;layout=%d", dir, cs.Items, layout), desc, cs)
				}
			}
		}
		if len(cur) == k {
			return
		}
		for _, a := range enumAlphabet {
			rec(append(cur, a))
		}
	}
	rec(nil)
	// regex
	for i, p := range blankPatterns() {
		if !c.MineKey(fmt.Sprint("blank-pattern;", i)) || c.Expired() {
			continue
		}
		cs := caseT{Kind: "regex", Pattern: p}
		dir, desc := evalRegex(cs)
		c.Eval(true)
		c.Inc("regex_blank_patterns")
		if dir != "" {
			c.Violate(fmt.Sprintf("regex;%s;%q", dir, p), desc, cs)
		}
	}
	buf := make([]byte, 0, L)
	var rr func()
	rr = func() {
		if len(buf) > 0 {
			if c.Mine() && !c.Expired() {
				cs := caseT{Kind: "regex", Pattern: string(buf)}
				if _, err := regexp.Compile(cs.Pattern); err == nil {
					dir, desc := evalRegex(cs)
					c.Eval(true)
					c.Inc("regex_patterns")
					if len(buf) == 4 {
						c.Sample("regex", cs.Pattern)
					}
					if dir != "" {
						red := ev.Reduce(cs.Pattern, func(p string) []string {
							var out []string
							for i := 0; i < len(p); i++ {
								out = append(out, p[:i]+p[i+1:])
							}
							return out
						}, func(p string) bool {
							if p == "" {
								return false
							}
							d, _ := evalRegex(caseT{Kind: "regex", Pattern: p})
							return d == dir
						})
						_, desc = evalRegex(caseT{Kind: "regex", Pattern: red})
						c.Violate(fmt.Sprintf("regex;%s;%q", dir, red), desc, caseT{Kind: "regex", Pattern: red})
					}
				} else {
					c.Inc("regex_not_compilable")
				}
			}
		}
		if len(buf) == L {
			return
		}
		for i := 0; i < len(reAlphabet); i++ {
			buf = append(buf, reAlphabet[i])
			rr()
			buf = buf[:len(buf)-1]
		}
	}
	rr()
}

func replay(raw stdjson.RawMessage) (bool, string) {
	var cs caseT
	if err := stdjson.Unmarshal(raw, &cs); err != nil {
		return false, err.Error()
	}
	var dir, desc string
	if cs.Kind == "enum" {
		dir, desc = evalEnum(cs)
	} else {
		dir, desc = evalRegex(cs)
	}
	return dir != "", desc
}
