package c04

import (
	"fmt"

	"verif/checks/rulesets"
	"verif/checks/sc"
	"verif/gen"
	"verif/internal/ev"
	"verif/internal/lib"
	"verif/ref/refv"
)

// Rule-set family: every rule set of <= 3 (4) names from a scalar kind's
// applicable pool with boundary parameters x EVERY example candidate of the
// kind. A rule set is usable when Check accepts it with some candidate the
// reference accepts too; then every candidate the reference REJECTS under these
// rules must make Check fail, at the example's offset (property position).

type rsCase struct {
	Kind  string     `json:"rule_set_kind"`
	Lit   string     `json:"example"`
	Rules []gen.Rule `json:"rules"`
}

func (r rsCase) node() *gen.Node {
	k := map[string]gen.Kind{"integer": gen.KInt, "float": gen.KFloat, "string": gen.KStr}[r.Kind]
	return &gen.Node{Kind: k, Lit: r.Lit, Rules: r.Rules}
}

func (r rsCase) eval() (string, string) {
	n := r.node()
	cs := sc.Case{Root: gen.Obj(gen.P("a", gen.Bool("true")), gen.P("k", n))}
	s, res := lib.Check(cs.Spec())
	if res.Panic != "" {
		return "panic", fmt.Sprintf("%s: Check panics: %s", cs.Describe(), res.Panic)
	}
	if res.OK {
		return "corruption-accepted", fmt.Sprintf("%s: the example %s violates its own rules but Check succeeds", cs.Describe(), r.Lit)
	}
	if r2 := lib.Recheck(s); r2.OK {
		return "corruption-accepted-on-second-check", fmt.Sprintf("%s: the first Check fails (%s) but a second Check succeeds", cs.Describe(), res)
	}
	want := gen.Render(cs.Root, gen.Canonical).ValOff[n]
	if !res.HasPos || int(res.Pos) != want {
		return "wrong-position", fmt.Sprintf("%s: Check fails (%s) but reports position %d; the offending example starts at byte %d", cs.Describe(), res, res.Pos, want)
	}
	return "", ""
}

func ruleSetFamily(c *ev.Ctx) {
	k := 3
	if c.Thorough() {
		k = 4
	}
	c.Bound("rule_set_family_names", k)
	type spec struct {
		kind     string
		k        gen.Kind
		pool     []rulesets.Variant
		examples []string
	}
	specs := []spec{
		{"integer", gen.KInt, rulesets.NumericPool(false), rulesets.IntExamples},
		{"float", gen.KFloat, rulesets.NumericPool(true), rulesets.FloatExamples},
		{"string", gen.KStr, rulesets.StringPool(), rulesets.StrExamples},
	}
	env := &refv.Env{}
	n := 0
	for _, sp := range specs {
		kk := k
		if sp.k != gen.KStr {
			kk = k + 1 // bounds come in pairs with their exclusive flags: four names
		}
		rulesets.RuleSets(sp.pool, kk, func(rules []gen.Rule) {
			n++
			if len(rules) == 0 || !c.MineKey(fmt.Sprintf("rs%d", n)) || c.Expired() {
				return
			}
			// usable: some candidate is accepted by the reference AND by Check
			usable := false
			var bad []string
			for _, ex := range sp.examples {
				node := &gen.Node{Kind: sp.k, Lit: ex, Rules: rules}
				switch refv.Accepts(env, node, &gen.JV{Kind: sp.k, Lit: ex}) {
				case refv.Accept:
					if !usable {
						_, r := lib.Check(sc.Case{Root: gen.Obj(gen.P("k", node))}.Spec())
						usable = r.OK
					}
				case refv.Reject:
					bad = append(bad, ex)
				}
			}
			if !usable {
				c.Inc("rule_sets_unusable")
				return
			}
			c.Inc("rule_sets_usable")
			for _, ex := range bad {
				rc := rsCase{sp.kind, ex, rules}
				c.Eval(true)
				c.Inc("rule_set_corruptions")
				if dir, desc := rc.eval(); dir != "" {
					c.Violate(fmt.Sprintf("ruleset;%s;%s;%s;%s", dir, sp.kind, ex, ruleKeyOf(rules)), desc, rc)
				}
			}
		})
	}
}

func ruleKeyOf(rs []gen.Rule) string {
	s := ""
	for _, r := range rs {
		s += r.Name + ":" + r.ValText() + ","
	}
	return s
}
