// Package c04: Check accepts a schema only if its own EXAMPLE obeys its rules.
package c04

import (
	stdjson "encoding/json"
	"fmt"
	"strings"
	"time"

	"verif/checks/sc"
	"verif/gen"
	"verif/internal/ev"
	"verif/internal/lib"
)

func init() {
	ev.Register(&ev.Check{
		ID:             "C04",
		Level:          "exploration",
		Rule:           "slots = annotated values (also containers under type lists) with a rule set, an example obeying it and, per rule, single-rule corruptions of the example (bound -/+ one step, length +-1, non-matching string, non-member, malformed format, one item too few/many, wrong declared kind, value outside every or-alternative / referenced type). (=>) ALL shapes <= 3 (thorough 4) nodes with every scalar leaf replaced by every slot (good example) plus every slot in 17 nesting contexts (root, property, array element first/later, nested twice, before/after siblings that carry type lists of their own, inside an added user type): whenever Check succeeds Validate(example text) must succeed. (<=) every slot x every context x every corruption: Check must fail and report the byte offset of the corrupted value (renderer's offset map). (rule sets) every rule set of <= 3 (4) names from a scalar kind's applicable pool with boundary parameters x every example candidate: whenever the set is usable, every candidate the reference rejects must make Check fail at the example's offset. (pairs) EVERY ordered pair of slots as sibling properties and as sibling array items, both good (verdict = conjunction of the single verdicts; example validates) and with one of the two corrupted in every way (Check must fail at the corrupted sibling's offset). Non-trivial = distinct rendered schema.",
		Run:            run,
		Replay:         replay,
		QuickBudget:    80 * time.Second,
		ThoroughBudget: 12 * time.Minute,
		Assumptions: []string{
			"which error code Check reports is not asserted",
			"for a corruption inside an added user type the error must name the type's own file and the offset of the value in it",
		},
	})
}

// Slot is an annotated value with corruptions of its example.
type Slot struct {
	Name    string
	Good    *gen.Node
	Corrupt []*gen.Node // same rules, example violating one rule
}

func sc1(kind gen.Kind, lit string, rules ...gen.Rule) *gen.Node {
	return &gen.Node{Kind: kind, Lit: lit, Rules: rules}
}

func lits(xs ...string) []gen.RuleItem {
	var out []gen.RuleItem
	for _, x := range xs {
		out = append(out, gen.RuleItem{Lit: x})
	}
	return out
}

func scalarSlot(name string, kind gen.Kind, good string, rules []gen.Rule, bad ...string) Slot {
	s := Slot{Name: name, Good: sc1(kind, good, rules...)}
	for _, b := range bad {
		k := kind
		switch {
		case len(b) > 0 && b[0] == '"':
			k = gen.KStr
		case b == "true" || b == "false":
			k = gen.KBool
		case b == "null":
			k = gen.KNull
		}
		s.Corrupt = append(s.Corrupt, sc1(k, b, rules...))
	}
	return s
}

func arr(items []string, rules ...gen.Rule) *gen.Node {
	n := gen.Arr()
	for _, it := range items {
		n.Items = append(n.Items, gen.Int(it))
	}
	n.Rules = rules
	return n
}

func slots() []Slot {
	R := gen.R
	ss := []Slot{
		scalarSlot("min", gen.KInt, "5", []gen.Rule{R("min", "5")}, "4", "-5", "0"),
		scalarSlot("min-float", gen.KFloat, "0.5", []gen.Rule{R("min", "0.5")}, "0.4", "0.49", "-0.5"),
		scalarSlot("max", gen.KInt, "5", []gen.Rule{R("max", "5")}, "6", "50"),
		scalarSlot("max-float", gen.KFloat, "1.5", []gen.Rule{R("max", "1.5")}, "1.51", "2.5"),
		scalarSlot("exclusiveMinimum", gen.KInt, "6", []gen.Rule{R("min", "5"), R("exclusiveMinimum", "true")}, "5", "4"),
		scalarSlot("exclusiveMaximum", gen.KInt, "4", []gen.Rule{R("max", "5"), R("exclusiveMaximum", "true")}, "5", "6"),
		scalarSlot("min-max", gen.KInt, "3", []gen.Rule{R("min", "1"), R("max", "5")}, "0", "6"),
		scalarSlot("precision", gen.KFloat, "1.25", []gen.Rule{R("precision", "2")}, "1.255", "0.001"),
		scalarSlot("decimal", gen.KFloat, "1.5", []gen.Rule{R("type", `"decimal"`), R("precision", "1")}, "1.55"),
		scalarSlot("minLength", gen.KStr, `"ab"`, []gen.Rule{R("minLength", "2")}, `"a"`, `""`),
		scalarSlot("maxLength", gen.KStr, `"ab"`, []gen.Rule{R("maxLength", "2")}, `"abc"`, `"abcd"`),
		scalarSlot("min-maxLength", gen.KStr, `"ab"`, []gen.Rule{R("minLength", "1"), R("maxLength", "3")}, `""`, `"abcd"`),
		scalarSlot("regex", gen.KStr, `"abc"`, []gen.Rule{R("regex", `"^a.c$"`)}, `"abd"`, `"xabc"`, `""`),
		scalarSlot("enum", gen.KStr, `"a"`, []gen.Rule{gen.RL("enum", lits(`"a"`, `"b"`, "1")...)}, `"c"`, `"1"`, "2", "true"),
		scalarSlot("enum-int", gen.KInt, "1", []gen.Rule{gen.RL("enum", lits("1", "2", `"x"`)...)}, "3", `"1"`, "1.5"),
		scalarSlot("email", gen.KStr, `"a@b.cc"`, []gen.Rule{R("type", `"email"`)}, `"a"`, `""`, `"a@"`),
		scalarSlot("uri", gen.KStr, `"http://a.b/c"`, []gen.Rule{R("type", `"uri"`)}, `"a"`, `""`),
		scalarSlot("uuid", gen.KStr, `"550e8400-e29b-41d4-a716-446655440000"`, []gen.Rule{R("type", `"uuid"`)}, `"550e8400-e29b-41d4-a716-44665544000"`, `"x"`),
		scalarSlot("date", gen.KStr, `"2024-02-29"`, []gen.Rule{R("type", `"date"`)}, `"2023-02-29"`, `"2024-13-01"`, `"x"`),
		scalarSlot("datetime", gen.KStr, `"2023-01-31T23:59:59Z"`, []gen.Rule{R("type", `"datetime"`)}, `"2023-01-32T23:59:59Z"`, `"2023-01-31"`),
		scalarSlot("type-integer", gen.KInt, "1", []gen.Rule{R("type", `"integer"`)}, `"s"`, "1.5", "true", "null"),
		scalarSlot("type-string", gen.KStr, `"s"`, []gen.Rule{R("type", `"string"`)}, "1", "true", "null"),
		scalarSlot("type-boolean", gen.KBool, "true", []gen.Rule{R("type", `"boolean"`)}, "1", `"true"`),
		scalarSlot("type-float", gen.KFloat, "1.5", []gen.Rule{R("type", `"float"`)}, `"1.5"`, "true"),
		scalarSlot("type-null", gen.KNull, "null", []gen.Rule{R("type", `"null"`)}, "0", `"null"`),
		scalarSlot("type-ref", gen.KInt, "1", []gen.Rule{R("type", `"@Int"`)}, `"s"`, "true"),
		scalarSlot("type-ref-ranged", gen.KInt, "7", []gen.Rule{R("type", `"@Ranged"`)}, "1", "11", `"7"`),
		scalarSlot("or-types", gen.KInt, "1", []gen.Rule{gen.RL("or", lits(`"@Int"`, `"@Str"`)...)}, "true", "1.5", "null"),
		scalarSlot("or-sets", gen.KStr, `"ab"`, []gen.Rule{gen.RL("or", gen.RuleItem{Set: []gen.Rule{R("type", `"integer"`), R("min", "5")}}, gen.RuleItem{Set: []gen.Rule{R("type", `"string"`), R("maxLength", "2")}})}, "4", `"abc"`, "true"),
		scalarSlot("nullable-min", gen.KInt, "5", []gen.Rule{R("min", "5"), R("nullable", "true")}, "4"),
		scalarSlot("const-min", gen.KInt, "5", []gen.Rule{R("const", "true"), R("min", "5")}, "4"),
	}
	// or-lists pairing every single-rule scalar slot with a second alternative of
	// another kind (container kinds, bare names, user types)
	kindName := map[gen.Kind]string{gen.KInt: "integer", gen.KFloat: "float", gen.KStr: "string", gen.KBool: "boolean", gen.KNull: "null"}
	alts := []gen.RuleItem{
		{Set: []gen.Rule{R("type", `"array"`)}}, {Set: []gen.Rule{R("type", `"object"`)}}, {Lit: `"object"`}, {Lit: `"array"`},
		{Lit: `"@Obj"`}, {Lit: `"@Arr"`}, {Set: []gen.Rule{R("type", `"null"`)}}, {Lit: `"boolean"`},
	}
	base := append([]Slot{}, ss...)
	for _, b := range base {
		if b.Good.Rule("or") != nil || b.Good.Rule("enum") != nil || b.Good.Rule("type") != nil || b.Good.Rule("const") != nil || b.Good.Rule("nullable") != nil {
			continue
		}
		for ai, alt := range alts {
			set := append([]gen.Rule{R("type", `"`+kindName[b.Good.Kind]+`"`)}, b.Good.Rules...)
			for _, first := range []bool{true, false} {
				items := []gen.RuleItem{{Set: set}, alt}
				if !first {
					items = []gen.RuleItem{alt, {Set: set}}
				}
				ns := Slot{Name: fmt.Sprintf("or[%s|alt%d|%v]", b.Name, ai, first), Good: sc1(b.Good.Kind, b.Good.Lit, gen.RL("or", items...))}
				for _, c := range b.Corrupt {
					if c.Kind != b.Good.Kind {
						continue // a value of another kind might match the alternative
					}
					ns.Corrupt = append(ns.Corrupt, sc1(c.Kind, c.Lit, gen.RL("or", items...)))
				}
				ss = append(ss, ns)
			}
		}
	}
	// the same type-reference / or slots with nullable: true next to them: the
	// null alternative must not make Check lenient towards other values
	for _, b := range append([]Slot{}, ss...) {
		if b.Good.Rule("nullable") != nil || (b.Good.Rule("or") == nil && !(b.Good.Rule("type") != nil && strings.HasPrefix(b.Good.Rule("type").Val, `"@`))) {
			continue
		}
		if strings.HasPrefix(b.Name, "or[") && !strings.Contains(b.Name, "alt4") && !strings.Contains(b.Name, "alt1") {
			continue // two alternative kinds of the derived or-slots are enough here
		}
		ns := Slot{Name: b.Name + "+nullable", Good: b.Good.Clone().With(R("nullable", "true"))}
		for _, c := range b.Corrupt {
			if c.Kind == gen.KNull {
				continue
			}
			ns.Corrupt = append(ns.Corrupt, c.Clone().With(R("nullable", "true")))
		}
		ss = append(ss, ns)
	}
	// type lists whose corruptions are CONTAINER examples (an empty object / array
	// where only scalar kinds, or only the other container kind, are admitted)
	contBad := func(rules ...gen.Rule) []*gen.Node {
		return []*gen.Node{gen.Obj().With(rules...), gen.Arr().With(rules...)}
	}
	orNames := gen.RL("or", lits(`"integer"`, `"string"`)...)
	orSets := gen.RL("or", gen.RuleItem{Set: []gen.Rule{R("type", `"integer"`)}}, gen.RuleItem{Set: []gen.Rule{R("type", `"string"`), R("minLength", "1")}})
	orRefs := gen.RL("or", lits(`"@Int"`, `"@Str"`)...)
	ss = append(ss,
		Slot{"or-names-container", sc1(gen.KInt, "1", orNames), append(contBad(orNames), sc1(gen.KBool, "true", orNames))},
		Slot{"or-sets-container", sc1(gen.KStr, `"s"`, orSets), contBad(orSets)},
		Slot{"or-refs-container", sc1(gen.KInt, "1", orRefs), contBad(orRefs)},
		Slot{"or-object-only", gen.Obj().With(gen.RL("or", lits(`"object"`, `"string"`)...)), []*gen.Node{gen.Arr().With(gen.RL("or", lits(`"object"`, `"string"`)...))}},
		Slot{"or-array-only", gen.Arr().With(gen.RL("or", lits(`"array"`, `"integer"`)...)), []*gen.Node{gen.Obj().With(gen.RL("or", lits(`"array"`, `"integer"`)...))}},
	)
	ss = append(ss,
		Slot{"minItems", arr([]string{"1", "2"}, R("minItems", "2")), []*gen.Node{arr([]string{"1"}, R("minItems", "2"))}},
		Slot{"maxItems", arr([]string{"1"}, R("maxItems", "1")), []*gen.Node{arr([]string{"1", "2"}, R("maxItems", "1")), arr([]string{"1", "2", "3"}, R("maxItems", "1"))}},
		Slot{"min-maxItems", arr([]string{"1", "2"}, R("minItems", "2"), R("maxItems", "2")), []*gen.Node{arr([]string{"1"}, R("minItems", "2"), R("maxItems", "2")), arr([]string{"1", "2", "3"}, R("minItems", "2"), R("maxItems", "2"))}},
	)
	return ss
}

var types = []sc.TypeDecl{
	{Name: "@Obj", Body: gen.Obj(gen.P("k", gen.Int("1")))},
	{Name: "@Arr", Body: gen.Arr(gen.Int("1"))},
	{Name: "@Int", Body: gen.Int("1")},
	{Name: "@Str", Body: gen.Str(`"s"`)},
	{Name: "@Ranged", Body: gen.Int("7").With(gen.R("min", "5"), gen.R("max", "10"))},
}

// Context wraps a slot node into a schema; inType says the slot sits in an added type.
type Context struct {
	Name   string
	Wrap   func(slot *gen.Node) (root *gen.Node, extra []sc.TypeDecl)
	InType bool
}

func contexts() []Context {
	id := func(f func(*gen.Node) *gen.Node) func(*gen.Node) (*gen.Node, []sc.TypeDecl) {
		return func(s *gen.Node) (*gen.Node, []sc.TypeDecl) { return f(s), nil }
	}
	return []Context{
		{"root", id(func(s *gen.Node) *gen.Node { return s }), false},
		{"property", id(func(s *gen.Node) *gen.Node { return gen.Obj(gen.P("a", s)) }), false},
		{"property-middle", id(func(s *gen.Node) *gen.Node {
			return gen.Obj(gen.P("x", gen.Int("1")), gen.P("a", s), gen.P("y", gen.Str(`"s"`)))
		}), false},
		{"optional-property", func(s *gen.Node) (*gen.Node, []sc.TypeDecl) {
			c := s.Clone()
			c.Rules = append(c.Rules, gen.R("optional", "true"))
			return gen.Obj(gen.P("a", c)), nil
		}, false},
		{"item-first", id(func(s *gen.Node) *gen.Node { return gen.Arr(s) }), false},
		{"item-first-of-two", id(func(s *gen.Node) *gen.Node { return gen.Arr(s, gen.Bool("true")) }), false},
		{"item-second", id(func(s *gen.Node) *gen.Node { return gen.Arr(gen.Bool("true"), s) }), false},
		{"item-third", id(func(s *gen.Node) *gen.Node { return gen.Arr(gen.Bool("true"), gen.Null(), s) }), false},
		{"object-in-array", id(func(s *gen.Node) *gen.Node { return gen.Arr(gen.Obj(gen.P("a", s))) }), false},
		{"array-in-object", id(func(s *gen.Node) *gen.Node { return gen.Obj(gen.P("a", gen.Arr(gen.Int("1"), s))) }), false},
		{"nested-objects", id(func(s *gen.Node) *gen.Node { return gen.Obj(gen.P("a", gen.Obj(gen.P("b", gen.Obj(gen.P("c", s)))))) }), false},
		// siblings that carry type lists of their own (admitting other kinds) before
		// and after the slot: what one node admits must not leak into the next
		{"after-or-object-sibling", id(func(s *gen.Node) *gen.Node {
			return gen.Obj(gen.P("z", gen.Obj().With(gen.RL("or", lits(`"object"`, `"array"`, `"boolean"`)...))), gen.P("a", s))
		}), false},
		{"after-or-array-sibling-item", id(func(s *gen.Node) *gen.Node {
			return gen.Arr(gen.Arr().With(gen.RL("or", lits(`"array"`, `"object"`, `"boolean"`)...)), s)
		}), false},
		{"after-shortcut-sibling", id(func(s *gen.Node) *gen.Node {
			return gen.Obj(gen.P("z", gen.Ref("@Obj", "@Arr")), gen.P("y", gen.Ref("@Int")), gen.P("a", s))
		}), false},
		{"before-or-object-sibling", id(func(s *gen.Node) *gen.Node {
			return gen.Obj(gen.P("a", s), gen.P("z", gen.Obj().With(gen.RL("or", lits(`"object"`, `"array"`, `"boolean"`)...))))
		}), false},
		{"in-type-root", func(s *gen.Node) (*gen.Node, []sc.TypeDecl) {
			return gen.Ref("@W"), []sc.TypeDecl{{Name: "@W", Body: s}}
		}, true},
		{"in-type-property", func(s *gen.Node) (*gen.Node, []sc.TypeDecl) {
			return gen.Obj(gen.P("k", gen.Ref("@W"))), []sc.TypeDecl{{Name: "@W", Body: gen.Obj(gen.P("a", s))}}
		}, true},
	}
}

type caseT struct {
	Slot    string `json:"slot"`
	Context string `json:"context"`
	Corrupt int    `json:"corruption"` // -1 = good example
}

func build(cs caseT) (sc.Case, *gen.Node, bool, bool) {
	for _, s := range slots() {
		if s.Name != cs.Slot {
			continue
		}
		for _, cx := range contexts() {
			if cx.Name != cs.Context {
				continue
			}
			n := s.Good
			if cs.Corrupt >= 0 {
				if cs.Corrupt >= len(s.Corrupt) {
					return sc.Case{}, nil, false, false
				}
				n = s.Corrupt[cs.Corrupt]
			}
			n = n.Clone()
			root, extra := cx.Wrap(n)
			// Wrap may clone the slot (optional-property): find the slot node again
			var slotNode *gen.Node
			find := func(r *gen.Node) {
				r.Walk(func(x *gen.Node) {
					if x == n {
						slotNode = x // identity wins over shape (siblings may look alike)
					}
					if slotNode == n {
						return
					}
					if x.Kind == n.Kind && x.Lit == n.Lit && len(x.Items) == len(n.Items) && len(x.Rules) >= len(n.Rules) && len(n.Rules) > 0 {
						same := true
						for i := range n.Rules {
							same = same && x.Rules[i].Name == n.Rules[i].Name && x.Rules[i].ValText() == n.Rules[i].ValText()
						}
						if same {
							slotNode = x
						}
					}
				})
			}
			find(root)
			for _, t := range extra {
				if slotNode == nil {
					find(t.Body)
				}
			}
			return sc.Case{Root: root, Types: append(append([]sc.TypeDecl{}, types...), extra...)}, slotNode, cx.InType, true
		}
	}
	return sc.Case{}, nil, false, false
}

// evalCorrupt: returns "" if fine, else a description.
func evalCase(cs caseT) (string, string) {
	c, slotNode, inType, ok := build(cs)
	if !ok {
		return "", ""
	}
	sp := c.Spec()
	s, r := lib.Check(sp)
	if cs.Corrupt < 0 {
		if !r.OK {
			return "", "" // (=>) only speaks about accepted schemas
		}
		ex, okx := gen.ExampleJSON(c.Root)
		if !okx {
			return "", ""
		}
		v := lib.Validate(s, ex)
		if !v.OK {
			return "example-rejected", fmt.Sprintf("%s: Check succeeds but validating the example text %s fails: %s", c.Describe(), ex, v)
		}
		return "", ""
	}
	if r.Panic != "" {
		return "panic", fmt.Sprintf("%s: Check panics: %s", c.Describe(), r.Panic)
	}
	if r.OK {
		return "corruption-accepted", fmt.Sprintf("%s: the example value violates its own rule (%s) but Check succeeds", c.Describe(), cs.Slot)
	}
	if r2 := lib.Recheck(s); r2.OK {
		return "corruption-accepted-on-second-check", fmt.Sprintf("%s: the example value violates its own rule (%s): the first Check fails (%s) but a second Check on the same schema object succeeds", c.Describe(), cs.Slot, r)
	}
	if !inType && slotNode != nil {
		rd := gen.Render(c.Root, gen.Canonical)
		want := rd.ValOff[slotNode]
		if !r.HasPos || int(r.Pos) != want {
			return "wrong-position", fmt.Sprintf("%s: Check fails (%s) but reports position %d; the offending value starts at byte %d", c.Describe(), r, r.Pos, want)
		}
	}
	if inType && slotNode != nil {
		// the violation lies in the text of the added type: the error names that
		// file and the offset of the value in it
		for _, t := range c.Types {
			if t.Name != "@W" {
				continue
			}
			want := gen.Render(t.Body, gen.Canonical).ValOff[slotNode]
			if r.File != "@W" || !r.HasPos || int(r.Pos) != want {
				return "wrong-position-in-type", fmt.Sprintf("%s: Check fails (%s) and reports file %q position %d; the offending value starts at byte %d of the type @W", c.Describe(), r, r.File, r.Pos, want)
			}
		}
	}
	return "", ""
}

func run(c *ev.Ctx) {
	ss := slots()
	cxs := contexts()
	c.Bound("slots", len(ss))
	c.Bound("contexts", len(cxs))
	for _, s := range ss {
		for _, cx := range cxs {
			for k := -1; k < len(s.Corrupt); k++ {
				if !c.Mine() {
					continue
				}
				cs := caseT{s.Name, cx.Name, k}
				dir, desc := evalCase(cs)
				c.Eval(true)
				if k >= 0 {
					c.Inc("corruptions")
				} else {
					c.Inc("good_in_context")
				}
				if dir != "" {
					c.Violate(fmt.Sprintf("%s;%s;%s;%d", dir, s.Name, cx.Name, k), desc, cs)
				}
				if k == 0 {
					cc, _, _, _ := build(cs)
					c.Sample(cx.Name, map[string]any{"schema": cc.Spec().Text, "slot": s.Name})
				}
			}
		}
	}
	forward(c, ss)
	pairs(c, ss)
	ruleSetFamily(c)
}

// forward: all shapes with every scalar leaf replaced by every slot.
func forward(c *ev.Ctx, ss []Slot) {
	maxN := 3
	if c.Thorough() {
		maxN = 4
	}
	c.Bound("forward_shape_nodes", maxN)
	for n := 1; n <= maxN; n++ {
		shapesN(n, func(shape *gen.Node) {
			// collect leaf positions (scalars only)
			var leaves []**gen.Node
			var collect func(pp **gen.Node)
			collect = func(pp **gen.Node) {
				x := *pp
				if x.Kind != gen.KObj && x.Kind != gen.KArr {
					leaves = append(leaves, pp)
					return
				}
				for i := range x.Props {
					collect(&x.Props[i].Val)
				}
				for i := range x.Items {
					collect(&x.Items[i])
				}
			}
			root := shape.Clone()
			collect(&root)
			if len(leaves) == 0 || len(leaves) > 2 {
				return
			}
			var rec func(i int)
			rec = func(i int) {
				if i == len(leaves) {
					if !c.Mine() {
						return
					}
					if c.Expired() {
						return
					}
					cs := sc.Case{Root: root.Clone(), Types: types}
					s, r := lib.Check(cs.Spec())
					c.Eval(true)
					c.Inc("forward_schemas")
					if !r.OK {
						c.Inc("forward_check_rejected")
						return
					}
					ex, ok := gen.ExampleJSON(cs.Root)
					if !ok {
						return
					}
					v := lib.Validate(s, ex)
					if !v.OK {
						red := ev.Reduce(cs, sc.Cands, func(x sc.Case) bool {
							xs, xr := lib.Check(x.Spec())
							if !xr.OK {
								return false
							}
							xe, ok := gen.ExampleJSON(x.Root)
							return ok && !lib.Validate(xs, xe).OK
						})
						rex, _ := gen.ExampleJSON(red.Root)
						c.Violate("example-rejected;"+red.Describe(), fmt.Sprintf("%s: Check succeeds but validating the example text %s fails", red.Describe(), rex), red)
					}
					return
				}
				orig := *leaves[i]
				for _, s := range ss {
					if s.Good.Kind == gen.KArr || strings.HasPrefix(s.Name, "or[") {
						continue
					}
					*leaves[i] = s.Good.Clone()
					rec(i + 1)
				}
				*leaves[i] = orig
			}
			rec(0)
		})
	}
}

func shapesN(n int, f func(*gen.Node)) {
	if n == 1 {
		f(gen.Int("1"))
		f(gen.Obj())
		f(gen.Arr())
		return
	}
	var arrF func(rem int, cur []*gen.Node)
	arrF = func(rem int, cur []*gen.Node) {
		if rem == 0 {
			f(gen.Arr(append([]*gen.Node{}, cur...)...))
			return
		}
		for s := 1; s <= rem; s++ {
			shapesN(s, func(v *gen.Node) { arrF(rem-s, append(cur, v)) })
		}
	}
	arrF(n-1, nil)
	keys := []string{"a", "b", "c"}
	var obj func(rem int, cur []gen.Prop)
	obj = func(rem int, cur []gen.Prop) {
		if rem == 0 {
			f(gen.Obj(append([]gen.Prop{}, cur...)...))
			return
		}
		if len(cur) >= len(keys) {
			return
		}
		for s := 1; s <= rem; s++ {
			shapesN(s, func(v *gen.Node) { obj(rem-s, append(cur, gen.P(keys[len(cur)], v))) })
		}
	}
	obj(n-1, nil)
}

func replayPair(raw stdjson.RawMessage) (bool, string, bool) {
	var p pairCase
	if err := stdjson.Unmarshal(raw, &p); err != nil || p.A == "" {
		return false, "", false
	}
	dir, desc := p.eval(slots())
	return dir != "", desc, true
}

func replay(raw stdjson.RawMessage) (bool, string) {
	var rc rsCase
	if err := stdjson.Unmarshal(raw, &rc); err == nil && rc.Kind != "" {
		dir, desc := rc.eval()
		return dir != "", desc
	}
	if v, d, ok := replayPair(raw); ok {
		return v, d
	}
	var cs caseT
	if err := stdjson.Unmarshal(raw, &cs); err == nil && cs.Slot != "" {
		dir, desc := evalCase(cs)
		return dir != "", desc
	}
	var c sc.Case
	if err := stdjson.Unmarshal(raw, &c); err != nil {
		return false, err.Error()
	}
	s, r := lib.Check(c.Spec())
	if !r.OK {
		return false, "Check fails: " + r.String()
	}
	ex, _ := gen.ExampleJSON(c.Root)
	v := lib.Validate(s, ex)
	return !v.OK, fmt.Sprintf("%s: example %s -> %s", c.Describe(), ex, v)
}

// ForEachSchema enumerates every slot (good example) in every context.
func ForEachSchema(f func(sc.Case)) {
	for _, s := range slots() {
		for _, cx := range contexts() {
			c, _, _, ok := build(caseT{s.Name, cx.Name, -1})
			if ok {
				f(c)
			}
		}
	}
}

// ForEachSchemaWithCorruptions also yields the corrupted (rejected) variants.
func ForEachSchemaWithCorruptions(f func(sc.Case)) {
	for _, s := range slots() {
		for _, cx := range contexts() {
			for k := -1; k < len(s.Corrupt); k++ {
				c, _, _, ok := build(caseT{s.Name, cx.Name, k})
				if ok {
					f(c)
				}
			}
		}
	}
}

// Slots and Types export the slot table and its type environment (C02 uses
// the scalar slots as sibling rule sets).
func Slots() []Slot        { return slots() }
func Types() []sc.TypeDecl { return append([]sc.TypeDecl{}, types...) }
