package c04

import (
	"fmt"

	"verif/checks/sc"
	"verif/gen"
	"verif/internal/ev"
	"verif/internal/lib"
)

// pairs: every ordered pair of slots as siblings (two properties; two array
// items). State kept while one node is checked must not leak into the next:
// with both examples good Check's verdict must be the conjunction of the single
// verdicts and the example must validate; with ONE of the two corrupted Check
// must fail and point at the corrupted one.

type pairCase struct {
	A, B    string
	KA, KB  int  // corruption index (-1 = good)
	AsItems bool // siblings in an array instead of an object
}

func slotByName(ss []Slot, name string) *Slot {
	for i := range ss {
		if ss[i].Name == name {
			return &ss[i]
		}
	}
	return nil
}

func pick(s *Slot, k int) *gen.Node {
	if k < 0 {
		return s.Good.Clone()
	}
	return s.Corrupt[k].Clone()
}

func (p pairCase) build(ss []Slot) (sc.Case, *gen.Node, *gen.Node, bool) {
	a, b := slotByName(ss, p.A), slotByName(ss, p.B)
	if a == nil || b == nil || p.KA >= len(a.Corrupt) || p.KB >= len(b.Corrupt) {
		return sc.Case{}, nil, nil, false
	}
	na, nb := pick(a, p.KA), pick(b, p.KB)
	root := gen.Obj(gen.P("a", na), gen.P("b", nb))
	if p.AsItems {
		root = gen.Arr(na, nb)
	}
	return sc.Case{Root: root, Types: types}, na, nb, true
}

var singleOK = map[string]bool{}

// single: is the slot's good form accepted on its own?
func single(ss []Slot, name string) bool {
	if v, ok := singleOK[name]; ok {
		return v
	}
	s := slotByName(ss, name)
	_, r := lib.Check(sc.Case{Root: gen.Obj(gen.P("a", s.Good.Clone())), Types: types}.Spec())
	singleOK[name] = r.OK
	return r.OK
}

func (p pairCase) eval(ss []Slot) (string, string) {
	cs, na, nb, ok := p.build(ss)
	if !ok {
		return "", ""
	}
	s, r := lib.Check(cs.Spec())
	if r.Panic != "" {
		return "panic", fmt.Sprintf("%s: Check panics: %s", cs.Describe(), r.Panic)
	}
	switch {
	case p.KA < 0 && p.KB < 0:
		if !r.OK {
			if single(ss, p.A) && single(ss, p.B) {
				return "pair-rejected", fmt.Sprintf("%s: Check accepts each of the two annotated values alone but rejects them as siblings: %s", cs.Describe(), r)
			}
			return "", ""
		}
		if ex, okx := gen.ExampleJSON(cs.Root); okx {
			if v := lib.Validate(s, ex); !v.OK {
				return "example-rejected", fmt.Sprintf("%s: Check succeeds but validating the example text %s fails: %s", cs.Describe(), ex, v)
			}
		}
	default:
		if !single(ss, p.A) || !single(ss, p.B) {
			return "", "" // the good form of one of them is rejected for a reason of its own
		}
		if r.OK {
			return "corruption-accepted", fmt.Sprintf("%s: one of the sibling examples violates its own rule but Check succeeds", cs.Describe())
		}
		if r2 := lib.Recheck(s); r2.OK {
			return "corruption-accepted-on-second-check", fmt.Sprintf("%s: the first Check fails (%s) but a second Check on the same schema object succeeds", cs.Describe(), r)
		}
		bad := na
		if p.KA < 0 {
			bad = nb
		}
		want := gen.Render(cs.Root, gen.Canonical).ValOff[bad]
		if !r.HasPos || int(r.Pos) != want {
			return "wrong-position", fmt.Sprintf("%s: Check fails (%s) but reports position %d; the offending value starts at byte %d", cs.Describe(), r, r.Pos, want)
		}
	}
	return "", ""
}

func pairs(c *ev.Ctx, ss []Slot) {
	n := 0
	for _, a := range ss {
		for _, b := range ss {
			for _, items := range []bool{false, true} {
				var cases []pairCase
				cases = append(cases, pairCase{a.Name, b.Name, -1, -1, items})
				for k := range b.Corrupt {
					cases = append(cases, pairCase{a.Name, b.Name, -1, k, items})
				}
				for k := range a.Corrupt {
					cases = append(cases, pairCase{a.Name, b.Name, k, -1, items})
				}
				for _, p := range cases {
					n++
					if !c.MineKey(fmt.Sprintf("pair%d", n)) || c.Expired() {
						continue
					}
					c.Eval(true)
					c.Inc("sibling_pairs")
					if dir, desc := p.eval(ss); dir != "" {
						c.Violate(fmt.Sprintf("pair;%s;%s;%s;%d;%d;%v", dir, p.A, p.B, p.KA, p.KB, p.AsItems), desc, p)
					}
				}
			}
		}
	}
}
