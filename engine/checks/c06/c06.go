// Package c06: lexical events faithfully describe the scanned text.
package c06

import (
	stdjson "encoding/json"
	"fmt"
	"io"
	"strings"
	"time"
	"verif/checks/rep"
	"verif/checks/streamx"

	"github.com/jsightapi/jsight-schema-go-library/formats/json"

	"verif/internal/ev"
	"verif/ref/jsonpda"
)

func init() {
	ev.Register(&ev.Check{
		ID:             "C06",
		Level:          "exploration",
		Rule:           "inputs: (i) every valid JSON text among ALL strings <= 5 (thorough 6) symbols over the 30-class alphabet; (ii) ALL JSON values with <= 4 (5) nodes over 10 scalar forms rendered with every placement of <= 2 (3) gaps from {space, tab, LF, CRLF} over all inter-token positions; (iii) all 2^8 object/array nestings of depth 8, flat containers of width 1..8, containers of n copies of each of 12 units (empty and one-item containers, scalars) for n in 1..10 and around every power of two up to 256, 300, 1000, numbers ending at end of input, every single-character escape and every \\uXXXX escape with each hex digit from {0,9,a,F} in strings and keys. Oracle on the public NextLexeme stream (of a fresh document, and of a document on which Len or Check ran before): properly nested, terminated by io.EOF, spans inside the input, literal/key spans == reference token spans, container spans bracket to bracket, value rebuilt from events alone == reference parse; cross-scanner: schema scanner and (arrays of scalars) enum scanner via verif hooks yield the same (type, begin, end) sequence modulo new-line events. (iv) pairs of small documents read in turns through NextLexeme: in ALL merges of the two call sequences each document delivers the events it delivers alone. States/transitions = distinct (event-type stack) configurations of the replayed event automaton and steps between them. Non-trivial = distinct valid text with >= 2 events.",
		Run:            run,
		Replay:         replay,
		QuickBudget:    150 * time.Second,
		ThoroughBudget: 12 * time.Minute,
		Assumptions: []string{
			"numerals with exponents are excluded from the cross-scanner relation (the schema language forbids them)",
			"the reference tokenizer/parser ref/jsonpda (cross-checked against encoding/json on every input)",
		},
	})
}

type Event struct {
	Type  string
	Begin int
	End   int
}

func jsonEvents(text string) (evs []Event, err error) { return jsonEventsAfter(text, 0) }

// jsonEventsAfter: the stream of a document on which Len (prior=1) or Check
// (prior=2) was called before - both rewind, the stream must be the same.
func jsonEventsAfter(text string, prior int) (evs []Event, err error) {
	defer func() {
		if r := recover(); r != nil {
			err = fmt.Errorf("PANIC: %v", r)
		}
	}()
	d := json.New("d", text)
	switch prior {
	case 1:
		_, _ = d.Len()
	case 2:
		_ = d.Check()
	}
	for i := 0; i < 10*len(text)+10; i++ {
		lex, e := d.NextLexeme()
		if e != nil {
			if e == io.EOF {
				return evs, nil
			}
			return evs, e
		}
		evs = append(evs, Event{lex.Type().String(), int(lex.Begin()), int(lex.End())})
	}
	return evs, fmt.Errorf("event stream does not terminate")
}

var closer = map[string]string{"literal-begin": "literal-end", "object-begin": "object-end", "key-begin": "key-end", "value-begin": "value-end", "array-begin": "array-end", "item-begin": "item-end"}

// checkStream validates the stream against the reference parse; returns "" or a description.
func checkStream(text string, evs []Event, visit func(state string)) string {
	src := []byte(text)
	ref, err := jsonpda.Parse(src)
	if err != nil {
		return ""
	}
	type frame struct {
		typ   string
		begin int
		node  *jsonpda.Val // reference node for literal/object/array frames
		idx   int          // child index for containers
		built string
		key   string
		parts []string
	}
	var stack []*frame
	var result string
	done := false
	expect := func(v *jsonpda.Val) *jsonpda.Val { return v }
	_ = expect
	// which reference node does the next value belong to?
	nextRef := func() *jsonpda.Val {
		// find nearest container frame
		for i := len(stack) - 1; i >= 0; i-- {
			f := stack[i]
			if f.typ == "object-begin" || f.typ == "array-begin" {
				if f.node == nil || f.idx >= len(f.node.Children) {
					return nil
				}
				return f.node.Children[f.idx]
			}
		}
		if done {
			return nil
		}
		return ref
	}
	stateKey := func() string {
		var b strings.Builder
		for _, f := range stack {
			b.WriteString(f.typ[:2])
		}
		return b.String()
	}
	for n, e := range evs {
		if e.Begin < 0 || e.End >= len(src) || e.Begin > e.End {
			return fmt.Sprintf("event %d %s[%d:%d] has a span outside the %d-byte input", n, e.Type, e.Begin, e.End, len(src))
		}
		if cl, ok := closer[e.Type]; ok {
			_ = cl
			f := &frame{typ: e.Type, begin: e.Begin}
			switch e.Type {
			case "literal-begin", "object-begin", "array-begin":
				f.node = nextRef()
				if f.node == nil {
					return fmt.Sprintf("event %d %s[%d:%d]: no value expected here", n, e.Type, e.Begin, e.End)
				}
				if f.node.Begin != e.Begin {
					return fmt.Sprintf("event %d %s begins at %d, the source token begins at %d", n, e.Type, e.Begin, f.node.Begin)
				}
			}
			if e.Begin != e.End {
				return fmt.Sprintf("event %d %s[%d:%d]: an opening event should point at one byte", n, e.Type, e.Begin, e.End)
			}
			stack = append(stack, f)
			visit(stateKey())
			continue
		}
		// closing
		if len(stack) == 0 {
			return fmt.Sprintf("event %d %s without an open partner", n, e.Type)
		}
		f := stack[len(stack)-1]
		if closer[f.typ] != e.Type {
			return fmt.Sprintf("event %d %s closes %s: not properly nested", n, e.Type, f.typ)
		}
		if e.Begin != f.begin {
			return fmt.Sprintf("event %d %s[%d:%d] does not start where its %s started (%d)", n, e.Type, e.Begin, e.End, f.typ, f.begin)
		}
		stack = stack[:len(stack)-1]
		var parent *frame
		if len(stack) > 0 {
			parent = stack[len(stack)-1]
		}
		switch e.Type {
		case "literal-end":
			if f.node.Kind == 'o' || f.node.Kind == 'a' || e.End != f.node.End {
				return fmt.Sprintf("event %d literal[%d:%d] %q is not the source token [%d:%d] %q", n, e.Begin, e.End, src[e.Begin:e.End+1], f.node.Begin, f.node.End, src[f.node.Begin:f.node.End+1])
			}
			f.built = string(src[e.Begin : e.End+1])
		case "object-end", "array-end":
			want := byte('o')
			if e.Type == "array-end" {
				want = 'a'
			}
			if f.node.Kind != want || e.End != f.node.End {
				return fmt.Sprintf("event %d %s[%d:%d] is not the container span [%d:%d]", n, e.Type, e.Begin, e.End, f.node.Begin, f.node.End)
			}
			if f.idx != len(f.node.Children) {
				return fmt.Sprintf("event %d %s after %d children, the source has %d", n, e.Type, f.idx, len(f.node.Children))
			}
			if want == 'o' {
				f.built = "{" + strings.Join(f.parts, ",") + "}"
			} else {
				f.built = "[" + strings.Join(f.parts, ",") + "]"
			}
		case "key-end":
			if parent == nil || parent.typ != "object-begin" || parent.node == nil || parent.idx >= len(parent.node.Keys) {
				return fmt.Sprintf("event %d key-end outside an object", n)
			}
			ks := parent.node.Keys[parent.idx]
			if e.Begin != ks.Begin || e.End != ks.End {
				return fmt.Sprintf("event %d key[%d:%d] %q is not the source key token [%d:%d]", n, e.Begin, e.End, src[e.Begin:e.End+1], ks.Begin, ks.End)
			}
			parent.key = string(src[e.Begin : e.End+1])
			visit(stateKey())
			continue
		case "value-end", "item-end":
			if parent == nil || f.built == "" {
				return fmt.Sprintf("event %d %s without a value", n, e.Type)
			}
			wantParent := "object-begin"
			if e.Type == "item-end" {
				wantParent = "array-begin"
			}
			if parent.typ != wantParent {
				return fmt.Sprintf("event %d %s inside %s", n, e.Type, parent.typ)
			}
			ch := parent.node.Children[parent.idx]
			if e.Begin != ch.Begin || e.End != ch.End {
				return fmt.Sprintf("event %d %s[%d:%d] is not the value span [%d:%d]", n, e.Type, e.Begin, e.End, ch.Begin, ch.End)
			}
			if e.Type == "value-end" {
				if parent.key == "" {
					return fmt.Sprintf("event %d value-end without a key", n)
				}
				parent.parts = append(parent.parts, parent.key+":"+f.built)
				parent.key = ""
			} else {
				parent.parts = append(parent.parts, f.built)
			}
			parent.idx++
			visit(stateKey())
			continue
		default:
			return fmt.Sprintf("event %d: unexpected type %s", n, e.Type)
		}
		// a value (literal/object/array) was completed: hand it to the wrapper frame or finish
		if parent == nil {
			result = f.built
			done = true
		} else if parent.typ == "value-begin" || parent.typ == "item-begin" {
			if parent.begin != f.begin {
				return fmt.Sprintf("event %d: %s starts at %d but its value at %d", n, parent.typ, parent.begin, f.begin)
			}
			parent.built = f.built
		} else {
			return fmt.Sprintf("event %d: value directly inside %s", n, parent.typ)
		}
		visit(stateKey())
	}
	if len(stack) != 0 {
		return fmt.Sprintf("stream ends with %d unclosed events (innermost %s)", len(stack), stack[len(stack)-1].typ)
	}
	if !done {
		return "stream ends without a complete value"
	}
	if want := ref.Canon(src); result != want {
		return fmt.Sprintf("value rebuilt from the events is %s, the text denotes %s", result, want)
	}
	return ""
}

type caseT struct {
	Text string `json:"text"`
	Kind string `json:"kind"` // "stream" | "cross-schema" | "cross-enum"
}

func evalText(c *ev.Ctx, text string) (string, string) {
	evs, err := jsonEvents(text)
	if err != nil {
		if !jsonpda.Valid([]byte(text)) {
			return "", ""
		}
		return "stream", fmt.Sprintf("NextLexeme fails on the valid JSON text %q: %v", text, firstLine(err.Error()))
	}
	visit := func(string) {}
	if c != nil {
		visit = func(s string) {
			if !seenStates[s] {
				seenStates[s] = true
				c.Inc("states")
			}
			c.Inc("transitions")
		}
	}
	if d := checkStream(text, evs, visit); d != "" {
		return "stream", fmt.Sprintf("JSON text %q: %s", text, d)
	}
	if d := crossCheck(text, evs); d != "" {
		return "cross", fmt.Sprintf("JSON text %q: %s", text, d)
	}
	for prior, what := range map[int]string{1: "Len()", 2: "Check()"} {
		evs2, err2 := jsonEventsAfter(text, prior)
		if err2 != nil || fmt.Sprint(evs2) != fmt.Sprint(evs) {
			return "after-" + what, fmt.Sprintf("JSON text %q: after %s on the same document NextLexeme delivers %d events (%v), a fresh document delivers %d", text, what, len(evs2), err2, len(evs))
		}
	}
	return "", ""
}

var seenStates = map[string]bool{}

func firstLine(s string) string {
	if i := strings.IndexByte(s, '\n'); i >= 0 {
		return s[:i]
	}
	return s
}

var longReductions int // per worker process

func evalAndReport(c *ev.Ctx, text string) {
	if !jsonpda.Valid([]byte(text)) {
		return
	}
	if stdjson.Valid([]byte(text)) != true && isASCII(text) {
		panic("HARNESS: reference PDA and encoding/json disagree on " + text)
	}
	dir, _ := evalText(c, text)
	c.Eval(len(text) > 1)
	if len(text) >= 8 {
		c.Sample(fmt.Sprintf("len%d", len(text)/8), text)
	}
	c.Inc("traces_validated_against_impl")
	if dir != "" && len(text) > 150 {
		if longReductions++; longReductions > 8 {
			// a defect that shows on long texts shows on hundreds of them: eight are reduced to their
			// cores, the others are reported as they are
			_, desc := evalText(nil, text)
			c.Violate(fmt.Sprintf("%s;unreduced;%d bytes;%.60q", dir, len(text), text), desc, caseT{text, dir})
			return
		}
	}
	if dir != "" {
		red := ev.Reduce(text, func(t string) []string {
			out := jsonpda.StructuralCands(t)
			if len(t) > 150 {
				return out // byte-level steps only once the structure is small
			}
			for i := 0; i < len(t); i++ {
				cand := t[:i] + t[i+1:]
				if jsonpda.Valid([]byte(cand)) {
					out = append(out, cand)
				}
			}
			for i := 0; i+1 < len(t); i++ {
				cand := t[:i] + t[i+2:]
				if jsonpda.Valid([]byte(cand)) {
					out = append(out, cand)
				}
			}
			return out
		}, func(t string) bool {
			d, _ := evalText(nil, t)
			return d == dir
		})
		_, desc := evalText(nil, red)
		c.Violate(fmt.Sprintf("%s;%q", dir, red), desc, caseT{red, dir})
	}
}

func isASCII(s string) bool {
	for i := 0; i < len(s); i++ {
		if s[i] >= 0x80 {
			return false
		}
	}
	return true
}

var alphabet = []string{" ", "\n", "{", "}", "[", "]", ":", ",", "\"", "\\", "/", "-", "+", ".", "0", "1", "e", "E", "t", "r", "u", "f", "a", "l", "s", "n", "b", "x", "\x01", "é"}

func run(c *ev.Ctx) {
	L := 5
	maxNodes, maxGaps := 4, 2
	if c.Thorough() {
		L = 6
		maxNodes, maxGaps = 5, 3
	}
	c.Bound("string_symbols", L)
	c.Bound("value_nodes", maxNodes)
	c.Bound("gaps", maxGaps)
	// the directed families first: they are cheap, and a deadline (thorough tier) must cut the tail of
	// the big enumerations, not them
	if c.Shard == 0 {
		families(c)
		utf8Family(c)
	}
	repetitions(c)
	// two documents read in turns: every merge of the two call sequences
	streamx.Run(c)
	// (ii) values x gaps
	values(c, maxNodes, maxGaps)
	// (i) all strings <= L that are live for the reference
	var rec func(w string, p *jsonpda.PDA, n int)
	rec = func(w string, p *jsonpda.PDA, n int) {
		if n > 0 && (n >= 2 || c.Shard == 0) && p.AcceptEOF() {
			evalAndReport(c, w)
		}
		if n == L || c.Expired() {
			return
		}
		for _, s := range alphabet {
			if n == 1 && !c.MineKey(w+s) {
				continue
			}
			q := p.Clone()
			for i := 0; i < len(s); i++ {
				q.Feed(s[i])
			}
			if q.Dead() {
				continue
			}
			rec(w+s, q, n+1)
		}
	}
	rec("", jsonpda.New(), 0)
}

var scalarForms = []string{"0", "-1.5", "1e2", `"a"`, `"é"`, `"\n\"\\"`, `""`, "true", "false", "null"}

// spelledForms: strings whose content spells another scalar of the alphabet
// (arrays mixing both are where a scanner that compares by text goes wrong).
var spelledForms = []string{`"0"`, `"true"`, `"null"`, `"-1.5"`}
var gapForms = []string{" ", "\t", "\n", "\r\n"}

// tokens of a value: list of token strings (structure + scalars)
func enumValues(n int, f func(tokens []string)) {
	if n == 1 {
		for _, s := range scalarForms {
			f([]string{s})
		}
		f([]string{"{", "}"})
		f([]string{"[", "]"})
		return
	}
	var arr func(rem int, cur []string, first bool)
	arr = func(rem int, cur []string, first bool) {
		if rem == 0 {
			f(append(append([]string{}, cur...), "]"))
			return
		}
		for s := 1; s <= rem; s++ {
			enumValues(s, func(t []string) {
				nc := append([]string{}, cur...)
				if !first {
					nc = append(nc, ",")
				}
				arr(rem-s, append(nc, t...), false)
			})
		}
	}
	arr(n-1, []string{"["}, true)
	keys := []string{`"k"`, `"l"`, `""`, `"m"`}
	var obj func(rem int, cur []string, k int)
	obj = func(rem int, cur []string, k int) {
		if rem == 0 {
			f(append(append([]string{}, cur...), "}"))
			return
		}
		if k >= len(keys) {
			return
		}
		for s := 1; s <= rem; s++ {
			enumValues(s, func(t []string) {
				nc := append([]string{}, cur...)
				if k > 0 {
					nc = append(nc, ",")
				}
				nc = append(nc, keys[k], ":")
				obj(rem-s, append(nc, t...), k+1)
			})
		}
	}
	obj(n-1, []string{"{"}, 0)
}

func values(c *ev.Ctx, maxNodes, maxGaps int) {
	for n := 1; n <= maxNodes; n++ {
		enumValues(n, func(tokens []string) {
			if !c.Mine() {
				return
			}
			if c.Expired() {
				return
			}
			// gap positions: before token 0 .. after last token
			npos := len(tokens) + 1
			var place func(start, left int, gaps map[int]string)
			place = func(start, left int, gaps map[int]string) {
				var b strings.Builder
				for i, t := range tokens {
					b.WriteString(gaps[i])
					b.WriteString(t)
				}
				b.WriteString(gaps[len(tokens)])
				evalAndReport(c, b.String())
				if left == 0 {
					return
				}
				for p := start; p < npos; p++ {
					for _, g := range gapForms {
						gaps[p] = g
						place(p+1, left-1, gaps)
						delete(gaps, p)
					}
				}
			}
			g := maxGaps
			if len(tokens) > 9 && g > 1 {
				g = 1
			}
			place(0, g, map[int]string{})
		})
	}
}

func families(c *ev.Ctx) {
	// all 2^8 nestings of depth 8 with one leaf
	for mask := 0; mask < 256; mask++ {
		for _, leaf := range []string{"1", `"s"`, "{}", "[]"} {
			open, close := "", ""
			for lvl := 0; lvl < 8; lvl++ {
				if mask&(1<<uint(lvl)) != 0 {
					open += `{"k":`
					close = "}" + close
				} else {
					open += "["
					close = "]" + close
				}
			}
			evalAndReport(c, open+leaf+close)
			evalAndReport(c, " "+open+" "+leaf+" "+close+"\n")
		}
	}
	for w := 1; w <= 8; w++ {
		var items, members []string
		for i := 0; i < w; i++ {
			items = append(items, scalarForms[i%len(scalarForms)])
			members = append(members, fmt.Sprintf(`"k%d":%s`, i, scalarForms[(i+3)%len(scalarForms)]))
		}
		evalAndReport(c, "["+strings.Join(items, ",")+"]")
		evalAndReport(c, "[ "+strings.Join(items, " , ")+" ]")
		evalAndReport(c, "{"+strings.Join(members, ",")+"}")
		evalAndReport(c, "{\n"+strings.Join(members, ",\n")+"\n}")
		evalAndReport(c, strings.Repeat("[", w)+strings.Repeat("]", w))
		evalAndReport(c, strings.Repeat(`{"a":`, w)+"{}"+strings.Repeat("}", w))
		evalAndReport(c, "["+strings.Repeat("[],", w)+"{}]")
	}
	// string escapes: every single-character escape and every \uXXXX with each
	// hex position drawn from {0, 9, a, F}, as value, element, key and member value
	var escs []string
	for _, e := range []string{`\"`, `\\`, `\/`, `\b`, `\f`, `\n`, `\r`, `\t`} {
		escs = append(escs, e)
	}
	hex := []string{"0", "9", "a", "F"}
	for _, h1 := range hex {
		for _, h2 := range hex {
			for _, h3 := range hex {
				for _, h4 := range hex {
					escs = append(escs, `\u`+h1+h2+h3+h4)
				}
			}
		}
	}
	for _, e := range escs {
		str := `"x` + e + `y"`
		evalAndReport(c, str)
		evalAndReport(c, "["+str+", "+`"`+e+`"`+"]")
		evalAndReport(c, "{"+str+":1}")
		evalAndReport(c, `{"k": `+str+` }`)
		c.Inc("escape_family_texts")
	}
	// arrays pairing every scalar with every string that spells a scalar, in both orders
	for _, a := range scalarForms {
		for _, b := range spelledForms {
			evalAndReport(c, "["+a+","+b+"]")
			evalAndReport(c, "[ "+b+" , "+a+" ]")
		}
	}
	for _, num := range []string{"0", "-0", "10", "1.5", "-1.5e-3", "1E+2", "0.0", "123456789012345678901234567890"} {
		evalAndReport(c, num)
		evalAndReport(c, " "+num)
		evalAndReport(c, num+"\n")
		evalAndReport(c, "["+num+"]")
		evalAndReport(c, `{"n":`+num+`}`)
	}
}

// utf8Family: raw multi-byte characters of every byte-class combination (and DEL) in values and keys.
func utf8Family(c *ev.Ctx) {
	for _, ch := range rep.UTF8Chars {
		for _, t := range rep.UTF8Texts(ch) {
			evalAndReport(c, t)
			c.Inc("utf8_family_texts")
		}
	}
}

// repetitions: n copies of one unit, n around every power of two up to 256 (sharded over the workers).
func repetitions(c *ev.Ctx) {
	for _, u := range rep.Units {
		for _, n := range rep.Counts {
			if !c.MineKey(fmt.Sprint("rep;", u, ";", n)) {
				continue
			}
			if c.Expired() {
				return
			}
			for _, t := range rep.Texts(u, n) {
				evalAndReport(c, t)
				c.Inc("repetition_family_texts")
			}
		}
	}
}

func replay(raw stdjson.RawMessage) (bool, string) {
	var sx streamx.Case
	if err := stdjson.Unmarshal(raw, &sx); err == nil && sx.Kind == "streams" {
		d := streamx.RunMerge(sx)
		return d != "", d
	}
	var cs caseT
	if err := stdjson.Unmarshal(raw, &cs); err != nil {
		return false, err.Error()
	}
	d, desc := evalText(nil, cs.Text)
	return d != "", desc
}
