//go:build verif

package c06

import (
	"fmt"
	"strings"

	"github.com/jsightapi/jsight-schema-go-library/notations/jschema/verifhooks"
	"github.com/jsightapi/jsight-schema-go-library/rules/enum"

	"verif/ref/jsonpda"
)

func same(name string, a []Event, typ []string, beg, end []uint, shift int) string {
	var b []Event
	for i := range typ {
		if typ[i] == "new-line" {
			continue
		}
		b = append(b, Event{typ[i], int(beg[i]) - shift, int(end[i]) - shift})
	}
	if len(a) != len(b) {
		return fmt.Sprintf("%s scanner yields %d events, the JSON scanner %d", name, len(b), len(a))
	}
	for i := range a {
		if a[i] != b[i] {
			return fmt.Sprintf("event %d: JSON scanner %s[%d:%d], %s scanner %s[%d:%d]", i, a[i].Type, a[i].Begin, a[i].End, name, b[i].Type, b[i].Begin, b[i].End)
		}
	}
	return ""
}

// crossCheck compares the schema and enum scanners with the JSON scanner on the
// plain-JSON part of their input.
func crossCheck(text string, evs []Event) string {
	if strings.ContainsAny(numbersOf(text), "eE") {
		return "" // the schema language forbids exponents
	}
	embeds := []struct{ pre, post string }{{"", ""}, {"", "\n"}, {"", " // note"}, {"\n ", ""}}
	pv, perr := jsonpda.Parse([]byte(text))
	for _, em := range embeds {
		if strings.Contains(em.post, "//") && (perr != nil || len(pv.Children) > 0 || strings.ContainsAny(text, " \t\r\n")) {
			continue // an annotation is only legal on a line with a single annotatable node
		}
		in := em.pre + text + em.post
		sv, err := verifhooks.ScanSchema([]byte(in))
		if err != nil {
			return fmt.Sprintf("schema scanner fails on %q: %v", in, firstLine(err.Error()))
		}
		var typ []string
		var beg, end []uint
		for _, e := range sv {
			if strings.Contains(e.Type, "annotation") {
				continue
			}
			typ, beg, end = append(typ, e.Type), append(beg, e.Begin), append(end, e.End)
		}
		if d := same("schema", evs, typ, beg, end, len(em.pre)); d != "" {
			return fmt.Sprintf("embedded as %q: %s", in, d)
		}
	}
	// enum scanner: arrays of scalars only
	v, err := jsonpda.Parse([]byte(text))
	if err != nil || v.Kind != 'a' {
		return ""
	}
	seen := map[string]bool{}
	for _, ch := range v.Children {
		if ch.Kind == 'o' || ch.Kind == 'a' {
			return ""
		}
		lit := text[ch.Begin : ch.End+1]
		if seen[lit] {
			return "" // duplicates are an enum error by design
		}
		seen[lit] = true
	}
	for _, em := range embeds[:3] {
		if strings.Contains(em.post, "//") && strings.ContainsAny(text, " \t\r\n") {
			continue
		}
		in := text + em.post
		evn, err := enum.VerifScan([]byte(in))
		if err != nil {
			return fmt.Sprintf("enum scanner fails on %q: %v", in, firstLine(err.Error()))
		}
		var typ []string
		var beg, end []uint
		for _, e := range evn {
			if strings.Contains(e.Type, "annotation") {
				continue
			}
			typ, beg, end = append(typ, e.Type), append(beg, e.Begin), append(end, e.End)
		}
		if d := same("enum", evs, typ, beg, end, 0); d != "" {
			return fmt.Sprintf("enum text %q: %s", in, d)
		}
	}
	return ""
}

// numbersOf returns the concatenation of all number tokens of a valid text.
func numbersOf(text string) string {
	v, err := jsonpda.Parse([]byte(text))
	if err != nil {
		return ""
	}
	var b strings.Builder
	var walk func(x *jsonpda.Val)
	walk = func(x *jsonpda.Val) {
		if x.Kind == 'n' {
			b.WriteString(text[x.Begin : x.End+1])
		}
		for _, ch := range x.Children {
			walk(ch)
		}
	}
	walk(v)
	return b.String()
}
