//go:build !verif

package c06

func crossCheck(text string, evs []Event) string { return "" }
