// Package sc ("schema case") is shared by the schema-level checks: a case is
// an abstract schema with its type environment, a configuration and a
// document; it can be rendered, evaluated against library and reference, and
// simplified step by step for counterexample reduction.
package sc

import (
	"fmt"
	"sort"
	"strings"

	"verif/gen"
	"verif/internal/lib"
	"verif/ref/refv"
)

type TypeDecl struct {
	Name string    `json:"name"`
	Body *gen.Node `json:"body,omitempty"`
	// Enum literals (for enum rules) or regex source (for regex types)
	Enum  []string `json:"enum,omitempty"`
	Regex string   `json:"regex,omitempty"`
}

type Case struct {
	Root  *gen.Node  `json:"root"`
	Types []TypeDecl `json:"types,omitempty"`
	Opt   bool       `json:"optional_by_default,omitempty"`
	Mesh  bool       `json:"mesh,omitempty"`
	Doc   *gen.JV    `json:"doc,omitempty"`
}

func (c Case) Clone() Case {
	n := Case{Root: c.Root.Clone(), Opt: c.Opt, Mesh: c.Mesh, Doc: c.Doc}
	for _, t := range c.Types {
		n.Types = append(n.Types, TypeDecl{t.Name, t.Body.Clone(), t.Enum, t.Regex})
	}
	return n
}

// Spec renders the case (canonical spelling).
func (c Case) Spec() lib.SchemaSpec {
	return c.SpecWith(gen.Canonical)
}

func (c Case) SpecWith(sp gen.Spelling) lib.SchemaSpec {
	s := lib.SchemaSpec{Text: gen.Render(c.Root, sp).Text, OptionalDef: c.Opt, Mesh: c.Mesh}
	for _, t := range c.Types {
		switch {
		case t.Body != nil:
			s.Types = append(s.Types, lib.TypeDef{Name: t.Name, Text: gen.Render(t.Body, sp).Text})
		case t.Regex != "":
			s.Types = append(s.Types, lib.TypeDef{Name: t.Name, Text: t.Regex, Kind: "regex"})
		default:
			s.Types = append(s.Types, lib.TypeDef{Name: t.Name, Text: "[" + strings.Join(t.Enum, ", ") + "]", Kind: "enum"})
		}
	}
	return s
}

func (c Case) Env() *refv.Env {
	e := &refv.Env{Types: map[string]*gen.Node{}, Enums: map[string][]string{}, OptionalByDefault: c.Opt}
	for _, t := range c.Types {
		if t.Body != nil {
			e.Types[t.Name] = t.Body
		} else if t.Regex == "" {
			e.Enums[t.Name] = t.Enum
		}
	}
	return e
}

// Describe is the human-readable form (also the canonical identity).
func (c Case) Describe() string {
	var b strings.Builder
	sp := c.Spec()
	fmt.Fprintf(&b, "schema %q", sp.Text)
	for _, t := range sp.Types {
		fmt.Fprintf(&b, " %s%s=%q", t.Kind, t.Name, t.Text)
	}
	if c.Opt {
		b.WriteString(" [KeysAreOptionalByDefault]")
	}
	if c.Mesh {
		b.WriteString(" [every type also added to every type]")
	}
	if c.Doc != nil {
		fmt.Fprintf(&b, " document %s", c.Doc.Compact())
	}
	return b.String()
}

// Outcome of evaluating a validation case.
type Outcome struct {
	Check lib.Res
	Val   lib.Res
	Ref   refv.Verdict
}

// Direction classifies a disagreement ("" = none).
func (o Outcome) Direction() string {
	if !o.Check.OK {
		return ""
	}
	if o.Val.Panic != "" {
		return "panic"
	}
	switch o.Ref {
	case refv.Accept:
		if !o.Val.OK {
			return "lib=reject,ref=accept"
		}
	case refv.Reject:
		if o.Val.OK {
			return "lib=accept,ref=reject"
		}
	}
	return ""
}

// Eval builds the schema, checks it, validates the document and asks the reference.
func Eval(c Case) Outcome {
	s, r := lib.Check(c.Spec())
	o := Outcome{Check: r}
	if !r.OK {
		return o
	}
	o.Val = lib.Validate(s, c.Doc.Compact())
	o.Ref = refv.Accepts(c.Env(), c.Root, c.Doc)
	return o
}

// ---- simplification candidates -----------------------------------------------

// docCands lists one-step simplifications of a document.
func docCands(d *gen.JV) []*gen.JV {
	var out []*gen.JV
	simple := []*gen.JV{gen.JInt("1"), gen.JStr(`"s"`), gen.JNull()}
	if d.Kind == gen.KObj || d.Kind == gen.KArr {
		if len(d.Mem)+len(d.Arr) > 0 {
			for _, s := range simple {
				out = append(out, s)
			}
		}
	}
	for i := range d.Mem {
		nm := append(append([]gen.Member{}, d.Mem[:i]...), d.Mem[i+1:]...)
		out = append(out, gen.JObj(nm...))
	}
	for i := range d.Arr {
		na := append(append([]*gen.JV{}, d.Arr[:i]...), d.Arr[i+1:]...)
		out = append(out, gen.JArr(na...))
	}
	for i, m := range d.Mem {
		for _, sub := range docCands(m.Val) {
			nm := append([]gen.Member{}, d.Mem...)
			nm[i] = gen.Member{Key: m.Key, Val: sub}
			out = append(out, gen.JObj(nm...))
		}
	}
	for i, a := range d.Arr {
		for _, sub := range docCands(a) {
			na := append([]*gen.JV{}, d.Arr...)
			na[i] = sub
			out = append(out, gen.JArr(na...))
		}
	}
	return out
}

// nodeCands lists one-step simplifications of a schema node.
func nodeCands(n *gen.Node) []*gen.Node {
	var out []*gen.Node
	if n.Kind == gen.KObj || n.Kind == gen.KArr || n.Kind == gen.KRef {
		if len(n.Props)+len(n.Items) > 0 || n.Kind == gen.KRef {
			out = append(out, gen.Int("1"))
		}
	}
	// drop a rule
	for i := range n.Rules {
		c := n.Clone()
		c.Rules = append(c.Rules[:i:i], c.Rules[i+1:]...)
		out = append(out, c)
	}
	// shorten list rules
	for i, r := range n.Rules {
		if r.List && len(r.Items) > 1 {
			for j := range r.Items {
				c := n.Clone()
				c.Rules[i].Items = append(c.Rules[i].Items[:j:j], c.Rules[i].Items[j+1:]...)
				out = append(out, c)
			}
		}
	}
	if n.Note != "" {
		c := n.Clone()
		c.Note = ""
		out = append(out, c)
	}
	for i := range n.Props {
		c := n.Clone()
		c.Props = append(c.Props[:i:i], c.Props[i+1:]...)
		out = append(out, c)
	}
	for i := range n.Items {
		c := n.Clone()
		c.Items = append(c.Items[:i:i], c.Items[i+1:]...)
		out = append(out, c)
	}
	for i, p := range n.Props {
		for _, sub := range nodeCands(p.Val) {
			c := n.Clone()
			c.Props[i].Val = sub
			out = append(out, c)
		}
	}
	for i, it := range n.Items {
		for _, sub := range nodeCands(it) {
			c := n.Clone()
			c.Items[i] = sub
			out = append(out, c)
		}
	}
	return out
}

// Cands lists one-step simplifications of a case.
func Cands(c Case) []Case {
	var out []Case
	if c.Opt {
		n := c.Clone()
		n.Opt = false
		out = append(out, n)
	}
	for i := range c.Types {
		n := c.Clone()
		n.Types = append(n.Types[:i:i], n.Types[i+1:]...)
		out = append(out, n)
	}
	// hoist: replace schema and document by a corresponding child pair
	if c.Doc != nil {
		if c.Root.Kind == gen.KObj && c.Doc.Kind == gen.KObj {
			for _, p := range c.Root.Props {
				if p.Shortcut {
					continue
				}
				for _, m := range c.Doc.Mem {
					if m.Key == p.Key {
						n := c.Clone()
						n.Root = p.Val.Clone()
						var rs []gen.Rule
						for _, r := range n.Root.Rules {
							if r.Name != "optional" {
								rs = append(rs, r)
							}
						}
						n.Root.Rules = rs
						n.Doc = m.Val
						out = append(out, n)
					}
				}
			}
		}
		if c.Root.Kind == gen.KArr && c.Doc.Kind == gen.KArr && len(c.Root.Items) > 0 {
			for i, e := range c.Doc.Arr {
				j := i
				if j >= len(c.Root.Items) {
					j = len(c.Root.Items) - 1
				}
				n := c.Clone()
				n.Root = c.Root.Items[j].Clone()
				n.Doc = e
				out = append(out, n)
			}
		}
		// drop the same key from schema and document
		if c.Root.Kind == gen.KObj && c.Doc.Kind == gen.KObj {
			for i, p := range c.Root.Props {
				for j, m := range c.Doc.Mem {
					if m.Key == p.Key {
						n := c.Clone()
						n.Root.Props = append(n.Root.Props[:i:i], n.Root.Props[i+1:]...)
						n.Doc = gen.JObj(append(append([]gen.Member{}, c.Doc.Mem[:j]...), c.Doc.Mem[j+1:]...)...)
						out = append(out, n)
					}
				}
			}
		}
	}
	if c.Doc != nil {
		for _, d := range docCands(c.Doc) {
			n := c.Clone()
			n.Doc = d
			out = append(out, n)
		}
	}
	for _, r := range nodeCands(c.Root) {
		n := c.Clone()
		n.Root = r
		out = append(out, n)
	}
	for i, t := range c.Types {
		if t.Body == nil {
			if len(t.Enum) > 1 {
				for j := range t.Enum {
					n := c.Clone()
					n.Types[i].Enum = append(append([]string{}, t.Enum[:j]...), t.Enum[j+1:]...)
					out = append(out, n)
				}
			}
			continue
		}
		for _, r := range nodeCands(t.Body) {
			n := c.Clone()
			n.Types[i].Body = r
			out = append(out, n)
		}
	}
	return out
}

// SortTypes orders the declarations by name (canonical identity).
func (c *Case) SortTypes() {
	sort.SliceStable(c.Types, func(i, j int) bool { return c.Types[i].Name < c.Types[j].Name })
}

// FixKinds restores JV kinds after JSON decoding (Kind is not serialised).
func FixKinds(d *gen.JV) {
	if d == nil {
		return
	}
	switch {
	case d.Lit == "" && d.Arr != nil:
		d.Kind = gen.KArr
	case d.Lit == "":
		d.Kind = gen.KObj
	case strings.HasPrefix(d.Lit, `"`):
		d.Kind = gen.KStr
	case d.Lit == "true" || d.Lit == "false":
		d.Kind = gen.KBool
	case d.Lit == "null":
		d.Kind = gen.KNull
	case strings.ContainsAny(d.Lit, ".eE"):
		d.Kind = gen.KFloat
	default:
		d.Kind = gen.KInt
	}
	for _, m := range d.Mem {
		FixKinds(m.Val)
	}
	for _, a := range d.Arr {
		FixKinds(a)
	}
}

// ---- type-graph aware simplification -----------------------------------------------------

func renameIn(s, from, to string) string {
	var b strings.Builder
	for i := 0; i < len(s); {
		if strings.HasPrefix(s[i:], from) {
			j := i + len(from)
			if j == len(s) || !(s[j] >= 'a' && s[j] <= 'z' || s[j] >= 'A' && s[j] <= 'Z' || s[j] >= '0' && s[j] <= '9' || s[j] == '_' || s[j] == '-') {
				b.WriteString(to)
				i = j
				continue
			}
		}
		b.WriteByte(s[i])
		i++
	}
	return b.String()
}

// Redirect replaces references to type `from` by `to` everywhere in the node.
func Redirect(n *gen.Node, from, to string) (*gen.Node, bool) {
	c := n.Clone()
	changed := false
	c.Walk(func(x *gen.Node) {
		if x.Kind == gen.KRef {
			if nl := renameIn(x.Lit, from, to); nl != x.Lit {
				x.Lit = nl
				changed = true
			}
		}
		for i := range x.Rules {
			if nv := renameIn(x.Rules[i].Val, from, to); nv != x.Rules[i].Val {
				x.Rules[i].Val = nv
				changed = true
			}
			for j := range x.Rules[i].Items {
				if nv := renameIn(x.Rules[i].Items[j].Lit, from, to); nv != x.Rules[i].Items[j].Lit {
					x.Rules[i].Items[j].Lit = nv
					changed = true
				}
			}
		}
		for i := range x.Props {
			if x.Props[i].Shortcut {
				if nk := renameIn(x.Props[i].Key, from, to); nk != x.Props[i].Key {
					x.Props[i].Key = nk
					changed = true
				}
			}
		}
	})
	return c, changed
}

func refsOf(n *gen.Node) map[string]bool {
	out := map[string]bool{}
	text := gen.Render(n, gen.Canonical).Text
	for i := 0; i < len(text); i++ {
		if text[i] == '@' {
			j := i + 1
			for j < len(text) && (text[j] >= 'a' && text[j] <= 'z' || text[j] >= 'A' && text[j] <= 'Z' || text[j] >= '0' && text[j] <= '9' || text[j] == '_' || text[j] == '-') {
				j++
			}
			out[text[i:j]] = true
			i = j
		}
	}
	return out
}

// GraphCands: Cands plus simplifications of the type environment as a graph.
func GraphCands(c Case) []Case {
	out := Cands(c)
	// root := @T
	for _, t := range c.Types {
		if t.Body == nil {
			continue
		}
		if !(c.Root.Kind == gen.KRef && c.Root.Lit == t.Name && len(c.Root.Rules) == 0) {
			n := c.Clone()
			n.Root = gen.Ref(t.Name)
			out = append(out, n)
		}
	}
	// replace a body by a scalar
	for i, t := range c.Types {
		if t.Body != nil && (t.Body.Kind != gen.KInt || len(t.Body.Rules) > 0) {
			n := c.Clone()
			n.Types[i].Body = gen.Int("1")
			out = append(out, n)
		}
	}
	// redirect references to another type
	for i, t := range c.Types {
		if t.Body == nil {
			continue
		}
		for _, a := range c.Types {
			for _, b := range c.Types {
				if a.Name == b.Name || a.Body == nil || b.Body == nil {
					continue
				}
				if nb, ch := Redirect(t.Body, a.Name, b.Name); ch {
					n := c.Clone()
					n.Types[i].Body = nb
					out = append(out, n)
				}
			}
		}
	}
	for _, a := range c.Types {
		for _, b := range c.Types {
			if a.Name == b.Name || a.Body == nil || b.Body == nil {
				continue
			}
			if nr, ch := Redirect(c.Root, a.Name, b.Name); ch {
				n := c.Clone()
				n.Root = nr
				out = append(out, n)
			}
		}
	}
	return out
}

// Canonical drops unreferenced types and renames the others in order of first
// reference from the root (@n0, @n1, ...).
func Canonical(c Case) Case {
	byName := map[string]*TypeDecl{}
	for i := range c.Types {
		byName[c.Types[i].Name] = &c.Types[i]
	}
	var order []string
	seen := map[string]bool{}
	var visit func(n *gen.Node)
	visit = func(n *gen.Node) {
		text := gen.Render(n, gen.Canonical).Text
		for i := 0; i < len(text); i++ {
			if text[i] != '@' {
				continue
			}
			j := i + 1
			for j < len(text) && (text[j] >= 'a' && text[j] <= 'z' || text[j] >= 'A' && text[j] <= 'Z' || text[j] >= '0' && text[j] <= '9' || text[j] == '_' || text[j] == '-') {
				j++
			}
			name := text[i:j]
			i = j
			if seen[name] {
				continue
			}
			seen[name] = true
			order = append(order, name)
			if t, ok := byName[name]; ok && t.Body != nil {
				visit(t.Body)
			}
		}
	}
	visit(c.Root)
	out := Case{Root: c.Root, Opt: c.Opt, Mesh: c.Mesh, Doc: c.Doc}
	ren := func(n *gen.Node) *gen.Node {
		x := n
		for i, o := range order {
			x, _ = Redirect(x, o, fmt.Sprintf("@zzq%d", i))
		}
		for i := range order {
			x, _ = Redirect(x, fmt.Sprintf("@zzq%d", i), fmt.Sprintf("@n%d", i))
		}
		return x
	}
	out.Root = ren(c.Root)
	for i, o := range order {
		t, ok := byName[o]
		if !ok {
			continue
		}
		nt := TypeDecl{Name: fmt.Sprintf("@n%d", i), Enum: t.Enum, Regex: t.Regex}
		if t.Body != nil {
			nt.Body = ren(t.Body)
		}
		out.Types = append(out.Types, nt)
	}
	return out
}
