package c17

import (
	"fmt"
	"strings"

	"verif/internal/ev"
	"verif/internal/lib"
)

// Family (f): Check-time errors about a KEY. An object of 1..3 members in which
// exactly one key is a shortcut that cannot be a key - its type is not a string
// (integer, array, object, boolean) or was never added - at every member
// position, next to ordinary keys and to a valid shortcut, at the root, inside a
// property and inside an array, with LF and CRLF line ends: the error Check
// reports has to point at the first byte of that key.
var keyposTypes = []lib.TypeDef{
	{Name: "@num", Text: "12"},
	{Name: "@arr", Text: "[1]"},
	{Name: "@obj", Text: "{}"},
	{Name: "@bool", Text: "true"},
	{Name: "@str", Text: `"k" // {minLength: 1}`},
}

func keyposCheck(text string, want int) string {
	_, r := lib.Check(lib.SchemaSpec{Text: text, Types: keyposTypes})
	if r.OK {
		return fmt.Sprintf("schema %q: Check accepts a key shortcut that cannot be a key", text)
	}
	if r.Panic != "" {
		return "" // C07's business
	}
	if r.File != "" && r.File != "schema" && r.File != "root" && !strings.HasPrefix(r.File, "s") {
		// the error names another file (the type's own text): its position is not one of this text
		return ""
	}
	if !r.HasPos || int(r.Pos) != want {
		return fmt.Sprintf("schema %q: the offending key starts at offset %d, the error reports %d (%s)", text, want, r.Pos, r.Msg)
	}
	return ""
}

func keyPositions(c *ev.Ctx) {
	bad := []string{"@num", "@arr", "@obj", "@bool", "@nope"}
	fillers := [][2]string{{`"a"`, "1"}, {`"z"`, `"s"`}, {"@str", "2"}}
	for _, b := range bad {
		for n := 1; n <= 3; n++ {
			for at := 0; at < n; at++ {
				for rot := 0; rot < len(fillers); rot++ {
					for _, eol := range []string{"\n", "\r\n"} {
						for ctx := 0; ctx < 3; ctx++ {
							if !c.Mine() {
								continue
							}
							var sb strings.Builder
							ind := "  "
							switch ctx {
							case 1:
								sb.WriteString("{" + eol + "  \"n\": ")
								ind = "    "
							case 2:
								sb.WriteString("[" + eol + "  ")
								ind = "    "
							}
							sb.WriteString("{" + eol)
							want := -1
							f := rot
							for i := 0; i < n; i++ {
								sb.WriteString(ind)
								if i == at {
									want = sb.Len()
									sb.WriteString(b + " : 1")
								} else {
									k := fillers[f%len(fillers)]
									f++
									sb.WriteString(k[0] + ": " + k[1])
								}
								if i+1 < n {
									sb.WriteString(",")
								}
								sb.WriteString(eol)
							}
							sb.WriteString(ind[2:] + "}")
							switch ctx {
							case 1:
								sb.WriteString(eol + "}")
							case 2:
								sb.WriteString(eol + "]")
							}
							text := sb.String()
							c.Eval(true)
							c.Inc("keypos_cases")
							if d := keyposCheck(text, want); d != "" {
								c.Violate(fmt.Sprintf("keypos;%q", text), d, caseT{"keypos", text, want})
							}
						}
					}
				}
			}
		}
	}
}
