package c17

import (
	"fmt"
	"strings"

	"github.com/jsightapi/jsight-schema-go-library/notations/jschema"

	"verif/checks/c01"
	"verif/checks/sc"
	"verif/gen"
	"verif/internal/ev"
	"verif/internal/lib"
	"verif/ref/refv"
)

// (c) validation positions: documents that differ from an accepted document by
// ONE planted violation - a value of another JSON kind, an unknown key, a scalar
// breaking one rule - at every position of the document. The statement fixes
// where the error must point: the start of the offending value, or of the
// offending key.

type docOffsets struct {
	val map[*gen.JV]int // start of each value
	key map[*gen.JV]int // start of the key of a member value
}

func renderDoc(v *gen.JV, pretty bool) (string, *docOffsets) {
	o := &docOffsets{val: map[*gen.JV]int{}, key: map[*gen.JV]int{}}
	var b strings.Builder
	var w func(v *gen.JV, depth int)
	nl := func(depth int) {
		if pretty {
			b.WriteString("\n" + strings.Repeat("  ", depth))
		}
	}
	w = func(v *gen.JV, depth int) {
		o.val[v] = b.Len()
		switch v.Kind {
		case gen.KObj:
			b.WriteString("{")
			for i, m := range v.Mem {
				if i > 0 {
					b.WriteString(",")
				}
				nl(depth + 1)
				o.key[m.Val] = b.Len()
				b.WriteString(gen.QuoteJSON(m.Key) + ":")
				if pretty {
					b.WriteString(" ")
				}
				w(m.Val, depth+1)
			}
			if len(v.Mem) > 0 {
				nl(depth)
			}
			b.WriteString("}")
		case gen.KArr:
			b.WriteString("[")
			for i, a := range v.Arr {
				if i > 0 {
					b.WriteString(",")
				}
				nl(depth + 1)
				w(a, depth+1)
			}
			if len(v.Arr) > 0 {
				nl(depth)
			}
			b.WriteString("]")
		default:
			b.WriteString(v.Lit)
		}
	}
	w(v, 0)
	return b.String(), o
}

// substitute clones d replacing the node target by repl; returns the clone and
// the replacement's node in it.
func substitute(d, target, repl *gen.JV) (*gen.JV, *gen.JV) {
	var planted *gen.JV
	var cp func(v *gen.JV) *gen.JV
	cp = func(v *gen.JV) *gen.JV {
		if v == target {
			planted = &gen.JV{Kind: repl.Kind, Lit: repl.Lit, Mem: repl.Mem, Arr: repl.Arr}
			return planted
		}
		n := &gen.JV{Kind: v.Kind, Lit: v.Lit}
		for _, m := range v.Mem {
			n.Mem = append(n.Mem, gen.Member{Key: m.Key, Val: cp(m.Val)})
		}
		for _, a := range v.Arr {
			n.Arr = append(n.Arr, cp(a))
		}
		return n
	}
	return cp(d), planted
}

// addKey clones d adding member key:1 to the object target (first or last).
func addKey(d, target *gen.JV, key string, first bool) (*gen.JV, *gen.JV) {
	var planted *gen.JV
	var cp func(v *gen.JV) *gen.JV
	cp = func(v *gen.JV) *gen.JV {
		n := &gen.JV{Kind: v.Kind, Lit: v.Lit}
		for _, m := range v.Mem {
			n.Mem = append(n.Mem, gen.Member{Key: m.Key, Val: cp(m.Val)})
		}
		for _, a := range v.Arr {
			n.Arr = append(n.Arr, cp(a))
		}
		if v == target {
			planted = gen.JInt("1")
			if first {
				n.Mem = append([]gen.Member{{Key: key, Val: planted}}, n.Mem...)
			} else {
				n.Mem = append(n.Mem, gen.Member{Key: key, Val: planted})
			}
		}
		return n
	}
	return cp(d), planted
}

func walkDoc(d *gen.JV, f func(*gen.JV)) {
	f(d)
	for _, m := range d.Mem {
		walkDoc(m.Val, f)
	}
	for _, a := range d.Arr {
		walkDoc(a, f)
	}
}

type valCase struct {
	Case    sc.Case `json:"case"`
	Doc     string  `json:"document"`
	Want    int     `json:"want_position"`
	Planted string  `json:"planted"`
}

// checkPlanted validates text; returns "" or a description of a wrong position.
func checkPlanted(c *ev.Ctx, cs sc.Case, s *jschema.Schema, text string, want int, what string) string {
	r := lib.Validate(s, text)
	if r.OK || r.Panic != "" {
		if c != nil {
			c.Inc("planted_not_rejected") // the verdict is C01/C02's business
		}
		return ""
	}
	if !r.HasPos {
		if c != nil {
			c.Inc("planted_error_without_position")
		}
		return ""
	}
	if c != nil {
		c.Inc("planted_positions_compared")
	}
	if int(r.Pos) != want {
		return fmt.Sprintf("%s, document %q with %s: the validation error (code %d %q) reports position %d, the offending value/key starts at %d", cs.Describe(), text, what, r.Code, r.Msg, r.Pos, want)
	}
	return ""
}

var kindRepl = []*gen.JV{gen.JInt("1"), gen.JFloat("1.5"), gen.JStr(`"s"`), gen.JBool("true"), gen.JNull(), gen.JObj(), gen.JArr()}

func plantedKinds(c *ev.Ctx, cs sc.Case) {
	s, r := lib.Check(cs.Spec())
	if !r.OK {
		return
	}
	env := cs.Env()
	ex := c01.ExampleDoc(cs.Root)
	var nodes []*gen.JV
	walkDoc(ex, func(v *gen.JV) { nodes = append(nodes, v) })
	report := func(d *gen.JV, planted *gen.JV, isKey bool, what string) {
		if refv.Accepts(env, cs.Root, d) != refv.Reject {
			return // not a violation (any, nullable, integer for float) or not decided
		}
		for _, pretty := range []bool{false, true} {
			text, off := renderDoc(d, pretty)
			want := off.val[planted]
			if isKey {
				want = off.key[planted]
			}
			c.Eval(true)
			if desc := checkPlanted(c, cs, s, text, want, what); desc != "" {
				c.Violate(fmt.Sprintf("validation-position;%s;%s;%q", what, cs.Describe(), text), desc, valCase{cs, text, want, what})
			}
		}
	}
	for _, target := range nodes {
		for _, rep := range kindRepl {
			if rep.Kind == target.Kind {
				continue
			}
			d, planted := substitute(ex, target, rep)
			report(d, planted, false, "a value of another kind")
		}
		if target.Kind == gen.KObj {
			for _, first := range []bool{true, false} {
				d, planted := addKey(ex, target, "zz", first)
				report(d, planted, true, "an unknown key")
			}
		}
	}
}

// ruleBreakers: (schema scalar, a document scalar of the same kind breaking exactly one rule).
var ruleBreakers = []struct {
	node *gen.Node
	bad  *gen.JV
}{
	{gen.Int("1").With(gen.R("min", "0")), gen.JInt("-1")},
	{gen.Int("1").With(gen.R("max", "5")), gen.JInt("6")},
	{gen.Int("1").With(gen.R("min", "0"), gen.R("exclusiveMinimum", "true")), gen.JInt("0")},
	{gen.Float("1.5").With(gen.R("max", "2")), gen.JFloat("2.5")},
	{gen.Float("1.5").With(gen.R("type", `"decimal"`), gen.R("precision", "1")), gen.JFloat("1.55")},
	{gen.Str(`"abc"`).With(gen.R("maxLength", "3")), gen.JStr(`"abcd"`)},
	{gen.Str(`"abc"`).With(gen.R("minLength", "2")), gen.JStr(`"a"`)},
	{gen.Str(`"abc"`).With(gen.R("regex", `"^a"`)), gen.JStr(`"b"`)},
	{gen.Str(`"abc"`).With(gen.R("const", "true")), gen.JStr(`"abd"`)},
	{gen.Int("1").With(gen.RL("enum", gen.RuleItem{Lit: "1"}, gen.RuleItem{Lit: "2"})), gen.JInt("3")},
	{gen.Str(`"2020-01-31"`).With(gen.R("type", `"date"`)), gen.JStr(`"2020-02-31"`)},
	{gen.Int("1").With(gen.RL("or", gen.RuleItem{Set: []gen.Rule{gen.R("type", `"integer"`)}}, gen.RuleItem{Set: []gen.Rule{gen.R("type", `"string"`)}})), gen.JBool("true")},
	{gen.Ref("@T"), gen.JStr(`"s"`)},
	{gen.Ref("@T", "@U"), gen.JBool("true")},
}

func plantedRules(c *ev.Ctx) {
	types := []sc.TypeDecl{{Name: "@T", Body: gen.Int("1")}, {Name: "@U", Body: gen.Str(`"u"`)}}
	good := func(n *gen.Node) *gen.JV {
		if n.Kind == gen.KRef {
			return gen.JInt("1")
		}
		return &gen.JV{Kind: n.Kind, Lit: n.Lit}
	}
	for bi, rb := range ruleBreakers {
		g := good(rb.node)
		type ctxT struct {
			root *gen.Node
			doc  func(v *gen.JV) *gen.JV
		}
		ctxs := []ctxT{
			{rb.node.Clone(), func(v *gen.JV) *gen.JV { return v }},
			{gen.Obj(gen.P("k", rb.node.Clone())), func(v *gen.JV) *gen.JV { return gen.JObj(gen.Member{Key: "k", Val: v}) }},
			{gen.Obj(gen.P("a", gen.Bool("true")), gen.P("k", rb.node.Clone())), func(v *gen.JV) *gen.JV {
				return gen.JObj(gen.Member{Key: "a", Val: gen.JBool("true")}, gen.Member{Key: "k", Val: v})
			}},
			{gen.Obj(gen.P("a", gen.Bool("true")), gen.P("k", rb.node.Clone())), func(v *gen.JV) *gen.JV {
				return gen.JObj(gen.Member{Key: "k", Val: v}, gen.Member{Key: "a", Val: gen.JBool("true")})
			}},
			{gen.Arr(rb.node.Clone()), func(v *gen.JV) *gen.JV { return gen.JArr(v) }},
			{gen.Arr(rb.node.Clone()), func(v *gen.JV) *gen.JV { return gen.JArr(g, g, v) }},
			{gen.Obj(gen.P("o", gen.Obj(gen.P("k", rb.node.Clone())))), func(v *gen.JV) *gen.JV {
				return gen.JObj(gen.Member{Key: "o", Val: gen.JObj(gen.Member{Key: "k", Val: v})})
			}},
			{gen.Arr(gen.Arr(rb.node.Clone())), func(v *gen.JV) *gen.JV { return gen.JArr(gen.JArr(g, v)) }},
			{gen.Obj(gen.P("l", gen.Arr(gen.Obj(gen.P("k", rb.node.Clone()))))), func(v *gen.JV) *gen.JV {
				return gen.JObj(gen.Member{Key: "l", Val: gen.JArr(gen.JObj(gen.Member{Key: "k", Val: g}), gen.JObj(gen.Member{Key: "k", Val: v}))})
			}},
		}
		for ci, cx := range ctxs {
			if !c.MineKey(fmt.Sprintf("rb%d.%d", bi, ci)) {
				continue
			}
			cs := sc.Case{Root: cx.root, Types: types}
			s, r := lib.Check(cs.Spec())
			if !r.OK {
				c.Inc("planted_rule_schema_rejected")
				continue
			}
			planted := &gen.JV{Kind: rb.bad.Kind, Lit: rb.bad.Lit}
			d := cx.doc(planted)
			for _, pretty := range []bool{false, true} {
				// control: the good document must be accepted, else the context is not usable
				gt, _ := renderDoc(cx.doc(g), pretty)
				if !lib.Validate(s, gt).OK {
					c.Inc("planted_rule_control_rejected")
					continue
				}
				text, off := renderDoc(d, pretty)
				c.Eval(true)
				if desc := checkPlanted(c, cs, s, text, off.val[planted], "a scalar breaking one rule"); desc != "" {
					c.Violate(fmt.Sprintf("validation-position;rule;%s;%q", cs.Describe(), text), desc, valCase{cs, text, off.val[planted], "a scalar breaking one rule"})
				}
			}
		}
	}
}

func validationPositions(c *ev.Ctx) {
	n := 3
	if c.Thorough() {
		n = 4
	}
	c.Bound("planted_schema_nodes", n)
	c01.ForEachSchema(n, func(cs sc.Case) {
		if !c.Mine() || c.Expired() {
			return
		}
		c.Inc("planted_schemas")
		plantedKinds(c, cs)
	})
	c01.ForEachSpine(func(root *gen.Node) bool {
		if c.Expired() {
			return false
		}
		if c.Mine() {
			c.Inc("planted_spines")
			plantedKinds(c, sc.Case{Root: root})
		}
		return true
	})
	plantedRules(c)
}

func replayValidation(v valCase) (bool, string) {
	s, r := lib.Check(v.Case.Spec())
	if !r.OK {
		return false, "schema no longer accepted"
	}
	desc := checkPlanted(nil, v.Case, s, v.Doc, v.Want, v.Planted)
	return desc != "", desc
}
