// Package c17: errors point at the offending byte and render correctly.
package c17

import (
	stdjson "encoding/json"
	"fmt"
	"strings"
	"time"

	"github.com/jsightapi/jsight-schema-go-library/errors"
	"github.com/jsightapi/jsight-schema-go-library/fs"

	"verif/internal/ev"
	"verif/internal/lib"
	"verif/ref/errrender"
	"verif/ref/jsonpda"
)

func init() {
	ev.Register(&ev.Check{
		ID:             "C17",
		Level:          "exploration",
		Rule:           "(a) rendering: ALL file contents of length 0..7 (thorough 8) over {a,space,tab,LF,CR} x ALL positions inside the file through the public errors.NewDocumentError+SetIndex: Line(), SourceSubString(), Error() must not panic for any content, and for consistently terminated files must equal the reference renderer (1-based line, left-trimmed text, caret column); line-length families around the 200-byte truncation x LF/CR/CRLF x boundary positions; ONE error value rendered at p1, moved to p2 with SetIndex and rendered again must show what a fresh error at p2 shows (all contents <= 5 (6) bytes x all position pairs). (b) parsing positions: BFS over the reference PDA's states (nesting <= 4) and all strings <= 4 symbols: for every live w and symbol c with w.c dead the library's error position must be |w|, for every live non-accepting w the end-of-input error position must be |w|-1. (c) validation positions: every rule-free schema <= 3 (4) nodes and every depth-5 spine, its example with ONE planted violation at every node (a value of each other JSON kind; an unknown key first / last in every object) in compact and indented layout, plus 14 single-rule breakers (min, max, exclusive, precision, lengths, regex, const, enum, date, or, type references) in 9 nesting contexts: whenever the reference rejects the document and the library reports a position it must be the start of the planted value / key. (e) errors passed through kit.ConvertError (parse errors of every non-JSON string <= 3 symbols in named and unnamed documents, validation errors) keep file, position, code and rendering. (f) Check-time errors about a key: objects of 1..3 members with ONE key shortcut that cannot be a key (type integer / array / object / boolean / never added) at every member position, next to ordinary keys and a valid shortcut, at the root / in a property / in an array, LF and CRLF: the error points at the first byte of that key. Non-trivial = distinct (content, position) with a non-blank line, or distinct (w, c).",
		Run:            run,
		Replay:         replay,
		QuickBudget:    70 * time.Second,
		ThoroughBudget: 10 * time.Minute,
		Assumptions: []string{
			"line numbers are asserted only for files that use one terminator style consistently (LF, CR or CRLF)",
			"caret column is asserted only when the position is not inside the line's leading blanks and the line is not blank-only (there: no panic only)",
			"truncation: a line longer than 200 bytes must be rendered in at most 200 bytes as a prefix of the left-trimmed line (+ optional ...)",
			"position of an error on empty or blank-only input is not asserted",
		},
	})
}

type caseT struct {
	Kind    string `json:"kind"` // "render" | "parsepos" | "eofpos"
	Content string `json:"content"`
	Pos     int    `json:"pos"`
}

type rendered struct {
	line   uint
	sub    string
	errStr string
	panic  string
}

func render(content string, pos int) (r rendered) {
	defer func() {
		if p := recover(); p != nil {
			r.panic = fmt.Sprint(p)
		}
	}()
	e := errors.NewDocumentError(fs.NewFile("file", []byte(content)), errors.Format(errors.ErrGeneric, "msg"))
	e.SetIndex(bytesIndex(pos))
	r.line = e.Line()
	r.sub = e.SourceSubString()
	r.errStr = e.Error()
	return r
}

// checkRender returns "" or a description of the first deviation; class is a
// coarse direction used for reduction.
func checkRender(content string, pos int) (desc, class string) {
	r := render(content, pos)
	if r.panic != "" {
		return fmt.Sprintf("rendering panics for content %q position %d: %s", content, pos, r.panic), "panic"
	}
	st := errrender.Classify(content)
	if st == errrender.Mixed {
		return "", ""
	}
	in := errrender.Locate(content, pos, st)
	if int(r.line) != in.Line {
		return fmt.Sprintf("content %q (%s) position %d: Line()=%d, want %d", content, st, pos, r.line, in.Line), "line"
	}
	want := in.Trimmed
	if len(in.Raw) > 200 {
		body := strings.TrimSuffix(r.sub, "...")
		if len(r.sub) > 200 || !strings.HasPrefix(want, body) || len(body) < 150 {
			return fmt.Sprintf("content of %d bytes position %d: truncated line text %q is not a <=200-byte prefix of the left-trimmed line", len(content), pos, r.sub), "trunc"
		}
	} else if r.sub != want {
		return fmt.Sprintf("content %q (%s) position %d: SourceSubString()=%q, want the left-trimmed line %q", content, st, pos, r.sub, want), "text"
	}
	// Error() layout
	parts := strings.Split(r.errStr, "\n")
	// the line text itself never contains \n for LF/CRLF files; for CR files the text may not either
	if len(parts) < 4 {
		return fmt.Sprintf("content %q position %d: Error() has %d lines: %q", content, pos, len(parts), r.errStr), "layout"
	}
	caret := parts[len(parts)-1]
	if !strings.HasSuffix(caret, "^") || !strings.HasPrefix(caret, "\t--") {
		return fmt.Sprintf("content %q position %d: no caret line in %q", content, pos, r.errStr), "layout"
	}
	wantLine := fmt.Sprintf("\tin line %d on file file", in.Line)
	if parts[1] != wantLine {
		return fmt.Sprintf("content %q position %d: Error() says %q, want %q", content, pos, parts[1], wantLine), "line"
	}
	if !in.InLead && !in.AllBlank && len(in.Raw) <= 200 {
		dashes := len(caret) - len("\t--") - 1
		if dashes != in.Column {
			return fmt.Sprintf("content %q (%s) position %d: caret at column %d of the shown text, want %d", content, st, pos, dashes, in.Column), "caret"
		}
	}
	return "", ""
}

func renderCands(content string, pos int) [][2]any { return nil }

type rcase struct {
	content string
	pos     int
}

func reduceRender(content string, pos int, class string) rcase {
	return ev.Reduce(rcase{content, pos}, func(x rcase) []rcase {
		var out []rcase
		// delete one byte (keeping the position on the "same" byte where possible)
		for i := 0; i < len(x.content); i++ {
			if len(x.content) == 1 {
				break
			}
			nc := x.content[:i] + x.content[i+1:]
			np := x.pos
			if i < x.pos {
				np--
			}
			if np >= len(nc) {
				np = len(nc) - 1
			}
			out = append(out, rcase{nc, np})
		}
		// simplify a byte
		for i := 0; i < len(x.content); i++ {
			for _, r := range []byte{'a', ' ', '\n'} {
				if x.content[i] != r && rank(r) < rank(x.content[i]) {
					out = append(out, rcase{x.content[:i] + string(r) + x.content[i+1:], x.pos})
				}
			}
		}
		if x.pos > 0 {
			out = append(out, rcase{x.content, x.pos - 1})
		}
		return out
	}, func(x rcase) bool {
		d, c := checkRender(x.content, x.pos)
		return d != "" && c == class
	})
}

func rank(b byte) int {
	switch b {
	case 'a':
		return 0
	case ' ':
		return 1
	case '\n':
		return 2
	case '\t':
		return 3
	}
	return 4
}

func run(c *ev.Ctx) {
	truncatedSchemas(c)
	L := 7
	if c.Thorough() {
		L = 8
	}
	c.Bound("render_content_length", L)
	renderExhaustive(c, L)
	if c.Shard == 0 {
		renderFamilies(c)
	}
	parsePositions(c)
	validationPositions(c)
	repositioned(c)
	converted(c)
	keyPositions(c)
}

const ralpha = "a \t\n\r"

func renderExhaustive(c *ev.Ctx, L int) {
	buf := make([]byte, 0, L)
	var rec func()
	rec = func() {
		if len(buf) > 0 {
			content := string(buf)
			for pos := 0; pos < len(content); pos++ {
				desc, class := checkRender(content, pos)
				st := errrender.Classify(content)
				nontrivial := st != errrender.Mixed
				c.Eval(nontrivial)
				c.Inc("render_style_" + st.String())
				if desc != "" {
					red := reduceRender(content, pos, class)
					d2, _ := checkRender(red.content, red.pos)
					c.Violate(fmt.Sprintf("render;%s;%q;%d", class, red.content, red.pos), d2, caseT{"render", red.content, red.pos})
				}
			}
			if len(content) == 5 {
				c.Sample("render", map[string]any{"content": content, "positions": len(content)})
			}
		}
		if len(buf) == L {
			return
		}
		for i := 0; i < len(ralpha); i++ {
			if len(buf) == 2 && !c.MineKey(string(buf)+string(ralpha[i])) {
				continue
			}
			if len(buf) < 2 && c.Shard != 0 && len(buf)+1 < 3 {
				// contents shorter than 3 are evaluated by shard 0 only, but every shard must descend
				buf = append(buf, ralpha[i])
				recDescendOnly(c, &buf, L, rec)
				buf = buf[:len(buf)-1]
				continue
			}
			buf = append(buf, ralpha[i])
			rec()
			buf = buf[:len(buf)-1]
		}
	}
	rec()
}

// recDescendOnly descends without evaluating the current (short) content.
func recDescendOnly(c *ev.Ctx, buf *[]byte, L int, rec func()) {
	if len(*buf) >= 2 {
		for i := 0; i < len(ralpha); i++ {
			if !c.MineKey(string(*buf) + string(ralpha[i])) {
				continue
			}
			*buf = append(*buf, ralpha[i])
			rec()
			*buf = (*buf)[:len(*buf)-1]
		}
		return
	}
	for i := 0; i < len(ralpha); i++ {
		*buf = append(*buf, ralpha[i])
		recDescendOnly(c, buf, L, rec)
		*buf = (*buf)[:len(*buf)-1]
	}
}

func renderFamilies(c *ev.Ctx) {
	lens := []int{0, 1, 2, 196, 197, 198, 199, 200, 201, 202, 250, 1000}
	terms := []string{"\n", "\r", "\r\n"}
	n := 0
	for _, t := range terms {
		for _, l1 := range lens {
			for _, lead := range []int{0, 1, 5} {
				line := strings.Repeat(" ", lead) + strings.Repeat("a", l1)
				for _, pre := range []string{"", "x" + t, "x" + t + t} {
					for _, post := range []string{"", t, t + "y"} {
						content := pre + line + post
						if content == "" {
							continue
						}
						b := len(pre)
						cand := []int{b, b + lead, b + lead + 1, b + len(line) - 1, b + len(line), b + 196, b + 197, b + 199, b + 200, b + 201, len(content) - 1, 0}
						seen := map[int]bool{}
						for _, pos := range cand {
							if pos < 0 || pos >= len(content) || seen[pos] {
								continue
							}
							seen[pos] = true
							n++
							desc, class := checkRender(content, pos)
							c.Eval(true)
							if desc != "" {
								key := fmt.Sprintf("render-family;%s;term=%q;len=%d;lead=%d;pre=%q;post=%q;pos=%d", class, t, l1, lead, pre, post, pos-b)
								if len(content) <= 40 {
									red := reduceRender(content, pos, class)
									desc, _ = checkRender(red.content, red.pos)
									key = fmt.Sprintf("render;%s;%q;%d", class, red.content, red.pos)
									content, pos = red.content, red.pos
								}
								c.Violate(key, desc, caseT{"render", content, pos})
							}
						}
					}
				}
			}
		}
	}
	// many lines: line numbers around the powers of ten and of two, lines of different lengths before
	for _, t := range terms {
		for _, k := range []int{1, 2, 8, 9, 10, 11, 15, 16, 17, 63, 64, 65, 98, 99, 100, 101, 127, 128, 129, 255, 256, 257, 999, 1000, 1001, 4095, 4096, 4097} {
			for _, before := range []string{"", "a", "  ab", strings.Repeat("z", 210)} {
				pre := strings.Repeat(before+t, k)
				for _, line := range []string{"abc", "  abc", strings.Repeat("a", 205)} {
					for _, post := range []string{"", t, t + "y" + t} {
						content := pre + line + post
						for _, off := range []int{0, 2, len(line) - 1} {
							pos := len(pre) + off
							n++
							desc, class := checkRender(content, pos)
							c.Eval(true)
							if desc != "" {
								c.Violate(fmt.Sprintf("render-lines;%s;term=%q;lines_before=%d;before=%.8q;line=%.8q;post=%q;off=%d", class, t, k, before, line, post, off), desc, caseT{"render", content, pos})
							}
						}
					}
				}
			}
		}
	}
	c.Bound("render_family_cases", n)
}

// ---- (b) parsing positions ------------------------------------------------

var palpha = []string{" ", "\n", "{", "}", "[", "]", ":", ",", "\"", "\\", "/", "-", "+", ".", "0", "1", "e", "E", "t", "r", "u", "f", "a", "l", "s", "n", "b", "x", "\x01", "é", "\t", "\r"}

func feed(p *jsonpda.PDA, s string) *jsonpda.PDA {
	q := p.Clone()
	for i := 0; i < len(s); i++ {
		q.Feed(s[i])
	}
	return q
}

func checkParsePos(c *ev.Ctx, w string, p *jsonpda.PDA) {
	// w is live for the reference.
	blankOnly := strings.TrimLeft(w, " \t\r\n") == ""
	for _, sym := range palpha {
		q := feed(p, sym)
		if !q.Dead() {
			continue
		}
		input := w + sym
		r := lib.DocCheck(input, false)
		c.Eval(true)
		c.Inc("parsepos_cases")
		if r.OK || r.Panic != "" {
			continue // acceptance is C05's business
		}
		if !r.HasPos || int(r.Pos) != len(w) {
			c.Violate(fmt.Sprintf("parsepos;%q;%d", input, r.Pos),
				fmt.Sprintf("document %q: the first byte that cannot continue the text is at offset %d, the error reports %d (%s)", input, len(w), r.Pos, r.Msg), caseT{"parsepos", input, len(w)})
		}
	}
	if !p.AcceptEOF() && !blankOnly {
		r := lib.DocCheck(w, false)
		c.Eval(true)
		c.Inc("eofpos_cases")
		if !r.OK && r.Panic == "" {
			if !r.HasPos || int(r.Pos) != len(w)-1 {
				c.Violate(fmt.Sprintf("eofpos;%q;%d", w, r.Pos),
					fmt.Sprintf("document %q ends early: the error should point at the last byte (offset %d), it reports %d (%s)", w, len(w)-1, r.Pos, r.Msg), caseT{"eofpos", w, len(w) - 1})
			}
		}
	}
}

func parsePositions(c *ev.Ctx) {
	maxDepth := 4
	if c.Thorough() {
		maxDepth = 6
	}
	c.Bound("parsepos_nesting", maxDepth)
	// BFS over reference states
	type st struct {
		w string
		p *jsonpda.PDA
	}
	seen := map[string]bool{}
	root := st{"", jsonpda.New()}
	seen[root.p.Key()] = true
	queue := []st{root}
	idx := 0
	for len(queue) > 0 {
		s := queue[0]
		queue = queue[1:]
		if idx%c.NShards == c.Shard {
			checkParsePos(c, s.w, s.p)
			c.Inc("states")
		}
		idx++
		for _, sym := range palpha {
			q := feed(s.p, sym)
			if q.Dead() || q.Depth() > maxDepth {
				continue
			}
			c.Inc("transitions")
			k := q.Key()
			if seen[k] {
				continue
			}
			seen[k] = true
			queue = append(queue, st{s.w + sym, q})
		}
	}
	// all strings <= 4 symbols (live prefixes only)
	L := 4
	if c.Thorough() {
		L = 5
	}
	c.Bound("parsepos_string_symbols", L)
	var rec func(w string, p *jsonpda.PDA, n int)
	rec = func(w string, p *jsonpda.PDA, n int) {
		if n >= 2 || c.Shard == 0 {
			checkParsePos(c, w, p)
		}
		if n == L {
			return
		}
		for _, sym := range palpha {
			if n == 1 && !c.MineKey(w+sym) {
				continue
			}
			q := feed(p, sym)
			if q.Dead() {
				continue
			}
			rec(w+sym, q, n+1)
		}
	}
	rec("", jsonpda.New(), 0)
}

func replay(raw stdjson.RawMessage) (bool, string) {
	var cs caseT
	if err := stdjson.Unmarshal(raw, &cs); err != nil {
		return false, err.Error()
	}
	switch cs.Kind {
	case "render":
		d, _ := checkRender(cs.Content, cs.Pos)
		return d != "", d
	case "parsepos", "eofpos":
		r := lib.DocCheck(cs.Content, false)
		return !r.OK && (!r.HasPos || int(r.Pos) != cs.Pos), fmt.Sprintf("document %q: error %s, expected position %d", cs.Content, r, cs.Pos)
	}
	if cs.Kind == "keypos" {
		d := keyposCheck(cs.Content, cs.Pos)
		return d != "", d
	}
	if cs.Kind == "convert" {
		var cv convCase
		if err := stdjson.Unmarshal(raw, &cv); err != nil {
			return false, err.Error()
		}
		d := checkConvert(cv)
		return d != "", d
	}
	if cs.Kind == "moved" {
		var m moveCase
		if err := stdjson.Unmarshal(raw, &m); err != nil {
			return false, err.Error()
		}
		d := checkMoved(m.Content, m.P1, m.P2)
		return d != "", d
	}
	var v valCase
	if err := stdjson.Unmarshal(raw, &v); err == nil && v.Doc != "" {
		return replayValidation(v)
	}
	return false, "unknown kind"
}
