package c17

import (
	"fmt"

	"github.com/jsightapi/jsight-schema-go-library/errors"
	"github.com/jsightapi/jsight-schema-go-library/fs"

	"verif/internal/ev"
)

// Repositioned errors: ONE DocumentError value is rendered at position p1, moved
// with SetIndex to p2 and rendered again. What it shows then must be what a
// fresh error at p2 shows (the statement quantifies over the position the error
// carries, not over how it got there).

type moveCase struct {
	Kind    string `json:"kind"` // "moved"
	Content string `json:"content"`
	P1      int    `json:"first_position"`
	P2      int    `json:"second_position"`
}

func renderMoved(content string, p1, p2 int) (r rendered) {
	defer func() {
		if p := recover(); p != nil {
			r.panic = fmt.Sprint(p)
		}
	}()
	e := errors.NewDocumentError(fs.NewFile("file", []byte(content)), errors.Format(errors.ErrGeneric, "msg"))
	e.SetIndex(bytesIndex(p1))
	_ = e.Line()
	_ = e.SourceSubString()
	_ = e.Error()
	e.SetIndex(bytesIndex(p2))
	r.line = e.Line()
	r.sub = e.SourceSubString()
	r.errStr = e.Error()
	return r
}

func checkMoved(content string, p1, p2 int) string {
	fresh := render(content, p2)
	if fresh.panic != "" {
		return "" // reported by the plain rendering family
	}
	m := renderMoved(content, p1, p2)
	switch {
	case m.panic != "":
		return fmt.Sprintf("content %q: an error rendered at %d, moved to %d with SetIndex and rendered again panics: %s", content, p1, p2, m.panic)
	case m.line != fresh.line || m.sub != fresh.sub || m.errStr != fresh.errStr:
		return fmt.Sprintf("content %q: an error rendered at %d and moved to %d shows line %d %q / %q, a fresh error at %d shows line %d %q / %q", content, p1, p2, m.line, m.sub, m.errStr, p2, fresh.line, fresh.sub, fresh.errStr)
	}
	return ""
}

func repositioned(c *ev.Ctx) {
	L := 5
	if c.Thorough() {
		L = 6
	}
	c.Bound("moved_content_length", L)
	buf := make([]byte, 0, L)
	n := 0
	var rec func()
	rec = func() {
		if len(buf) > 1 {
			n++
			if c.MineKey(fmt.Sprintf("mv%d", n)) && !c.Expired() {
				content := string(buf)
				for p1 := 0; p1 < len(content); p1++ {
					for p2 := 0; p2 < len(content); p2++ {
						if p1 == p2 {
							continue
						}
						c.Eval(true)
						c.Inc("moved_renderings")
						if d := checkMoved(content, p1, p2); d != "" {
							c.Violate(fmt.Sprintf("moved;%q;%d;%d", content, p1, p2), d, moveCase{"moved", content, p1, p2})
						}
					}
				}
			}
		}
		if len(buf) == L {
			return
		}
		for i := 0; i < len(ralpha); i++ {
			buf = append(buf, ralpha[i])
			rec()
			buf = buf[:len(buf)-1]
		}
	}
	rec()
}
