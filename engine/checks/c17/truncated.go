package c17

import (
	"fmt"

	"verif/internal/ev"
	"verif/internal/lib"
)

type truncCase struct {
	Schema string `json:"truncated_schema"`
}

// truncatedSchemas: schema texts that end early - after a token that demands a continuation (|, :, a comma,
// an opening bracket, inside a string, a literal, an annotation) - and every blank-padded variant: Check and
// Len report "unexpected end" at the LAST byte of the text (the statement's rule for input that ends early),
// as a structured error.
func truncatedSchemas(c *ev.Ctx) {
	stems := []string{
		"@a |", "@a|", "@a | @b |", "@a | @", "@", "{\"k\": @a |", "[1, @a |", "{\n  \"k\": @a |",
		"{\"a\": 1,", "{\"a\":", "{\"a\"", "{", "[", "[1", "[1,", "[[", "{\"a\": {", "\"ab", "\"", "tru", "nul", "-", "1.", "1e",
		"1 // {min:", "1 // {min: 0", "1 // {", "1 /* {min: 0}", "1 /*", "{ // {allOf", "1 // {enum: [1,", "1 // {or: [{type:",
	}
	pads := []string{"", " ", "  ", "\t", " \t"} // no line breaks: in some places a line break is an error of its own
	n := 0
	for _, st := range stems {
		for _, pad := range pads {
			text := st + pad
			last := st[len(st)-1]
			// a blank behind an unterminated string or annotation belongs to it; behind a bare literal it
			// ends the literal: only the unpadded form is asserted there
			if pad != "" && (last == 'u' || last == 'l' || last == '-' || last == '.' || last == 'e' || last == '@' || last == '1' || last == '0' || last == '}') {
				continue
			}
			n++
			if !c.MineKey(fmt.Sprint("trunc;", n)) {
				continue
			}
			_, r := lib.Check(lib.SchemaSpec{Text: text, Types: []lib.TypeDef{{Name: "@a", Text: "1"}, {Name: "@b", Text: `"s"`}}})
			c.Eval(true)
			c.Inc("truncated_schema_cases")
			want := len(text) - 1
			switch {
			case r.Panic != "":
				c.Violate("truncated;panic;"+text, fmt.Sprintf("schema %q (ends early): Check panics: %s", text, r.Panic), truncCase{text})
			case r.OK:
				c.Violate("truncated;accepted;"+text, fmt.Sprintf("schema %q (ends early) is accepted", text), truncCase{text})
			case !r.HasPos || r.Code == 0:
				c.Violate("truncated;unstructured;"+text, fmt.Sprintf("schema %q (ends early): the error carries no code or position: %s", text, r), truncCase{text})
			case int(r.Pos) != want:
				c.Violate("truncated;position;"+text, fmt.Sprintf("schema %q ends early: the error position is %d, the last byte is at %d (%s)", text, r.Pos, want, r), truncCase{text})
			}
		}
	}
}
