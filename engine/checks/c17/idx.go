package c17

import "github.com/jsightapi/jsight-schema-go-library/bytes"

func bytesIndex(i int) bytes.Index { return bytes.Index(i) }
