package c17

import (
	"fmt"

	"github.com/jsightapi/jsight-schema-go-library/formats/json"
	"github.com/jsightapi/jsight-schema-go-library/fs"
	"github.com/jsightapi/jsight-schema-go-library/kit"
	"github.com/jsightapi/jsight-schema-go-library/notations/jschema"

	"verif/internal/ev"
)

// kit.ConvertError is how an embedding application turns library errors into its
// own: the converted error must still point where the original points - same
// file (also when that file has NO name), same position, same code - and must
// render without panicking. Errors come from parsing (every string of <= 3
// symbols that is not JSON, in a named and in an unnamed document) and from
// validation (planted violations), converted against a DIFFERENT, named file.

type convCase struct {
	Kind   string `json:"kind"` // "convert"
	Doc    string `json:"document"`
	Schema string `json:"schema,omitempty"`
	Named  bool   `json:"document_has_a_name"`
}

type located interface {
	Filename() string
	Position() uint
	ErrCode() int
}

func checkConvert(cs convCase) string {
	name := ""
	if cs.Named {
		name = "doc.json"
	}
	var err error
	func() {
		defer func() {
			if r := recover(); r != nil {
				err = nil
			}
		}()
		d := json.New(name, cs.Doc)
		if cs.Schema == "" {
			err = d.Check()
		} else {
			err = jschema.New("schema.jst", cs.Schema).Validate(d)
		}
	}()
	if err == nil {
		return ""
	}
	orig, ok := err.(located)
	if !ok {
		return ""
	}
	other := fs.NewFile("api.jst", "# a different, longer file the caller happens to hold\nTYPE @cat\n{\n  \"id\": 1\n}\n")
	var conv kit.Error
	var rendered string
	panicked := ""
	func() {
		defer func() {
			if r := recover(); r != nil {
				panicked = fmt.Sprint(r)
			}
		}()
		conv = kit.ConvertError(other, err)
		if e, ok := conv.(error); ok {
			rendered = e.Error()
		}
	}()
	what := fmt.Sprintf("document %q (file name %q)", cs.Doc, name)
	if cs.Schema != "" {
		what += fmt.Sprintf(" under schema %q", cs.Schema)
	}
	if panicked != "" {
		return fmt.Sprintf("%s: converting / rendering the error with kit.ConvertError panics: %s", what, panicked)
	}
	if conv.Filename() != orig.Filename() || conv.Position() != orig.Position() || conv.ErrCode() != orig.ErrCode() {
		return fmt.Sprintf("%s: the error is in file %q at %d (code %d), kit.ConvertError turns it into file %q at %d (code %d)", what, orig.Filename(), orig.Position(), orig.ErrCode(), conv.Filename(), conv.Position(), conv.ErrCode())
	}
	if oe, ok := err.(interface{ Error() string }); ok && rendered != "" && rendered != oe.Error() {
		return fmt.Sprintf("%s: the converted error renders as %q, the original as %q", what, rendered, oe.Error())
	}
	return ""
}


func converted(c *ev.Ctx) {
	syms := []string{" ", "\n", "{", "}", "[", "]", ":", ",", "\"", "1", "a", "t", "-", "."}
	n := 0
	var rec func(w string)
	rec = func(w string) {
		if w != "" {
			for _, named := range []bool{false, true} {
				n++
				if !c.MineKey(fmt.Sprintf("cv%d", n)) || c.Expired() {
					continue
				}
				cs := convCase{"convert", w, "", named}
				c.Eval(true)
				c.Inc("converted_errors")
				if d := checkConvert(cs); d != "" {
					c.Violate(fmt.Sprintf("convert;%q;%v", w, named), d, cs)
				}
			}
		}
		if len(w) == 3 {
			return
		}
		for _, s := range syms {
			rec(w + s)
		}
	}
	rec("")
	schema := "{\n  \"id\": 1, // {min: 1}\n  \"tag\": \"x\"\n}"
	for _, doc := range []string{`{"id":0,"tag":"x"}`, "{\n  \"id\": 1,\n  \"tag\": 12345\n}", `{"id":1}`, `{"id":1,"tag":"x","zz":1}`, `[`, `{"id":1,"tag":"x"} x`} {
		for _, named := range []bool{false, true} {
			cs := convCase{"convert", doc, schema, named}
			c.Eval(true)
			c.Inc("converted_errors")
			if d := checkConvert(cs); d != "" {
				c.Violate(fmt.Sprintf("convert;%q;%v;schema", doc, named), d, cs)
			}
		}
	}
}
