package c08

import (
	stdjson "encoding/json"
	"fmt"

	"verif/checks/c02"
	"verif/checks/sc"
	"verif/gen"
	"verif/internal/ev"
	"verif/internal/lib"
	"verif/ref/refv"
	"verif/ref/wf"
)

// Second family: scalar examples with rule sets drawn from each kind's
// APPLICABLE pool (C02's generator) with boundary parameters, kept when the
// example obeys them. Most of these are well formed, so this family is what
// exercises the "Check succeeds" direction of the iff.

type scalarCase struct {
	Node *gen.Node `json:"node"`
	Pos  int       `json:"position"`
}

func (s scalarCase) build() sc.Case {
	return sc.Case{Root: wrap(s.Node.Clone(), wf.Position(s.Pos)), Types: types}
}

func (s scalarCase) eval() (dir, desc string) {
	cs := s.build()
	want := wf.WellFormed(cs.Env(), s.Node, wf.Position(s.Pos))
	_, r := lib.Check(cs.Spec())
	text := cs.Spec().Text
	switch {
	case r.Panic != "":
		return "panic", fmt.Sprintf("Check panics on %q: %s", text, r.Panic)
	case want == refv.Accept && !r.OK:
		return "lib=reject,ref=accept", fmt.Sprintf("Check rejects %q (%s) although every rule is known, applicable, consistent and obeyed by the example", text, r)
	case want == refv.Reject && r.OK:
		return "lib=accept,ref=reject", fmt.Sprintf("Check accepts %q although the statement's applicability/consistency conditions are violated", text)
	}
	return "", ""
}

func scalarCands(s scalarCase) []scalarCase {
	var out []scalarCase
	if s.Pos != 0 {
		out = append(out, scalarCase{s.Node, 0})
	}
	for i := range s.Node.Rules {
		n := s.Node.Clone()
		n.Rules = append(append([]gen.Rule{}, s.Node.Rules[:i]...), s.Node.Rules[i+1:]...)
		out = append(out, scalarCase{n, s.Pos})
	}
	return out
}

func scalarFamily(c *ev.Ctx) {
	k := 3
	if c.Thorough() {
		k = 4
	}
	c.Bound("scalar_family_rules_per_set", k)
	c02.ForEachAnnotatedScalar(k, func(root *gen.Node) {
		if !c.Mine() || c.Expired() {
			return
		}
		for pos := 0; pos < 3; pos++ {
			s := scalarCase{root, pos}
			cs := s.build()
			switch wf.WellFormed(cs.Env(), root, wf.Position(pos)) {
			case refv.Accept:
				c.Inc("scalar_ref_accept")
			case refv.Reject:
				c.Inc("scalar_ref_reject")
			default:
				c.Inc("scalar_unspecified")
			}
			c.Add("evaluations", 1)
			c.Inc("distinct_nontrivial")
			dir, _ := s.eval()
			if dir == "" {
				continue
			}
			red := ev.Reduce(s, scalarCands, func(x scalarCase) bool {
				d2, _ := x.eval()
				return d2 == dir
			})
			_, desc := red.eval()
			c.Violate(fmt.Sprintf("scalar;%s;pos=%d;%s;%s", dir, red.Pos, red.Node.Lit, ruleKey(red.Node.Rules)), desc, red)
		}
	})
}

func replayScalar(raw stdjson.RawMessage) (bool, string, bool) {
	var s scalarCase
	if err := stdjson.Unmarshal(raw, &s); err != nil || s.Node == nil {
		return false, "", false
	}
	dir, desc := s.eval()
	return dir != "", desc, true
}
