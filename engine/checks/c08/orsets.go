package c08

import (
	"fmt"

	"verif/checks/sc"
	"verif/gen"
	"verif/internal/ev"
	"verif/internal/lib"
	"verif/ref/wf"
)

type orSetCase struct {
	Example string     `json:"example"`
	Set     []gen.Rule `json:"rule_set"`
	Other   int        `json:"other_alternative"`
	First   bool       `json:"set_first"`
	Pos     int        `json:"position"`
	Opt     bool       `json:"keys_optional_by_default,omitempty"`
}

func (o orSetCase) build() sc.Case {
	others := []gen.RuleItem{
		{Set: []gen.Rule{gen.R("type", `"integer"`)}},
		{Lit: `"boolean"`},
		{Set: []gen.Rule{gen.R("type", `"string"`), gen.R("maxLength", "1")}},
	}
	items := []gen.RuleItem{{Set: o.Set}, others[o.Other]}
	if !o.First {
		items = []gen.RuleItem{others[o.Other], {Set: o.Set}}
	}
	n := gen.Str(o.Example).With(gen.RL("or", items...))
	return sc.Case{Root: wrap(n, wf.Position(o.Pos)), Opt: o.Opt}
}

// orSetFamily: the statement's exclusions hold for the rule sets INSIDE an or rule as well: a format type
// with a length or regex rule, and type any with const, make Check fail wherever the set stands - first or
// second alternative, either order of its rules, next to any other alternative, at the root, as a property
// and as an array item, under both configurations. The same or rule without the excluded rule is the control:
// Check must accept it (the example matches the format), so that the family is not vacuous.
func orSetFamily(c *ev.Ctx) {
	formats := []struct{ name, example string }{
		{"email", `"a@b.cc"`}, {"uri", `"http://a.b/c"`}, {"date", `"2020-01-02"`},
		{"datetime", `"2020-01-02T03:04:05+00:00"`}, {"uuid", `"550e8400-e29b-41d4-a716-446655440000"`}, {"any", `"x"`},
	}
	for _, f := range formats {
		excluded := []gen.Rule{gen.R("minLength", "1"), gen.R("maxLength", "99"), gen.R("regex", `"."`)}
		if f.name == "any" {
			excluded = []gen.Rule{gen.R("const", "true")}
		}
		typ := gen.R("type", `"`+f.name+`"`)
		var sets [][]gen.Rule
		sets = append(sets, []gen.Rule{typ}) // control
		for _, x := range excluded {
			sets = append(sets, []gen.Rule{typ, x}, []gen.Rule{x, typ})
		}
		for si, set := range sets {
			for other := 0; other < 3; other++ {
				for _, first := range []bool{true, false} {
					for pos := 0; pos < 3; pos++ {
						for _, opt := range []bool{false, true} {
							o := orSetCase{f.example, set, other, first, pos, opt}
							if !c.MineKey(fmt.Sprint("orset;", f.name, si, other, first, pos, opt)) {
								continue
							}
							cs := o.build()
							_, r := lib.Check(cs.Spec())
							c.Eval(true)
							c.Inc("or_rule_set_cases")
							switch {
							case r.Panic != "":
								c.Violate("orset;panic;"+cs.Describe(), fmt.Sprintf("%s: Check panics: %s", cs.Describe(), r.Panic), o)
							case si == 0 && !r.OK:
								c.Violate("orset;control-rejected;"+cs.Describe(), fmt.Sprintf("%s: Check rejects an or rule whose example matches its format alternative: %s", cs.Describe(), r), o)
							case si > 0 && r.OK:
								c.Violate("orset;lib=accept,ref=reject;"+cs.Describe(), fmt.Sprintf("%s: Check accepts a rule set combining type %q with %s inside an or rule", cs.Describe(), f.name, ruleKey(set)), o)
							}
						}
					}
				}
			}
		}
	}
}

type paddedNameCase struct {
	Schema string `json:"schema"`
	Opt    bool   `json:"keys_optional_by_default,omitempty"`
}

// paddedNames: "every rule is known": a quoted rule name is the name between its quotes. The names of the
// rules that fit the example, spelled with a blank before / behind / on both sides (space, tab) inside the
// quotes, are NOT known rules, in an annotation and inside an or rule-set; the exact quoted name is the
// accepted control.
func paddedNames(c *ev.Ctx) {
	type row struct{ example, name, value string }
	rows := []row{
		{"1", "min", "0"}, {"1", "max", "9"}, {`"ab"`, "minLength", "1"}, {`"ab"`, "maxLength", "9"}, {`"ab"`, "regex", `"a"`},
		{"1", "type", `"integer"`}, {"1", "nullable", "true"}, {"1", "const", "true"}, {"1.5", "precision", "1"},
		{"[]", "minItems", "0"}, {"[]", "maxItems", "0"}, {"{}", "additionalProperties", "true"}, {"1", "enum", "[1, 2]"}, {"1", "or", `["integer", "string"]`},
	}
	pads := [][2]string{{"", ""}, {"", " "}, {" ", ""}, {" ", " "}, {"", "\t"}, {"\t", ""}, {"", "  "}}
	for _, r := range rows {
		for pi, pad := range pads {
			for form := 0; form < 3; form++ {
				for _, opt := range []bool{false, true} {
					name := `"` + pad[0] + r.name + pad[1] + `"`
					var text string
					switch form {
					case 0:
						text = r.example + " // {" + name + ": " + r.value + "}"
					case 1:
						text = "{\n  \"k\": " + r.example + " // {" + name + ": " + r.value + "}\n}"
					default:
						if r.name == "type" || r.name == "or" || r.name == "enum" || r.name == "precision" {
							continue
						}
						text = r.example + " // {or: [{type: \"" + map[string]string{"1": "integer", `"ab"`: "string", "1.5": "float", "[]": "array", "{}": "object"}[r.example] + "\", " + name + ": " + r.value + "}, {type: \"boolean\"}]}"
					}
					if !c.MineKey(fmt.Sprint("padded;", r.name, pi, form, opt)) {
						continue
					}
					_, res := lib.Check(lib.SchemaSpec{Text: text, OptionalDef: opt})
					c.Eval(true)
					c.Inc("padded_rule_name_cases")
					cs := paddedNameCase{text, opt}
					switch {
					case res.Panic != "":
						c.Violate("padded-name;panic;"+text, fmt.Sprintf("schema %q: Check panics: %s", text, res.Panic), cs)
					case pi == 0 && !res.OK:
						c.Violate("padded-name;control-rejected;"+text, fmt.Sprintf("schema %q (rule name quoted, no blanks): Check rejects: %s", text, res), cs)
					case pi > 0 && res.OK:
						c.Violate("padded-name;lib=accept,ref=reject;"+text, fmt.Sprintf("schema %q: Check accepts the unknown rule name %s", text, name), cs)
					}
				}
			}
		}
	}
}
