// Package c08: Check enforces rule applicability and mutual consistency,
// order-independently.
package c08

import (
	stdjson "encoding/json"
	"fmt"
	"sort"
	"strings"
	"time"

	"verif/checks/sc"
	"verif/gen"
	"verif/internal/ev"
	"verif/internal/lib"
	"verif/ref/refv"
	"verif/ref/wf"
)

func init() {
	ev.Register(&ev.Check{
		ID:             "C08",
		Level:          "exploration",
		Rule:           "node kinds {integer,float,string,boolean,null,{},{\"k\":1},[],[1],@T} x positions {root, property, array element} x ALL subsets of <= 3 (thorough 4) of the 18 rule names + one unknown name + every duplicated name x parameter variants (ordered/equal/inverted pairs, true/false flags, matching/mismatching types, satisfied/violated by the example) x ALL permutations of the chosen rules, under both key-optionality configurations. Oracles: (1) permutation invariance of Check's verdict (reference-free); (2) the reference applicability predicate written from the statement (three-valued) incl. 'the example obeys its own rules'. Non-trivial = distinct (kind, position, rule multiset) with >= 1 rule; evaluations count compilations.",
		Run:            run,
		Replay:         replay,
		QuickBudget:    150 * time.Second,
		ThoroughBudget: 14 * time.Minute,
		Assumptions: []string{
			"which error code is reported is not asserted; wrong-kind rule parameters are not generated",
			"not asserted (statement silent): const on containers, any+const, declared float on an integer example, type enum/mixed/decimal without their rule, or/enum/type-reference on containers, allOf targets",
		},
	})
}

type variant struct {
	name string
	vals []gen.Rule
}

func rv(name string, vals ...string) variant {
	v := variant{name: name}
	for _, x := range vals {
		v.vals = append(v.vals, gen.R(name, x))
	}
	return v
}

func lits(xs ...string) []gen.RuleItem {
	var out []gen.RuleItem
	for _, x := range xs {
		out = append(out, gen.RuleItem{Lit: x})
	}
	return out
}

func pool(kind gen.Kind) []variant {
	ownType := map[gen.Kind]string{gen.KInt: `"integer"`, gen.KFloat: `"float"`, gen.KStr: `"string"`, gen.KBool: `"boolean"`, gen.KNull: `"null"`, gen.KObj: `"object"`, gen.KArr: `"array"`, gen.KRef: `"integer"`}[kind]
	otherType := `"string"`
	if kind == gen.KStr {
		otherType = `"integer"`
	}
	types := []string{ownType, otherType, `"any"`, `"@T"`}
	switch kind {
	case gen.KFloat:
		types = append(types, `"decimal"`)
	case gen.KStr:
		types = append(types, `"email"`)
	}
	return []variant{
		rv("minLength", "0", "3"),
		rv("maxLength", "1", "2"),
		rv("min", "0", "5"),
		rv("max", "1", "9"),
		rv("exclusiveMinimum", "true", "false"),
		rv("exclusiveMaximum", "true", "false"),
		rv("type", types...),
		rv("precision", "1", "2"),
		rv("optional", "true", "false"),
		rv("minItems", "0", "2"),
		rv("maxItems", "1", "3"),
		rv("additionalProperties", "true", "false", `"string"`, `"@T"`),
		rv("nullable", "true", "false"),
		rv("regex", `"^a"`, `"z"`),
		rv("const", "true", "false"),
		{name: "or", vals: []gen.Rule{gen.RL("or", lits(`"@T"`, `"string"`)...), gen.RL("or", gen.RuleItem{Set: []gen.Rule{gen.R("type", `"integer"`)}}, gen.RuleItem{Set: []gen.Rule{gen.R("type", `"string"`)}})}},
		{name: "enum", vals: []gen.Rule{gen.RL("enum", lits("1", `"ab"`, "1.5", "true", "null")...), gen.RL("enum", lits("2")...)}},
		{name: "allOf", vals: []gen.Rule{gen.R("allOf", `"@O"`), gen.R("allOf", `"@E"`), gen.RL("allOf", lits(`"@E"`, `"@EA"`)...)}},
		rv("foo", "1"),
	}
}

type kindSpec struct {
	name string
	mk   func() *gen.Node
}

var kinds = []kindSpec{
	{"integer", func() *gen.Node { return gen.Int("1") }},
	{"float", func() *gen.Node { return gen.Float("1.5") }},
	{"string", func() *gen.Node { return gen.Str(`"ab"`) }},
	{"boolean", func() *gen.Node { return gen.Bool("true") }},
	{"null", func() *gen.Node { return gen.Null() }},
	{"{}", func() *gen.Node { return gen.Obj() }},
	{"{k:1}", func() *gen.Node { return gen.Obj(gen.P("k", gen.Int("1"))) }},
	{"[]", func() *gen.Node { return gen.Arr() }},
	{"[1]", func() *gen.Node { return gen.Arr(gen.Int("1")) }},
	{"@T", func() *gen.Node { return gen.Ref("@T") }},
}

// @E and @EA are objects that bring nothing to an heir (no property; the second one open to any key)
var types = []sc.TypeDecl{{Name: "@T", Body: gen.Int("1")}, {Name: "@O", Body: gen.Obj(gen.P("z", gen.Int("1")))},
	{Name: "@E", Body: gen.Obj()}, {Name: "@EA", Body: gen.Obj().With(gen.R("additionalProperties", `"any"`))}}

func wrap(n *gen.Node, pos wf.Position) *gen.Node {
	switch pos {
	case wf.Property:
		return gen.Obj(gen.P("p", n))
	case wf.Item:
		return gen.Arr(n)
	}
	return n
}

func permutations(rs []gen.Rule, f func([]gen.Rule)) {
	n := len(rs)
	idx := make([]int, n)
	for i := range idx {
		idx[i] = i
	}
	var rec func(k int)
	rec = func(k int) {
		if k == n {
			out := make([]gen.Rule, n)
			for i, j := range idx {
				out[i] = rs[j]
			}
			f(out)
			return
		}
		for i := k; i < n; i++ {
			idx[k], idx[i] = idx[i], idx[k]
			rec(k + 1)
			idx[k], idx[i] = idx[i], idx[k]
		}
	}
	rec(0)
}

type caseT struct {
	Kind  string     `json:"kind"`
	Pos   int        `json:"position"`
	Rules []gen.Rule `json:"rules"`
	Opt   bool       `json:"keys_optional_by_default,omitempty"`
}

func (cs caseT) build() (sc.Case, *gen.Node) {
	var n *gen.Node
	for _, k := range kinds {
		if k.name == cs.Kind {
			n = k.mk()
		}
	}
	n.Rules = cs.Rules
	return sc.Case{Root: wrap(n, wf.Position(cs.Pos)), Types: types, Opt: cs.Opt}, n
}

func (cs caseT) check() lib.Res {
	c, _ := cs.build()
	s, r := lib.Check(c.Spec())
	// the verdict of the schema is the verdict of every Check on it
	if r.Panic == "" && s != nil {
		if r2 := lib.Recheck(s); r2.OK != r.OK {
			return lib.Res{Panic: fmt.Sprintf("Check is not stable on one schema object: first %s, second %s", r, r2)}
		}
	}
	return r
}

func (cs caseT) text() string {
	c, _ := cs.build()
	return c.Spec().Text
}

// evalCase returns (order-dependent?, predicate direction, details).
func evalCase(cs caseT) (orderDep bool, dir string, desc string) {
	c0, n := cs.build()
	want := wf.WellFormed(c0.Env(), n, wf.Position(cs.Pos))
	var first lib.Res
	firstText := ""
	i := 0
	permutations(cs.Rules, func(p []gen.Rule) {
		x := cs
		x.Rules = p
		r := x.check()
		if i == 0 {
			first, firstText = r, x.text()
		} else if r.OK != first.OK && !orderDep {
			orderDep = true
			desc = fmt.Sprintf("Check verdict depends on rule order: %q -> %s, but %q -> %s", firstText, first, x.text(), r)
		}
		i++
	})
	if orderDep {
		return true, "order", desc
	}
	if first.Panic != "" {
		return false, "panic", fmt.Sprintf("Check panics on %q: %s", firstText, first.Panic)
	}
	switch want {
	case refv.Accept:
		if !first.OK {
			return false, "lib=reject,ref=accept", fmt.Sprintf("Check rejects %q (%s) although every rule is known, applicable, consistent and obeyed by the example", firstText, first)
		}
	case refv.Reject:
		if first.OK {
			return false, "lib=accept,ref=reject", fmt.Sprintf("Check accepts %q although the statement's applicability/consistency conditions are violated", firstText)
		}
	}
	return false, "", ""
}

// evalOpt: the same case under KeysAreOptionalByDefault (the predicate does not depend on the configuration).
func evalOpt(c *ev.Ctx, k int, cs caseT) {
	od, dir, _ := evalCase(cs)
	c.Inc("rule_sets_optional_by_default")
	if od || dir != "" {
		red := ev.Reduce(cs, cands, func(x caseT) bool {
			_, d2, _ := evalCase(x)
			return d2 == dir
		})
		_, _, desc := evalCase(red)
		cfg := ""
		if red.Opt {
			cfg = ";optional-by-default"
		}
		c.Violate(fmt.Sprintf("%s;%s;pos=%d;%s%s", dir, red.Kind, red.Pos, ruleKey(red.Rules), cfg), desc, red)
	}
}

func ruleKey(rs []gen.Rule) string {
	var s []string
	for _, r := range rs {
		s = append(s, r.Name+":"+r.ValText())
	}
	sort.Strings(s)
	return strings.Join(s, ",")
}

func cands(cs caseT) []caseT {
	var out []caseT
	if cs.Pos != 0 {
		hasOpt := false
		for _, r := range cs.Rules {
			hasOpt = hasOpt || r.Name == "optional"
		}
		if !hasOpt {
			out = append(out, caseT{cs.Kind, 0, cs.Rules, cs.Opt})
		}
	}
	for i := range cs.Rules {
		rs := append(append([]gen.Rule{}, cs.Rules[:i]...), cs.Rules[i+1:]...)
		out = append(out, caseT{cs.Kind, cs.Pos, rs, cs.Opt})
	}
	for _, k := range kinds {
		if k.name == cs.Kind {
			break
		}
		out = append(out, caseT{k.name, cs.Pos, cs.Rules, cs.Opt})
	}
	if cs.Opt {
		out = append(out, caseT{cs.Kind, cs.Pos, cs.Rules, false})
	}
	return out
}

func run(c *ev.Ctx) {
	k := 3
	if c.Thorough() {
		k = 4
	}
	c.Bound("rules_per_set", k)
	for _, ks := range kinds {
		node := ks.mk()
		p := pool(node.Kind)
		for pos := 0; pos < 3; pos++ {
			var rec func(start int, cur []gen.Rule)
			eval := func(rules []gen.Rule) {
				if !c.Mine() {
					return
				}
				evalOpt(c, k, caseT{ks.name, pos, rules, true})
				cs := caseT{ks.name, pos, rules, false}
				od, dir, _ := evalCase(cs)
				n := 1
				for i := 2; i <= len(rules); i++ {
					n *= i
				}
				c.Add("evaluations", int64(n))
				if len(rules) > 0 {
					c.Inc("distinct_nontrivial")
				}
				c.Inc("rule_sets")
				if len(rules) == k {
					c.Sample(ks.name, map[string]any{"schema": cs.text(), "orders": n})
				}
				if od || dir != "" {
					red := ev.Reduce(cs, cands, func(x caseT) bool {
						_, d2, _ := evalCase(x)
						return d2 == dir
					})
					// canonical rule order for the key
					_, _, desc := evalCase(red)
					c.Violate(fmt.Sprintf("%s;%s;pos=%d;%s", dir, red.Kind, red.Pos, ruleKey(red.Rules)), desc, red)
				} else {
					cx, nn := cs.build()
					switch wf.WellFormed(cx.Env(), nn, wf.Position(pos)) {
					case refv.Accept:
						c.Inc("ref_accept")
					case refv.Reject:
						c.Inc("ref_reject")
					default:
						c.Inc("unspecified")
					}
				}
			}
			rec = func(start int, cur []gen.Rule) {
				if c.Expired() {
					return
				}
				eval(append([]gen.Rule{}, cur...))
				if len(cur) == k {
					return
				}
				for i := start; i < len(p); i++ {
					for _, v := range p[i].vals {
						rec(i+1, append(cur, v))
					}
				}
			}
			rec(0, nil)
			// duplicated names
			for _, v := range p {
				for _, a := range v.vals {
					for _, b := range v.vals {
						eval([]gen.Rule{a, b})
						eval([]gen.Rule{gen.R("nullable", "true"), a, b})
					}
				}
			}
		}
	}
	scalarFamily(c)
	orSetFamily(c)
	paddedNames(c)
}

func replay(raw stdjson.RawMessage) (bool, string) {
	if v, d, ok := replayScalar(raw); ok {
		return v, d
	}
	var pn paddedNameCase
	if err := stdjson.Unmarshal(raw, &pn); err == nil && pn.Schema != "" {
		_, r := lib.Check(lib.SchemaSpec{Text: pn.Schema, OptionalDef: pn.Opt})
		return true, fmt.Sprintf("schema %q: Check %s (replay shows the library's verdict)", pn.Schema, r)
	}
	var o orSetCase
	if err := stdjson.Unmarshal(raw, &o); err == nil && len(o.Set) > 0 {
		cs := o.build()
		_, r := lib.Check(cs.Spec())
		control := len(o.Set) == 1
		return r.Panic != "" || (control && !r.OK) || (!control && r.OK), fmt.Sprintf("%s: Check %s", cs.Describe(), r)
	}
	var cs caseT
	if err := stdjson.Unmarshal(raw, &cs); err != nil {
		return false, err.Error()
	}
	od, dir, desc := evalCase(cs)
	return od || dir != "", desc
}

// ForEachSchema yields every (kind, position, rule set of <= k rules) as a case
// (accepted and rejected ones alike).
func ForEachSchema(k int, f func(sc.Case)) {
	for _, ks := range kinds {
		node := ks.mk()
		p := pool(node.Kind)
		for pos := 0; pos < 3; pos++ {
			var rec func(start int, cur []gen.Rule)
			rec = func(start int, cur []gen.Rule) {
				cs, _ := caseT{ks.name, pos, append([]gen.Rule{}, cur...), false}.build()
				f(cs)
				if len(cur) == k {
					return
				}
				for i := start; i < len(p); i++ {
					for _, v := range p[i].vals {
						rec(i+1, append(cur, v))
					}
				}
			}
			rec(0, nil)
		}
	}
}
