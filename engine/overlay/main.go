// Command overlay generates a go-build overlay from the CURRENT /repo tree:
//  1. every non-test library file that imports "sync" gets a copy whose import
//     points at the virtual package <module>/verifshim (named sync);
//  2. every `for ... := range m` over a map (decided with go/types) is rewritten
//     to iterate over verifshim.MapKeys(m, site);
//  3. the virtual package itself maps to /verif/engine/shim/shim.go.
//
// usage: overlay <repo> <outdir>   (writes <outdir>/overlay.json and <outdir>/sites.json)
package main

import (
	"bytes"
	"encoding/json"
	"fmt"
	"go/ast"
	"go/format"
	"go/importer"
	"go/parser"
	"go/token"
	"go/types"
	"os"
	"path/filepath"
	"sort"
	"strconv"
	"strings"
)

const modPath = "github.com/jsightapi/jsight-schema-go-library"
const shimPath = modPath + "/verifshim"

type site struct {
	ID   string `json:"id"`
	File string `json:"file"`
	Line int    `json:"line"`
	Key  string `json:"key_type"`
}

func main() {
	repo, out := os.Args[1], os.Args[2]
	shimSrc, _ := filepath.Abs(filepath.Join(filepath.Dir(os.Args[0]), "..", "..", "engine", "shim", "shim.go"))
	if len(os.Args) > 3 {
		shimSrc = os.Args[3]
	}
	os.MkdirAll(out, 0o755)
	replace := map[string]string{filepath.Join(repo, "verifshim", "shim.go"): shimSrc}
	var sites []site
	var syncFiles []string

	// collect package directories
	pkgs := map[string][]string{}
	filepath.Walk(repo, func(p string, info os.FileInfo, err error) error {
		if err != nil {
			return nil
		}
		if info.IsDir() {
			n := info.Name()
			if p != repo && (strings.HasPrefix(n, ".") || n == "testdata" || n == "vendor" || n == "verifshim" || n == "verifhooks") {
				return filepath.SkipDir
			}
			return nil
		}
		if strings.HasSuffix(p, ".go") && !strings.HasSuffix(p, "_test.go") && !strings.HasSuffix(p, "verif_hooks.go") {
			pkgs[filepath.Dir(p)] = append(pkgs[filepath.Dir(p)], p)
		}
		return nil
	})
	dirs := make([]string, 0, len(pkgs))
	for d := range pkgs {
		dirs = append(dirs, d)
	}
	sort.Strings(dirs)

	for _, dir := range dirs {
		fset := token.NewFileSet()
		var files []*ast.File
		var names []string
		for _, p := range pkgs[dir] {
			f, err := parser.ParseFile(fset, p, nil, parser.ParseComments)
			if err != nil {
				fmt.Fprintln(os.Stderr, "parse:", err)
				os.Exit(1)
			}
			if f.Name.Name == "main" {
				continue
			}
			files = append(files, f)
			names = append(names, p)
		}
		if len(files) == 0 {
			continue
		}
		conf := types.Config{Importer: importer.ForCompiler(fset, "source", nil), Error: func(error) {}}
		info := &types.Info{Types: map[ast.Expr]types.TypeAndValue{}}
		rel, _ := filepath.Rel(repo, dir)
		pkgPath := modPath
		if rel != "." {
			pkgPath = modPath + "/" + filepath.ToSlash(rel)
		}
		oldwd, _ := os.Getwd()
		os.Chdir(dir)
		conf.Check(pkgPath, fset, files, info)
		os.Chdir(oldwd)

		for i, f := range files {
			changed := false
			needShim := false
			// 1. sync import
			for _, im := range f.Imports {
				if im.Path.Value == `"sync"` {
					im.Path.Value = strconv.Quote(shimPath)
					im.Name = ast.NewIdent("sync")
					changed = true
					r, _ := filepath.Rel(repo, names[i])
					syncFiles = append(syncFiles, r)
				}
			}
			// 2. range over map
			var rewrite func(list []ast.Stmt)
			visitBlock := func(b *ast.BlockStmt) {
				if b != nil {
					rewrite(b.List)
				}
			}
			_ = visitBlock
			ast.Inspect(f, func(n ast.Node) bool {
				rs, ok := n.(*ast.RangeStmt)
				if !ok {
					return true
				}
				tv, ok := info.Types[rs.X]
				if !ok || tv.Type == nil {
					return true
				}
				mt, ok := tv.Type.Underlying().(*types.Map)
				if !ok {
					return true
				}
				pos := fset.Position(rs.Pos())
				r, _ := filepath.Rel(repo, pos.Filename)
				id := fmt.Sprintf("%s:%d", filepath.ToSlash(r), pos.Line)
				sites = append(sites, site{ID: id, File: filepath.ToSlash(r), Line: pos.Line, Key: mt.Key().String()})
				// for k, v := range m { body }  =>
				// for _, k := range verifshimX.MapKeys(m, "id") { v, ok := m[k]; if !ok { continue }; body }
				if rs.Tok != token.DEFINE && rs.Key != nil {
					return true // assignment form: leave untouched (none in the tree)
				}
				keyIdent := ast.NewIdent("verifKey_")
				if id, ok := rs.Key.(*ast.Ident); ok && id.Name != "_" {
					keyIdent = ast.NewIdent(id.Name)
				}
				var pre []ast.Stmt
				if rs.Value != nil {
					if vid, ok := rs.Value.(*ast.Ident); !ok || vid.Name != "_" {
						pre = append(pre,
							&ast.AssignStmt{Lhs: []ast.Expr{rs.Value, ast.NewIdent("verifOK_")}, Tok: token.DEFINE, Rhs: []ast.Expr{&ast.IndexExpr{X: rs.X, Index: keyIdent}}},
							&ast.IfStmt{Cond: &ast.UnaryExpr{Op: token.NOT, X: ast.NewIdent("verifOK_")}, Body: &ast.BlockStmt{List: []ast.Stmt{&ast.BranchStmt{Tok: token.CONTINUE}}}},
						)
					}
				}
				if rs.Value == nil || len(pre) == 0 {
					// keys only: still honour deletions during iteration
					pre = append(pre,
						&ast.AssignStmt{Lhs: []ast.Expr{ast.NewIdent("_"), ast.NewIdent("verifOK_")}, Tok: token.DEFINE, Rhs: []ast.Expr{&ast.IndexExpr{X: rs.X, Index: keyIdent}}},
						&ast.IfStmt{Cond: &ast.UnaryExpr{Op: token.NOT, X: ast.NewIdent("verifOK_")}, Body: &ast.BlockStmt{List: []ast.Stmt{&ast.BranchStmt{Tok: token.CONTINUE}}}},
					)
				}
				mapExpr := rs.X
				rs.Key = ast.NewIdent("_")
				rs.Value = keyIdent
				rs.Tok = token.DEFINE
				rs.X = &ast.CallExpr{Fun: &ast.SelectorExpr{X: ast.NewIdent("verifshimX"), Sel: ast.NewIdent("MapKeys")}, Args: []ast.Expr{mapExpr, &ast.BasicLit{Kind: token.STRING, Value: strconv.Quote(id)}}}
				rs.Body.List = append(pre, rs.Body.List...)
				changed = true
				needShim = true
				return true
			})
			if !changed {
				continue
			}
			if needShim {
				// add import verifshimX
				spec := &ast.ImportSpec{Name: ast.NewIdent("verifshimX"), Path: &ast.BasicLit{Kind: token.STRING, Value: strconv.Quote(shimPath)}}
				added := false
				for _, d := range f.Decls {
					if gd, ok := d.(*ast.GenDecl); ok && gd.Tok == token.IMPORT {
						gd.Specs = append(gd.Specs, spec)
						if !gd.Lparen.IsValid() {
							gd.Lparen = 1
						}
						added = true
						break
					}
				}
				if !added {
					f.Decls = append([]ast.Decl{&ast.GenDecl{Tok: token.IMPORT, Specs: []ast.Spec{spec}}}, f.Decls...)
				}
			}
			var buf bytes.Buffer
			if err := format.Node(&buf, fset, f); err != nil {
				fmt.Fprintln(os.Stderr, "format:", names[i], err)
				os.Exit(1)
			}
			rel, _ := filepath.Rel(repo, names[i])
			dst := filepath.Join(out, "src", rel)
			os.MkdirAll(filepath.Dir(dst), 0o755)
			os.WriteFile(dst, buf.Bytes(), 0o644)
			replace[names[i]] = dst
		}
	}
	ov, _ := json.MarshalIndent(map[string]any{"Replace": replace}, "", " ")
	os.WriteFile(filepath.Join(out, "overlay.json"), ov, 0o644)
	sort.Slice(sites, func(i, j int) bool { return sites[i].ID < sites[j].ID })
	sort.Strings(syncFiles)
	sj, _ := json.MarshalIndent(map[string]any{"range_over_map_sites": sites, "sync_importing_files": syncFiles}, "", " ")
	os.WriteFile(filepath.Join(out, "sites.json"), sj, 0o644)
	fmt.Printf("overlay: %d files replaced, %d sync-importing files, %d range-over-map sites\n", len(replace), len(syncFiles), len(sites))
}
